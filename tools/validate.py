#!/usr/bin/env python3
"""validate MANIFEST.json and every evidence/*.json against the schemas in /root/.vp (run with python3-vt)"""
import glob, json, sys
import jsonschema
ok = True
try:
    jsonschema.validate(json.load(open('/verif/MANIFEST.json')), json.load(open('/root/.vp/MANIFEST.schema.json')))
    print("MANIFEST ok")
except Exception as e:
    ok = False; print("MANIFEST INVALID", str(e)[:300])
es = json.load(open('/root/.vp/EVIDENCE.schema.json'))
for f in sorted(glob.glob('/verif/evidence/*.json')):
    try:
        d = json.load(open(f)); jsonschema.validate(d, es)
        c = d['coverage']
        print(f.split('/')[-1], 'ok', 'obl', c.get('obligations'), '/', c.get('discharged'), 'eval', c.get('evaluations'), 'distinct', c.get('distinct_nontrivial'), 'viol', d.get('violations'), 'wall', d.get('wall_s'))
    except Exception as e:
        ok = False; print(f, "INVALID", str(e)[:300])
sys.exit(0 if ok else 1)
