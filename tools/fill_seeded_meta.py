#!/usr/bin/env python3
"""tools/fill_seeded_meta.py — completes seeded/<id>/meta.json with what the coordinator ran (confirm.log, detect.log) and, where the
first version of the check missed the change, a pointer to the description of the strengthening (notes/<pid>-selftest.md)."""
import glob, json, os, re
HERE = os.path.dirname(os.path.dirname(os.path.abspath(__file__)))
MISSED = {  # seeded id -> where the strengthening is described (from the build log / self-test notes)
    "C01-2": "missed by the first build; notes/C01-selftest.md §Seeded change C01-2 (lazy update with a longer source: new fixtures, snapshot clause lazy-batch)",
    "C07-1": "missed at first; notes/C07-selftest.md §Seeded changes C07-1 / C07-2 (self-aliasing values in in-place writes)",
    "C07-2": "missed at first; notes/C07-selftest.md §Seeded changes C07-1 / C07-2 (range / sequence indices judged by torch's own view rule)",
    "C09-2": "missed at first; notes/C09-selftest.md §Seeded change C09-2 (reflected comparison operators with tensorclass operands; theorem C09_compare_dispatch_not_negation)",
    "C10-2": "missed at first; notes/C10-selftest.md (fault-injection stream into writer tasks for every save entry point, collected = spawned obligation, tensorclass entries)",
    "C11-1": "missed at first; notes/C11-selftest.md §Seeded changes C11-1 / C11-2 (same-dtype-and-shape swaps after consolidate)",
    "C11-2": "missed at first; notes/C11-selftest.md §Seeded changes C11-1 / C11-2 (jagged tensors with lengths before other leaves; now also a theorem: C11_jagged_reset_necessary)",
    "C12-2": "missed at first; notes/C12-selftest.md §Seeded change C12-2 (identity classes in the multithreaded in-place apply; theorem C12_mt_inplace_keeps_identities)",
    "C13-2": "missed at first; notes/C13-selftest.md §Seeded change C13-2 (temporary parameter sources dropped before exit, gc at every injection point)",
    "C15-1": "missed at first; notes/C15-selftest.md (sibling-independence oracle: mutate one result, re-read siblings and source; heap model of per-result stores)",
    "C15-2": "missed at first; notes/C15-selftest.md (n-ary torch functions with 1-4 operands and equal-but-distinct values; row-provenance oracle independent of the library)",
    "C17-1": "missed at first; C17 generators strengthened (locked originals whose leaf order differs from the yielded object's); DESIGN.md §9.1",
    "C17-2": "missed at first; C17 generators strengthened (re-entering a yielded object without re-executing the op; theorem C17_reenter_with_clearing_enter_refuted)",
    "C19-1": "missed at first; C19 strengthened (unbatched locked arguments reused across calls with writes in between; theorem C19_memo_none_copy_refuted)",
    "C19-2": "missed at first; C19 strengthened (in-place programs on lazy stacks vmapped along the stack dim)",
    "C07-4": "missed at first; notes/C07-selftest.md §Seeded change C07-4 (one-member lazy stacks, stacks reduced to one member by slice / split / chunk; every copy-class op on a stack judged by the copy oracle; theorem C07_lazy_get_fresh_one_member)",
    "C19-3": "missed at first; notes/C19-selftest.md §Seeded change C19-3 (input-integrity oracle, names of every output, repeated calls on named locked inputs; theorem C19_unbatch_names_fresh)",
    "C09-3": "missed at first; notes/C09-selftest.md §Seeded change C09-3 (stacks that stay lazy under expand, operands of higher rank than the stack, square shapes; theorem C09_lazy_expand_member)",
}
for d in sorted(glob.glob(os.path.join(HERE, "seeded", "*", ""))):
    sid = os.path.basename(d.rstrip("/"))
    mf = os.path.join(d, "meta.json")
    m = json.load(open(mf))
    conf = open(os.path.join(d, "confirm.log")).read() if os.path.exists(os.path.join(d, "confirm.log")) else ""
    ran = []
    mm = re.search(r"demo at /repo (\w+): clean exit (\d+), patched exit (\d+)", conf)
    if mm:
        ran.append(f"tools/confirm_demo.sh {sid}: demo.py on a scratch worktree of /repo {mm.group(1)} exits {mm.group(2)}; with patch.diff applied it exits {mm.group(3)}")
    for sm in re.finditer(r"suite at /repo (\w+) \+ patch\.diff.*?\n(passed \d+ failed \d+ stable_pass \d+ stable-but-not-passed \d+).*?FINAL: stable tests not passing even alone: (\d+)", conf, re.S):
        ran.append(f"tools/confirm_suite.sh {sid}: whole test suite on /repo {sm.group(1)} + patch.diff, guard off: {sm.group(2)}; stable tests not passing even alone: {sm.group(3)}")
    if os.path.exists(os.path.join(d, "detect.log")):
        t = open(os.path.join(d, "detect.log")).read()
        n = t.count("VIOLATION property")
        ran.append(f"VERIF_REPO=<scratch worktree with patch.diff> ./check {sid.split('-')[0]} --tier quick: " + (f"{n} VIOLATION line(s)" if n else "no VIOLATION (missed)"))
    m["breaks_property"] = m.get("property", sid.split("-")[0])
    m["confirmed_by_coordinator"] = ran
    m["suite_confirmed"] = bool(re.search(r"FINAL: stable tests not passing even alone: 0", conf))
    if sid in MISSED:
        m["strengthening"] = MISSED[sid]
    json.dump(m, open(mf, "w"), indent=1)
print("ok")
