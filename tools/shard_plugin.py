"""pytest plugin: keep only the tests of shard VERIF_SHARD (k/N) — used by tools/baseline.sh to parallelise big files"""
import os
import zlib


def pytest_collection_modifyitems(config, items):
    spec = os.environ.get("VERIF_SHARD")
    if not spec:
        return
    k, n = map(int, spec.split("/"))
    keep = [it for it in items if zlib.crc32(it.nodeid.encode()) % n == k]
    drop = [it for it in items if zlib.crc32(it.nodeid.encode()) % n != k]
    config.hook.pytest_deselected(items=drop)
    items[:] = keep
