#!/usr/bin/env python3
"""tools/record_fixed.py <pid> ... : append kind=fixed entries to known_findings.json from fixes/<pid>/fixed.json,
looking the commit up by the first line of the patch's .msg in /repo's log"""
import json, glob, os, subprocess, sys
log = subprocess.run(['git', '-C', '/repo', 'log', '--format=%h\t%s'], capture_output=True, text=True).stdout.strip().split('\n')
subj = {l.split('\t', 1)[1]: l.split('\t', 1)[0] for l in log}
kf = json.load(open('/verif/known_findings.json'))
have = {(f.get('property'), f['id']) for f in kf['findings']}
for d in sys.argv[1:]:
    for e in json.load(open(f'/verif/fixes/{d}/fixed.json')):
        patch = os.path.basename(str(e.get('patch', '')))
        msgf = f"/verif/fixes/{d}/" + patch.replace('.diff', '.msg')
        if not (patch and os.path.exists(msgf)):
            cands = [m for m in glob.glob(f"/verif/fixes/{d}/*.msg") if e['id'].replace(d + '-', '') in os.path.basename(m)]
            msgf = cands[0] if cands else None
        first = open(msgf).read().split('\n')[0] if msgf else None
        commit = subj.get(first, e.get('commit', '?'))
        if (d, e['id']) in have:
            continue
        kf['findings'].append({"id": e['id'], "kind": "fixed", "property": d, "commit": commit,
                               "what": f"fixed: property={d} {commit} {e['what']}"})
        print(d, e['id'], commit)
json.dump(kf, open('/verif/known_findings.json', 'w'), indent=1)
