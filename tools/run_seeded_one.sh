#!/bin/sh
# tools/run_seeded_one.sh <id> — one seeded change in its own scratch worktree of /repo HEAD (safe to run several in parallel)
cd "$(dirname "$0")/.."
id=$1; d=seeded/$id; pid=${id%%-*}; wt=/tmp/wt-seed-$id
git -C /repo worktree add -q "$wt" HEAD && cp /repo/tensordict/_C*.so "$wt/tensordict/" || exit 2
if git -C "$wt" apply "$(pwd)/$d/patch.diff"; then
  VERIF_REPO="$wt" ./check "$pid" --tier quick > "$d/detect.log" 2>&1; rc=$?
  echo "$id: check $pid exit $rc; $(grep -c '^VIOLATION' "$d/detect.log") VIOLATION line(s); $(grep '^VIOLATION' "$d/detect.log" | head -1)"
else echo "$id: patch does not apply"; fi
git -C /repo worktree remove --force "$wt"
