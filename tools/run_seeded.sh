#!/bin/sh
# tools/run_seeded.sh [id ...] — applies each seeded change to /repo, runs the quick check of the property it breaks,
# records the outcome in seeded/<id>/detect.log, and undoes the change straight afterwards.  /repo must be clean.
cd "$(dirname "$0")/.."
[ -z "$(git -C /repo status --porcelain --untracked-files=no)" ] || { echo "/repo has uncommitted changes"; exit 2; }
ids="$*"; [ -n "$ids" ] || ids=$(ls seeded)
for id in $ids; do
  d=seeded/$id; pid=${id%%-*}
  git -C /repo apply "$(pwd)/$d/patch.diff" || { echo "$id: patch does not apply"; continue; }
  ./check "$pid" --tier quick > "$d/detect.log" 2>&1; rc=$?
  git -C /repo checkout -- .
  echo "$id: check $pid exit $rc; $(grep -c '^VIOLATION' "$d/detect.log") VIOLATION line(s); $(grep '^VIOLATION' "$d/detect.log" | head -1)"
  ./check "$pid" --tier quick > /dev/null 2>&1   # rewrite the evidence from the unchanged tree
done
