#!/bin/sh
# tools/confirm_suite.sh <id> — runs the repository's whole test suite (tools/baseline.sh: guard off, compared with
# BASELINE.json's stable_pass) on a scratch worktree of /repo HEAD with seeded/<id>/patch.diff applied; appends the verdict to
# seeded/<id>/confirm.log and removes the worktree.
HERE="$(cd "$(dirname "$0")/.." && pwd)"; id=$1; d=$HERE/seeded/$id; wt=/tmp/cf-$id
grep -q "FINAL: stable tests not passing even alone: 0" "$d/confirm.log" 2>/dev/null && { echo "$id already confirmed"; exit 0; }
git -C /repo worktree add -q "$wt" HEAD || exit 2
cp /repo/tensordict/_C*.so "$wt/tensordict/"
if git -C "$wt" apply "$d/patch.diff"; then
  echo "suite at /repo $(git -C /repo rev-parse --short HEAD) + patch.diff (tools/baseline.sh):" >> "$d/confirm.log"
  nice -n 5 "$HERE/tools/baseline.sh" "$wt" > "$wt.out" 2>&1
  grep -v "^  NOT PASSED\|^logs in" "$wt.out" | tail -6 >> "$d/confirm.log"
  out=$(sed -n 's/^logs in //p' "$wt.out"); [ -n "$out" ] && rm -rf "$out"; rm -f "$wt.out"
fi
git -C /repo worktree remove --force "$wt"
tail -n 1 "$d/confirm.log" | sed "s/^/$id: /"
