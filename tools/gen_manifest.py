#!/usr/bin/env python3
"""writes MANIFEST.json from harness/manifest_data.py (one entry per claimed property)"""
import json, os, sys
HERE = os.path.dirname(os.path.dirname(os.path.abspath(__file__)))
sys.path.insert(0, HERE)
from harness.manifest_data import CHECKS, NOT_APPLICABLE, NOTES, SOURCE_COMMITS, PENDING
CHECKS = {k: v for k, v in CHECKS.items() if k not in PENDING}
props = [json.loads(l)["id"] for l in open(os.path.join(HERE, "properties.jsonl"))]
checks = []
for pid in props:
    if pid not in CHECKS:
        continue
    c = CHECKS[pid]
    checks.append({
        "property_id": pid,
        "quick_cmd": f"./check {pid} --tier quick",
        "thorough_cmd": f"./check {pid} --tier thorough",
        "evidence_file": f"evidence/{pid}.json",
        "replay_cmd_template": f"./check {pid} --replay {{path}}",
        "engine": "coq-model+correspondence",
        "level_claimed": {"category": "proof", "text": c["text"], "design_ref": f"DESIGN.md §4 {pid}"},
        "level_note": c["note"],
        "technique": c["technique"],
    })
na = [{"property_id": p, "reason": NOT_APPLICABLE.get(p, "check not built yet in this round (the design claims it; see DESIGN.md §4)")}
      for p in props if p not in CHECKS]
m = {
    "version": 1,
    "setup_cmd": "./setup.sh",
    "hooks": {
        "guard": "TENSORDICT_VERIF",
        "enable": "TENSORDICT_VERIF=1 in the environment of ./check (set by the script); /repo is imported from its working tree via PYTHONPATH, nothing is installed",
        "baseline_off_cmd": "cd /repo && env -u TENSORDICT_VERIF /venv/bin/python -m pytest -ra -q -p no:cacheprovider --timeout=900 --continue-on-collection-errors",
        "source_commits": SOURCE_COMMITS,
        "add_only": True,
    },
    "engines": [{"name": "coq-model+correspondence", "path": "check",
                 "serves_properties": [c["property_id"] for c in checks],
                 "kind_free_text": "Coq 8.16.1 theorems about hand-written Gallina models (coq/), re-checked on every run; model tied to /repo by "
                                   "differential runs of the extracted OCaml model against the imported working tree plus ast-translated tables"}],
    "checks": checks,
    "not_applicable": na,
    "notes": NOTES,
}
json.dump(m, open(os.path.join(HERE, "MANIFEST.json"), "w"), indent=1)
print(f"MANIFEST.json: {len(checks)} checks, {len(na)} not claimed")
