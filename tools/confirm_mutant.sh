#!/bin/sh
# tools/confirm_mutant.sh <seeded dir>  — confirm a seeded change in a scratch worktree (outside /repo and /verif):
#  demo exits 0 on the unchanged tree, non-zero with the patch; the repository's test suite still passes with the patch.
D="$(cd "$1" && pwd)"; HERE="$(cd "$(dirname "$0")" && pwd)"
WT=$(mktemp -d /tmp/confirm.XXXXXX); rmdir "$WT"
git -C /repo worktree add -q "$WT" HEAD || exit 2
cp /repo/tensordict/_C*.so "$WT/tensordict/"
cd "$WT"
PYTHONPATH="$WT" timeout 900 /venv/bin/python "$D/demo.py" > "$D/demo_clean.log" 2>&1; c=$?
git apply "$D/patch.diff" || { echo "patch does not apply"; git -C /repo worktree remove --force "$WT"; exit 2; }
PYTHONPATH="$WT" timeout 900 /venv/bin/python "$D/demo.py" > "$D/demo_patched.log" 2>&1; p=$?
echo "demo: clean exit $c, patched exit $p" | tee "$D/confirm.log"
if [ "${2:-}" != "nobaseline" ]; then
  "$HERE/baseline.sh" "$WT" 2>&1 | grep -v "^  NOT PASSED" | tail -8 >> "$D/confirm.log"
fi
cd /; git -C /repo worktree remove --force "$WT"
tail -3 "$D/confirm.log"
