#!/bin/sh
# tools/import_seeded.sh <pid> <tag> <first-new-index> — imports /tmp/mut-<pid>-<tag>/out/{patch,demo,meta}{1,2} as seeded/<pid>-<n>, <pid>-<n+1>,
# removes the scratch worktree, confirms the demos (clean / patched) and runs the property's quick check on a patched scratch worktree.
cd "$(dirname "$0")/.."; pid=$1; tag=$2; n=$3; src=/tmp/mut-$pid-$tag/out; ids=""
for i in 1 2; do
  [ -f "$src/patch$i.diff" ] || continue
  d=seeded/$pid-$n; mkdir -p $d; cp $src/patch$i.diff $d/patch.diff; cp $src/demo$i.py $d/demo.py; cp $src/meta$i.json $d/meta.json; ids="$ids $pid-$n"; n=$((n+1))
done
git -C /repo worktree remove --force /tmp/mut-$pid-$tag
tools/confirm_demo.sh $ids
tools/run_seeded_wt.sh $ids
