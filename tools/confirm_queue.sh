#!/bin/sh
# confirms (full baseline with the patch applied, in a scratch worktree) every seeded change that has not been confirmed yet
cd "$(dirname "$0")/.."
for d in seeded/*/; do
  d=${d%/}
  if ! grep -q "stable_pass" "$d/confirm.log" 2>/dev/null; then
    echo "== $d"; tools/confirm_mutant.sh "$d"
  fi
done
