#!/bin/sh
# test/test_memmap.py::TestIndexing::test_copy_onto busy-waits in a spawned child (`while queue.full()`) and sometimes never ends on the
# unchanged library; this watchdog ends such children (older than 8 minutes at > 85 % CPU) so that suite runs proceed; the test is retried alone.
while sleep 120; do ps -eo pid,etimes,pcpu,args | grep "spawn_main" | grep -v grep | awk '$2>480 && $3>85 {print $1}' | xargs -r kill 2>/dev/null; done
