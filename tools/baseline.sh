#!/bin/sh
# tools/baseline.sh [repo_dir]  — runs the repository's test suite (the BASELINE.json command) split by test file over
# parallel processes, with the verification guard OFF, and compares the passed ids with BASELINE.json's stable_pass.
HERE="$(cd "$(dirname "$0")" && pwd)"
REPO="${1:-/repo}"
OUT="$(mktemp -d /tmp/baseline.XXXXXX)"
cd "$REPO" || exit 2
JOBS=""
for f in test/test_*.py test/smoke_test.py; do
  b=$(basename $f .py)
  case $b in
    test_tensordict) N=10;; test_tensorclass|test_nn) N=2;; *) N=1;;
  esac
  k=0; while [ $k -lt $N ]; do JOBS="$JOBS $f:$k/$N"; k=$((k+1)); done
done
# test_distributed uses fixed TCP ports: concurrent suite runs serialise it through a lock file.
# watchdog: a pytest process that has written its junit file but does not exit (orphaned multiprocessing child in
# test_memmap) is killed 60 s later
( while sleep 30; do
    for x in "$OUT"/*.xml; do
      [ -f "$x" ] || continue
      if [ $(( $(date +%s) - $(stat -c %Y "$x") )) -gt 60 ]; then pkill -f "junitxml=$x" 2>/dev/null; fi
    done
  done ) &
WATCHDOG=$!
cd "$REPO"; echo $JOBS | tr ' ' '\n' | env -u TENSORDICT_VERIF PYTHONPATH="$REPO:$HERE" xargs -P 16 -I{} sh -c \
  'j={}; f=${j%%:*}; sh_=${j##*:}; b=$(basename $f .py)-$(echo $sh_ | tr / _); L=; case $f in *test_distributed*) L="flock /tmp/.td_dist_port.lock";; esac; VERIF_SHARD=$sh_ $L timeout 3000 /venv/bin/python -m pytest -q -p no:cacheprovider -p shard_plugin --timeout=900 --continue-on-collection-errors --junitxml='"$OUT"'/$b.xml $f > '"$OUT"'/$b.log 2>&1'
# test_tensordict.py dominates: it is additionally split below if present (handled by pytest-level -k in callers if needed)
kill $WATCHDOG 2>/dev/null
/venv/bin/python - "$OUT" <<'PY'
import sys, glob, json, xml.etree.ElementTree as ET
out = sys.argv[1]
passed, failed = set(), set()
for f in glob.glob(out + "/*.xml"):
    for tc in ET.parse(f).getroot().iter("testcase"):
        tid = tc.get("classname") + "::" + tc.get("name")
        bad = any(ch.tag in ("failure", "error") for ch in tc)
        skipped = any(ch.tag == "skipped" for ch in tc)
        if bad: failed.add(tid)
        elif not skipped: passed.add(tid)
stable = set(json.load(open("/root/.vp/BASELINE.json"))["stable_pass"])
missing = sorted(stable - passed)
print(f"passed {len(passed)} failed {len(failed)} stable_pass {len(stable)} stable-but-not-passed {len(missing)}")
for m in missing[:40]: print("  NOT PASSED:", m, "(failed)" if m in failed else "(absent/skipped)")
json.dump({"missing": missing, "failed": sorted(failed)}, open(out + "/summary.json", "w"))
print("logs in", out)
# tests of stable_pass that did not pass in the loaded parallel run are retried alone (load-sensitive multiprocessing tests)
import subprocess, os
still = []
for m in missing[:25]:
    cls, name = m.split("::", 1)
    parts = cls.split(".")
    # classname is module path (+ optional class)
    path = "/".join(parts[:2]) + ".py"
    nodeid = path + "::" + "::".join(parts[2:] + [name])
    env = dict(os.environ); env.pop("TENSORDICT_VERIF", None); env.pop("VERIF_SHARD", None)
    ok = False
    for attempt in range(3):   # load-sensitive multiprocessing tests: up to three attempts alone
        try:
            r = subprocess.run(["/venv/bin/python", "-m", "pytest", "-q", "-p", "no:cacheprovider", "--timeout=600", nodeid],
                               cwd=os.getcwd(), env=env, stdout=subprocess.PIPE, stderr=subprocess.STDOUT, text=True, timeout=900)
            ok = r.returncode == 0
        except subprocess.TimeoutExpired:
            ok = False
        if ok:
            break
    print("  RETRY ALONE:", m, "->", "passed" if ok else "FAILED")
    if not ok: still.append(m)
print("FINAL: stable tests not passing even alone:", len(still) + max(0, len(missing) - 25))
PY
