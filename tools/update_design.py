#!/usr/bin/env python3
"""tools/update_design.py — regenerates the tables between the TABLES markers of DESIGN.md from the committed state"""
import os, subprocess, re
V = os.path.dirname(os.path.dirname(os.path.abspath(__file__)))
t = subprocess.run(["python3", os.path.join(V, "tools", "gen_design_tables.py")], capture_output=True, text=True, check=True).stdout
s = open(os.path.join(V, "DESIGN.md")).read()
a = s.index("<!-- TABLES:BEGIN"); a = s.index("\n", a) + 1
b = s.index("<!-- TABLES:END -->")
open(os.path.join(V, "DESIGN.md"), "w").write(s[:a] + t + "\n" + s[b:])
print("DESIGN.md tables regenerated")
