#!/bin/sh
# tools/confirm_demo.sh <id> ... — demo exits 0 on /repo HEAD and non-zero with seeded/<id>/patch.diff (scratch worktree)
HERE="$(cd "$(dirname "$0")/.." && pwd)"; wt=/tmp/cd-$$
git -C /repo worktree add -q "$wt" HEAD || exit 2
cp /repo/tensordict/_C*.so "$wt/tensordict/"
for id in "$@"; do d=$HERE/seeded/$id
  (cd "$wt" && PYTHONPATH="$wt" timeout 600 /venv/bin/python "$d/demo.py" > "$d/demo_clean.log" 2>&1); c=$?
  git -C "$wt" apply "$d/patch.diff" || { echo "$id patch fails"; continue; }
  (cd "$wt" && PYTHONPATH="$wt" timeout 600 /venv/bin/python "$d/demo.py" > "$d/demo_patched.log" 2>&1); p=$?
  git -C "$wt" checkout -- .
  # the demo line is replaced, the suite verdicts recorded earlier (each names the HEAD it ran on) are kept
  { echo "demo at /repo $(git -C /repo rev-parse --short HEAD): clean exit $c, patched exit $p"; grep -v "^demo at " "$d/confirm.log" 2>/dev/null; } > "$d/confirm.log.new"
  mv "$d/confirm.log.new" "$d/confirm.log"; echo "$id clean=$c patched=$p"
done
git -C /repo worktree remove --force "$wt"
