import json,sys
pid=sys.argv[1]; tag=sys.argv[2]
for l in open('/verif/properties.jsonl'):
    p=json.loads(l)
    if p['id']==pid: break
wt=f"/tmp/mut-{pid}-{tag}"
print(f"""You are helping to evaluate a verification tool for the Python library pytorch/tensordict. Your job is to play the role of a developer who introduces a subtle bug.

You have your own scratch git worktree of the library at {wt} (a checkout of the current HEAD; work ONLY there; never touch /repo and never read anything under /verif). Run Python against your worktree with: `cd {wt} && PYTHONPATH={wt} /venv/bin/python your_script.py` (torch CPU only, no network). The C++ extension is already present in the worktree (tensordict/_C*.so); if you change tensordict/csrc you must rebuild it yourself, so prefer Python-level changes.

The property that the library is supposed to satisfy:

  Title: {p['title']}
  Statement: {p['statement']}
  Scope (what it quantifies over): {p['quantifier']['text']}
  Code it is anchored in: {', '.join(p['anchors']['files'])}

Produce TWO independent, different changes to the library source (two separate patches, each applied to a clean checkout on its own) such that each change:
  1. breaks the property above (the library then really misbehaves with respect to the statement),
  2. still imports/compiles and still passes the library's existing test suite (tests live in {wt}/test; run at least the test files relevant to the code you touched, e.g. `cd {wt} && PYTHONPATH={wt} /venv/bin/python -m pytest -q -x -p no:cacheprovider test/test_tensordict.py -k '<relevant>'` and any directly related files; a full run of test_tensordict.py takes ~10 minutes, run it in full at least once per final patch if you touched base.py/_td.py/utils.py/_lazy.py; these tests fail on the unchanged library too and do not count: test_vmap_functional, test_squeeze_with_none*, test_dtensor, test_h5 auto_batch_size, TestFCD memmap tests; tensordict arithmetic under torch.vmap raises 'Batching rule not implemented for aten::_foreach_*' in this torch version, that is not your doing),
  3. is realistic (the kind of slip a maintainer could make in a refactor or optimisation: an off-by-one, a dropped or weakened guard, a swapped argument, a wrong variable, a missing invalidation, a fast path that skips a step, two sites that are each fine alone but wrong together),
  4. needs something specific to manifest — a particular multi-step sequence of operations, an unusual but legal input, a particular interleaving/completion order, a crash or exception at a particular point, or two cooperating sites — NOT something ordinary use or the existing tests would expose at once.
For each change write, in {wt}/out/: `patch1.diff` / `patch2.diff` (output of `git diff` against HEAD with only that change applied), `demo1.py` / `demo2.py` (a small self-contained program that exits 0 on the unchanged library and exits non-zero, printing what went wrong, when the corresponding patch is applied — it must demonstrate a violation of the PROPERTY as stated, not just a behaviour difference), and `meta1.json` / `meta2.json` with keys: "property" ("{pid}"), "summary" (one sentence: what the change does), "needs" (what specific input/sequence/schedule is needed for it to manifest), "tests_run" (the exact pytest commands you ran and their pass counts), "files_touched".
Leave the worktree with NO patch applied at the end (git checkout -- . ; keep the out/ directory). Make the two changes genuinely different in mechanism and code site. Your final message: a short summary of both changes and the evidence that tests pass and demos behave as required.""")
