#!/bin/sh
# tools/build.sh <make target ...>   — builds inside coq/ under the shared build lock (e.g. tools/build.sh Props/C05.vo)
HERE="$(cd "$(dirname "$0")/.." && pwd)"
mkdir -p "$HERE/build"
exec flock "$HERE/build/.lock" sh -c "cd '$HERE' && tools/gen_coqproject.sh && cd coq && timeout 1700 make -j8 $*"
