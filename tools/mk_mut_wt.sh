#!/bin/sh
# tools/mk_mut_wt.sh <pid> <tag> : scratch worktree of /repo HEAD for a seeding sub-agent (outside /repo and /verif)
d=/tmp/mut-$1-$2
git -C /repo worktree add -q "$d" HEAD && cp /repo/tensordict/_C*.so "$d/tensordict/" && mkdir -p "$d/out" && echo "$d"
