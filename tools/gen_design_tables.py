#!/usr/bin/env python3
"""prints markdown tables for DESIGN.md §9 from the committed state: evidence/*.json, known_findings.json, findings.d/*.json, seeded/*/"""
import glob, json, os, re
V = os.path.dirname(os.path.dirname(os.path.abspath(__file__)))
os.chdir(V)
props = [json.loads(l) for l in open("properties.jsonl")]
kf = json.load(open("known_findings.json"))["findings"]
for f in sorted(glob.glob("findings.d/*.json")):
    kf += json.load(open(f))["findings"]
_seen = set(); _kf = []
for f in kf:   # an entry recorded both in known_findings.json and in findings.d is listed once
    k = (f.get("property"), f["id"], f.get("kind"))
    if k not in _seen:
        _seen.add(k); _kf.append(f)
kf = _kf
print("### 9.5 Per property, as built (from the last committed evidence of a quick run on the unchanged tree)\n")
print("| id | Coq files (model / proofs) | theorems | quick: cases (distinct non-trivial) | wall s | known findings | repaired defects |")
print("|---|---|---|---|---|---|---|")
for p in props:
    pid = p["id"]
    try:
        e = json.load(open(f"evidence/{pid}.json")); c = e["coverage"]
    except Exception:
        e = None
    mods = sorted(os.path.basename(x) for x in glob.glob(f"coq/Model/{pid}_*.v") + glob.glob(f"coq/Spec/{pid}_*.v"))
    prfs = sorted(os.path.basename(x) for x in glob.glob(f"coq/Proofs/{pid}_*.v"))
    if pid == "C18":
        mods = sorted(set(["Keys.v", "SliceM.v", "Dual.v", "Spec/PySlice.v"] + mods)); prfs = sorted(set(["KeysP.v", "SliceP.v", "DualP.v"] + prfs))
    lines = lambda fs, d: sum(len(open(g).read().split("\n")) for f in fs for g in glob.glob(f"coq/*/{f.split('/')[-1]}"))
    known = sorted({f["id"] for f in kf if f.get("property") == pid and f.get("kind") == "known"})
    fixed = sorted({f["id"] for f in kf if f.get("property") == pid and f.get("kind") == "fixed"})
    if e:
        print(f"| {pid} | {len(mods)} / {len(prfs)} files, {lines(mods,0)} / {lines(prfs,0)} lines | {c.get('discharged')}/{c.get('obligations')} | {c.get('evaluations')} ({c.get('distinct_nontrivial')}) | {e.get('wall_s')} | {', '.join(known) or '—'} | {', '.join(fixed) or '—'} |")
    else:
        print(f"| {pid} | — | — | — | — | — | — |")
print("\n### 9.2 Defects repaired in /repo (`fix:` commits)\n")
print("| property | id | commit | what failed |")
print("|---|---|---|---|")
for f in kf:
    if f.get("kind") == "fixed":
        w = re.sub(r"^fixed: property=\S+ \S+ ", "", f["what"])
        print(f"| {f['property']} | {f['id']} | {f.get('commit','')} | {w[:260]} |")
print("\n### 9.3 Defects recorded as known findings\n")
print("| property | id | what fails |")
print("|---|---|---|")
for f in kf:
    if f.get("kind") == "known":
        print(f"| {f['property']} | {f['id']} | {f['what'][:300]} |")
print("\n### 9.4 Seeded changes and which check reports them\n")
print("Column *suite*: `yes` = the coordinator ran the repository's whole suite on /repo HEAD + this patch (tools/confirm_suite.sh, verdict in\n`seeded/<id>/confirm.log`): all 26 623 stable tests pass; `agent` = so far only the seeding agent's own runs (listed in meta.json `tests_run`:\nthe full test_tensordict.py plus the files relevant to the patch) — the coordinator re-ran the demonstration clean / patched for every change.\n")
print("| seeded change | what it does | what it needs to manifest | reported by | suite | first miss → strengthening |")
print("|---|---|---|---|---|---|")
for d in sorted(glob.glob("seeded/*/")):
    sid = os.path.basename(d.rstrip("/"))
    try:
        m = json.load(open(d + "meta.json"))
    except Exception:
        m = {}
    det = ""
    if os.path.exists(d + "detect.log"):
        t = open(d + "detect.log").read()
        det = f"./check {sid.split('-')[0]} quick: " + (f"{t.count('VIOLATION property')} VIOLATION line(s)" if "VIOLATION property" in t else "NOT reported")
    print(f"| {sid} | {str(m.get('summary',''))[:220]} | {str(m.get('needs',''))[:220]} | {det} | {'yes' if m.get('suite_confirmed') else 'agent'} | {m.get('strengthening','')} |")
