"""Per-property claims (source of MANIFEST.json; regenerate with tools/gen_manifest.py)."""
SOURCE_COMMITS = []
NOTES = ("All checks: ./check <id> --tier quick|thorough; setup builds the Coq development (full .vo), extracts the model to OCaml "
         "and compiles the driver. known_findings.json lists recorded defects (kind known) and repaired ones (kind fixed).")
NOT_APPLICABLE = {}
COMMON_NOTE = ("Trusted: Coq 8.16.1 kernel (+vm_compute), extraction (ExtrOcamlBasic, ExtrOcamlString), OCaml driver, the Python harness, "
               "CPython/torch as referents. Theorems are about the hand-written model; the model<->code tie is this run's differential "
               "correspondence, bounded by its generators (distribution in the evidence). ")
CHECKS = {
    "C18": {
        "text": ("Proof (Coq): for ALL slices/lengths the compile-only _slice_indices equals CPython's slice.indices; for ALL key objects the "
                 "Python-branch unravel functions equal the native ones and equal the in-order fringe on well-formed keys; both _parse_batch_size "
                 "branches and both key-aligned list branches agree on every input. Tie: extracted model vs /repo on exhaustive small grids through "
                 "both real code paths (C++ helper rebuilt from csrc; compile branch forced), each path also compared directly with its twin. "
                 "Partial: eager-vs-torch.compile program equivalence is established by differential runs of generated programs only."),
        "note": COMMON_NOTE + "Dynamo tracing is not modelled; torch.compile backends eager/aot_eager stand for compiled execution.",
        "technique": "Coq theorems (induction on key trees, lia on slice arithmetic) + extracted-model/implementation differential correspondence",
    },
}
