"""Per-property claims (source of MANIFEST.json; regenerate with tools/gen_manifest.py)."""
SOURCE_COMMITS = ["2a19720"]
NOTES = ("All checks: ./check <id> --tier quick|thorough; setup builds the Coq development (full .vo), extracts the model to OCaml "
         "and compiles the driver. known_findings.json lists recorded defects (kind known) and repaired ones (kind fixed).")
NOT_APPLICABLE = {}
# built, but their fix stage is in progress (model already in the repaired state, patches not yet committed to /repo)
PENDING = set()
COMMON_NOTE = ("Trusted: Coq 8.16.1 kernel (+vm_compute), extraction (ExtrOcamlBasic, ExtrOcamlString), OCaml driver, the Python harness, "
               "CPython/torch as referents. Theorems are about the hand-written model; the model<->code tie is this run's differential "
               "correspondence, bounded by its generators (distribution in the evidence). ")
CHECKS = {
    "C20": {
        "text": ("Proof (Coq), with fn, its result type and is_leaf universally quantified (fn is a free symbol, so results hold for every function): "
                 "for EVERY insertion-ordered tree without duplicate keys, every list of other operands (permuted / missing / extra keys, nested "
                 "empties, non-tensor leaves), every out and EVERY point of the option lattice {inplace, out, default, filter_empty, call_on_nested, "
                 "named, nested_keys, batch_size / names / device override, checked, is_leaf, propagate_lock}, the model of `_apply_nest` returns "
                 "what an independently written recursive reference returns (fn applied to the entry and to the other operands' entries matched by "
                 "key, None results dropped, empties filtered as filter_empty says); not in place, every caller object found in the result belongs "
                 "to out and out is what is returned; in place, same objects, same keys in the same order, same leaf storages at every depth; "
                 "documented result metadata; the thread-pool form (`_multithread_apply_flat` + `_multithread_rebuild`) gives the same answer for "
                 "EVERY permutation of task completion and equals the single-threaded form. Tie: the full lattice (46,656 points) x sampled "
                 "operand scenes x 6 container kinds x lock state vs the extracted model, an independent Python reference and mt-vs-st through a "
                 "permuting executor and the real pool; fn = injective integer hash-combine (or None for chosen keys)."),
        "note": COMMON_NOTE + "Exception classes and non-regular containers (lazy through the stacked view, _SubTensorDict, tensorclass, TensorDictParams "
                "modulo identity/lock state) are covered by the differential run only. Known findings in findings.d/C20.json.",
        "technique": "Coq proof (mutual induction over insertion-ordered trees, free function symbol, induction over Permutation) + full-lattice differential run",
    },
    "C01": {
        "text": ("Proof (Coq): for plain TensorDict trees (tensor leaves, nested tensordicts, NonTensorData entries; ANY depth and rank, size-0/1 dims, "
                 "names, two devices) a Gallina transcription `step` of every public mutator in the property's list (set / set_ / setdefault / update / "
                 "del / pop / popitem / rename_key_ / batch_size and names assignment / refine_names / auto_batch_size_ / in-place flatten_keys, "
                 "unflatten_keys, select, exclude / create_nested / clear; raising calls return the state the code leaves behind) preserves coherence "
                 "(leading dims = batch size, nested batch extends the parent's, entries on the container's device, one name per batch dim) from ANY "
                 "coherent state, through ANY nested handle, for ok and raising outcomes, and hence along EVERY finite history (induction over the "
                 "op list), outside the regions of the recorded defects, each exhibited by a kernel-checked refutation witness. Separate theorems: "
                 "ill-shaped tensors are rejected and not stored; accepted tensors are stored on the container's device; the names and batch-size "
                 "setters keep coherence on success and on failure. Tie: the model is stepped from the real pre-state after every call (~44k "
                 "steps per quick run); independently a recursive snapshot of the real object is checked by `coherentb` after EVERY call including "
                 "raising ones, also on lazy stacks, tensorclasses, NonTensorStack and index writes, which the model does not cover."),
        "note": COMMON_NOTE + "Lazy stacks, tensorclasses, index writes and update_batch_size are covered by the model-independent snapshot oracle only. "
                "Known findings in findings.d/C01.json.",
        "technique": "Coq invariant proof (tree induction, induction over op lists) + per-step extracted-model differential + snapshot oracle with shrinking",
    },
    "C14": {
        "text": ("Proof (Coq) over a free term algebra (so 'same value' means 'same for every module function'), for ALL module graphs, environments and "
                 "key sets: a TensorDictSequential returns, under every advertised out key, the term the plain fold of its leaf modules computes; "
                 "a tensordict holding the advertised in_keys never makes it read a missing key; out_keys are exactly the written keys, last writer "
                 "wins; entries outside out_keys are untouched (module footprint); select_subsequence slices compute identical terms for the "
                 "retained out keys and are again regular chains; `_dist_sample` follows the InteractionType contract on the whole finite grid of "
                 "interaction type x distribution capabilities. `_refuted` + `_partial` pairs for the recorded defects. Tie: extracted model vs "
                 "the real modules on random graphs where every module computes an injective integer hash of (module id, output index, inputs) — "
                 "equal numbers <=> equal terms — for every subset of in/out keys, every inplace mode, tensordict_out, kwargs dispatch; recording "
                 "stub distribution for the probabilistic modules; independent 12-line Python fold as oracle."),
        "note": COMMON_NOTE + "Distribution numerics are out of scope (recording stub); nested-container aliasing, set_skip_existing and the probabilistic "
                "key plumbing are covered by the oracle only. Known findings in findings.d/C14.json.",
        "technique": "Coq theorems by induction over module graphs on a free term algebra + extracted-model differential + interned-term oracle",
    },
    "C03": {
        "text": ("Proof (Coq): for batch shapes of ANY rank and ANY Ellipsis-free index tuple (ints, slices, None, integer arrays of any shape, "
                 "0-dim integer tensors, boolean masks of any rank, any number of advanced indices anywhere) that torch accepts, the batch size the "
                 "library computes (_getitem_batch_size, both passes) equals torch's shape rule (two-stage spec with the adjacent-subspace rule); "
                 "the library's Ellipsis expansion equals the spec's; the same index applied to an entry of shape batch++features yields "
                 "result++features (every entry and nested node gets the computed batch size as prefix, feature dims untouched); rejection is "
                 "proved in its partial form (index within the batch rank) and the full form is refuted by a witness (finding D25). "
                 "Tie: the torch spec is re-validated against real torch and the extracted model against the real __getitem__ on ~28k (quick) / "
                 "~350k (thorough) generated reads and writes per run; the oracle compares td[idx] and td[idx]=v with entry[idx] and entry[idx]=v "
                 "leaf by leaf (shape, content, memory sharing) directly on the implementation."),
        "note": COMMON_NOTE + "Which elements tensor[idx] selects is torch's (trusted); Spec/C03_TorchIndex.v is my statement of torch's shape rule, "
                "validated against torch in every run. Known findings D3, D25, D30 are listed in known_findings.json.",
        "technique": "Coq theorems (induction on index tuples; invariant linking the code's two passes to torch's adjacent-subspace rule) + differential correspondence",
    },
    "C02": {
        "text": ("Proof (Coq): for EVERY coherent tensordict tree (any depth, width, feature shapes, nested batch longer than the parent) and every "
                 "argument torch accepts, the model of the shape operations (permute, transpose, squeeze, unsqueeze, expand, view, reshape, flatten, "
                 "unflatten, repeat, repeat_interleave, unbind, split, chunk, stack, cat, masked_select) returns a tree whose batch size is torch's "
                 "shape for a tensor of the batch shape, with every entry's and nested node's batch prefix replaced and trailing dims untouched, "
                 "the same keys, and the result again coherent; names are read through the same provenance as sizes (permute, unsqueeze, squeeze, "
                 "expand, flatten); arguments torch rejects for the batch shape are rejected (transpose, unsqueeze, squeeze(dim), permute); each "
                 "recorded defect has a kernel-checked refutation witness. Tie: Spec/C02_TorchShape is validated against real torch on every "
                 "generated case; extracted model vs /repo on outcome class and the whole result tree over the grid (341 batch shapes x ops x "
                 "argument lists x nesting patterns x names x lock); index-proxy oracle (torch applied to a tensor of indices of the batch shape "
                 "gives the demanded content of every entry) also on tensorclasses and a lazy-stack sub-domain."),
        "note": COMMON_NOTE + "view with -1, repeat_interleave(dim=None), names of transpose/unflatten, gather and out= are covered by the correspondence "
                "and oracle only; lazy stacks are oracle-only; torch kernels trusted. Known findings in findings.d/C02.json.",
        "technique": "Coq induction over trees with a generic lifting theorem + per-op list arithmetic + vm_compute refutation witnesses + index-proxy differential",
    },
    "C04": {
        "text": ("Proof (Coq): a code-shaped model of the tensordict storage and mapping operations (transcribed from _td.py / base.py / csrc/utils.cpp) "
                 "REFINES a plain ordered nested dict: for every state and every in-scope op (set, __setitem__, del, pop, rename, update, setdefault, "
                 "out-of-place flatten_keys, clear, filter_empty_) model and dict agree on ok/raise, the state afterwards, the returned value and "
                 "out-of-place results, and by induction over ARBITRARY op lists the abstraction commutes with the replay (unique-keys invariant); "
                 "keys / items / values for all 16 include_nested x leaves_only x sort x is_leaf combinations, len, get, membership, is_empty and "
                 "to_dict equal the dict's; every spelling of a nested key (string, 1-tuple, arbitrarily nested tuples) gives identical results for "
                 "every entry point. `_refuted` witnesses for the recorded defects. Stated, differential only: select / exclude / split_keys / "
                 "unflatten_keys. Tie: extracted model compared step by step with the implementation on random histories over a key universe with "
                 "prefixes of one another, separator-containing keys, empty nodes and non-tensor leaves, each key in a random spelling; "
                 "independent Python nested-dict replay as oracle, also on lazy stacks and tensorclass-held tensordicts."),
        "note": COMMON_NOTE + "Lazy stacks (restricted op set) and tensorclass-held tensordicts are checked by the nested-dict oracle only; paths through "
                "NonTensorData leaves are excluded. Known findings in findings.d/C04.json.",
        "technique": "Coq refinement proof (induction over op lists with a unique-keys invariant) + step-wise extracted-model differential + nested-dict oracle",
    },
    "C05": {
        "text": ("Proof (Coq) on an executable heap model of the lock graph (`_propagate_lock`, `lock_`, `_propagate_unlock`, `_check_unlock`, `unlock_`, "
                 "lazy-stack derived lock state and computed parent list, `__setstate__`, `_memmap_`, `share_memory_`, mutators through any handle, "
                 "garbage collection as observed deaths): an invariant by induction over ALL call histories (every child of a live node flagged "
                 "locked is flagged locked and lists that node among its lock parents), and from it, for all trees including DAGs, lazy stacks and "
                 "nested lazy stacks: a tree locked through lock_ keeps kind, keys and bound identities under every guarded call — raising calls "
                 "change nothing —; a member cannot be unlocked on its own; a root sharing a node with another locked root cannot be unlocked; "
                 "collected parents forbid nothing; unlocking the root frees every node; a pickle round trip re-locks; in-place writes stay "
                 "possible; a finite theorem over the guard table (methods carrying @lock_blocked / method bodies writing the storage dict) "
                 "re-translated from the source with ast on every run. Tie: state compared after every call of ~1,200 (quick) / 8,000 (thorough) "
                 "histories (entries, identities, stored and derived lock flags, parent lists), six model-independent oracles, and a reflection "
                 "pass: every public method of 5 container classes called on 20 kinds of locked tree through root, nested, lazy-member, "
                 "tensorclass and sub-tensordict handles with synthesised arguments; the structure snapshot must be unchanged."),
        "note": COMMON_NOTE + "tensorclass, TensorDictParams, _SubTensorDict, NonTensorData and calls routed through a lazy stack to its members are judged by the "
                "oracle only; argument-synthesis coverage is measured in the evidence. Known findings in findings.d/C05.json.",
        "technique": "Coq invariant proof over arbitrary histories on a heap model + ast-translated guard table + reflection oracle over every public method",
    },
    "C06": {
        "text": ("Proof (Coq): memoised reads of a locked tensordict equal a fresh recomputation — for EVERY tree of TensorDicts and EVERY history of "
                 "memoised reads, in-place writes, lock_/unlock_ at any node (accepted or refused), structural writes (refused under lock) and the "
                 "writes the library accepts under lock (non-tensor promotion, make_memmap* of a new leaf, memmap_() at any node, names and "
                 "batch_size assignment), by an invariant over the op list (entries equal fresh, unlocked nodes hold no entry, lock graph closed and "
                 "registered); the cache key (`_make_cache_key`: str/int/slice/Ellipsis by value, everything else by id()) is injective on live "
                 "objects and every entry keeps its arguments alive; unlock erases every entry of the subtree; the cache is never consulted when "
                 "unlocked or under a derived lock and never stores tensors; after memmap_() a nested unlock is refused (general theorem); paired "
                 "`repo` / `unrepaired` witnesses show what each fix: commit changed; `_refuted` witnesses for what /repo still gets wrong (lazy "
                 "stacks memoise stacked copies, D65); a finite table over the @cache / @erase_cache sites re-translated from the source on every "
                 "run. Tie: extracted model vs implementation on key sets, hit/miss, stale verdicts, lock flags and parents after every op; two "
                 "model-independent oracles: an unlocked twin with identical content (every read API compared after every permitted write) and the "
                 "TENSORDICT_VERIF hook in tensordict.utils.cache (every cache HIT compared with a fresh recomputation inside the library)."),
        "note": COMMON_NOTE + "Lazy-stack traversals that issue memoised calls across nodes, vmap exit paths, PersistentTensorDict and address reuse (CPython's "
                "choice: only provoked) are covered by the oracles only. Known findings in findings.d/C06.json.",
        "technique": "Coq invariant over arbitrary histories + key-injectivity by nested induction + ast-translated site table + twin / in-library-hook oracles",
    },
    "C07": {
        "text": ("Proof (Coq) on a heap of storages (cell lists), views (storage id + index map) and tensordict nodes, for EVERY state reached by ANY "
                 "history: operations documented in-place (update_/copy_, set_at_/update_at_, td[idx]=v, masked_fill_, fill_, zero_, apply_, "
                 "underscore arithmetic, augmented assignment, set_ for every key path — a missing intermediate node is a KeyError) change no node, no binding and no storage size and write only storages behind the "
                 "receiver's entries; a written cell is read back through every view of it (aliases observe); every other operation leaves all "
                 "pre-existing storages bit-identical, also over sequences and when it raises; basic index / permute / transpose / squeeze / "
                 "unsqueeze / expand / view / unbind / split give at every nested key a sub-view of the source's entry; copy / select / exclude / "
                 "flatten_keys bind the very same entries; clone / to_tensordict / advanced index / neg, abs / apply give storage ids that did not "
                 "exist before; contiguous follows torch's rule per entry. Tie: the model's op->class table is compared with a "
                 "documentation-derived table; programs of construction, history and operation are run on real objects and on the extracted "
                 "model and compared on canonical heaps; 278 call templates over 263 public names x 7 container kinds x 8 layouts x histories "
                 "are judged by sentinel (write through one handle, read through the other) and storage oracles directly on the implementation."),
        "note": COMMON_NOTE + "Lazy stacks, _SubTensorDict, tensorclass, memory-mapped and shared containers are covered by the oracle stream only. "
                "Torch's kernel-level overlap refusal and view stride rules are excluded by name. Known findings in findings.d/C07.json.",
        "technique": "Coq frame theorems over a register-machine heap model (well-formedness invariant over all histories) + canonical-heap differential + sentinel/data_ptr reflection oracles",
    },
    "C08": {
        "text": ("Proof (Coq): a lazy stack denotes the dense stack (coordinate insertion) — for ANY rank, stack dim, member count and nesting depth, "
                 "`lazy[idx]` with any index made of ints, slices, None and one Ellipsis denotes `dense[idx]` (batch size, selected members, per-member "
                 "sub-index, new stack dim); one advanced index (integer tensor of any rank or boolean mask) before or after the stack dim; the slice "
                 "write plan writes in place into the selected members and replaces none; transpose (outside the recorded defect region), unsqueeze, "
                 "insert/append and the cat(out=) member offsets; refutation theorems with witnesses for the recorded defects. "
                 "Not proved (differential run only): an advanced index ON the stack dim or a mask across it, the other shape ops, update*/stack, "
                 "reductions, comparison. Tie: extracted model vs implementation on layout and element maps (integer-coded leaves) + dense-twin oracle "
                 "(`lazy.op(args)` materialised vs `torch.stack(members).op(args)`, member contents and member identity after writes)."),
        "note": COMMON_NOTE + "Member-level torch semantics are trusted (C02/C03). Known findings are listed in findings.d/C08.json.",
        "technique": "Coq refinement proof of the index translation against a coordinate-insertion spec + extracted-model/implementation differential + dense-twin oracle",
    },
    "C09": {
        "text": ("Proof (Coq): pointwise operations pair entries by key — for ANY two tensordicts with the same key set in any insertion or nesting order "
                 "the binary, in-place, comparison (any depth) and (repaired) ternary families compute result[k] from (self[k], other[k]); different key "
                 "sets raise or follow the documented default (union / intersection); every operator spelling puts self on the correct side; the "
                 "tensor handed to torch for an entry of shape batch++features reads a broadcast operand at the batch coordinates only (left "
                 "broadcasting); reductions: batch size, names and per-entry dims equal torch's reduction of a tensor of the batch shape for every "
                 "dim / tuple / keepdim, out-of-range dims raise, every reduced entry starts with the result batch size. Refutation theorems for the "
                 "recorded defects. Not proved (differential run only): lazy stacks, unary ops, where, all/any/norm/softmax/logsumexp, reduce=True. "
                 "Tie: the extracted model's pairing / broadcast / reduction plans are evaluated with torch and compared with the implementation; "
                 "independent oracle: torch applied to (self[k], other[k]) for every method found by reflection, distinct primes per key."),
        "note": COMMON_NOTE + "_foreach_* kernels and per-tensor torch ops trusted. Raises on non-core operand combinations are tolerated by the oracle "
                "and pinned only by the model. Known findings in findings.d/C09.json.",
        "technique": "Coq theorems over a Gallina transcription of the alignment / broadcast / reduction code + plan-level correspondence + reflection oracle",
    },
    "C10": {
        "text": ("Proof (Coq, partial): a Gallina codec of the memory-mapped directory format (per-directory meta.json records, <key>.memmap cells, "
                 "sub-directories, lazy stacks / tensorclasses / NonTensorData / NonTensorStack by their _type, other.pickle) with decode(encode t) = t "
                 "as a nested mapping for trees of ANY depth, width and class mix on the stated validity domain (refutation witnesses for the "
                 "recorded defects outside it); `_memmap_` as a list of tasks: independent tasks commute and, for EVERY permutation of the writer "
                 "tasks (induction over Permutation, no bound), from any state, the final mapping, files and directories are the same; a successful "
                 "sequential run is the pool run in submission order; root-level make_memmap* on an existing directory loads back as the extended "
                 "tree. Runtime behaviour named, not modelled: mmap coherence between mappings and processes, real preemption. Tie: in-process "
                 "permuting executor (all completion orders for <= 5 tasks, worker exceptions surfaced), directory read back independently with "
                 "torch.from_file / json / pickle and compared with `encode`, loader compared with `decode`, live-view stream in this process, "
                 "in a forked and in a spawned child."),
        "note": COMMON_NOTE + "share_non_tensor, jagged nested tensors and existsok=False are not covered. Known findings in findings.d/C10.json.",
        "technique": "Coq theorems (codec round trip by tree induction; order-freedom by induction over Permutation) + permuting-executor and process-level differential runs",
    },
    "C11": {
        "text": ("Proof (Coq): for ALL leaf lists the consolidated layout (n = elsize*numel, padding, start/stop/pad records) is consecutive, disjoint and "
                 "covers [0,total); decode(encode) over a byte storage returns every leaf exactly when its record is aligned (alignment proved for the "
                 "supported element sizes); on trees of ANY depth `consolidate` keeps keys, order, tensors, non-tensor data, batch sizes, names and "
                 "device, and the consolidated rebuild of (metadata, storage) is the tree itself (regrouped keys proved lookup-equivalent). For EVERY "
                 "history: without consolidate, pickle/deepcopy return the object (lock-closedness invariant under all steps); after consolidate, "
                 "any sequence of in-place writes at any depth is preserved (write-through = re-encoding). to_dict/from_dict, pytree and "
                 "state_dict/load_state_dict round trips are proved for exactly the fields each format carries. Refutation theorems for the "
                 "recorded defects. Tie: extracted model vs implementation on layout records, storage bytes, view offsets, step outcomes, the "
                 "live object and the pickled copy for ~1.1k (quick) / ~31k (thorough) histories plus an exhaustive (element size x shape) grid; "
                 "oracle: decode(encode(td)) vs td bitwise for 9 formats x 4 history profiles, plus fork/spawn transport."),
        "note": COMMON_NOTE + "Byte copies, pickling of storages and the process transport are torch's/CPython's. Lazy stacks, jagged tensors, tensorclasses, "
                "threaded consolidation and use_buffer are judged by the oracle only. Known findings in findings.d/C11.json.",
        "technique": "Coq theorems (list/arith induction for the layout; tree/forest induction for the rebuild; invariants over op lists for histories) + differential + per-format round-trip oracle",
    },
    "C12": {
        "text": ("Proof (Coq, partial): for EVERY n, chunksize, num_chunks, worker count, generator / shuffle mode, `_split_tensordict` yields "
                 "consecutive, non-empty, in-order slices covering [0,n) (closed form; at most num_chunks pieces; generator = split/chunk; "
                 "`-(n // -k)` is the ceiling); the `_map` out= loop writes results back to back so that map of a row-wise function equals the "
                 "function applied to the whole for out= none / regular / shared; shared-out writes, memmap writer tasks and consolidate assign "
                 "tasks give the same result for EVERY completion order (induction over permutations); the multithreaded apply is independent of "
                 "completion order for all options and equals the single-threaded `_apply_nest`. Trusted and named: `Pool.imap` yields in "
                 "submission order, futures complete in any order; real preemption inside a task is not explored. Tie: exhaustive small-scope "
                 "split grid, random map cases through an in-process pool plus real fork/spawn pools with inverted completion delays, and a "
                 "deterministic permuting executor (all orders <= 5 tasks, random beyond) for thread pools, each against the sequential fold."),
        "note": COMMON_NOTE + "names/batch_size/device/lazy stacks in the multithreaded apply, real pools, memmap files and n=0 are covered by the "
                "differential run only. Known findings in findings.d/C12.json.",
        "technique": "Coq theorems (chunk arithmetic by lia, order-freedom by induction over Permutation) + permuting-executor / real-pool differential runs",
    },
    "C13": {
        "text": ("Proof (Coq) in a faithful executable model of from_module / _to_module / __enter__ / __exit__ / _reverse_to_module / "
                 "TensorDictParams._reset_params, for ALL module DAGs (shared submodules, tied tensors, custom __setattr__ modules) and ALL parameter "
                 "tensordicts: from_module captures exactly named_parameters U named_buffers with the same objects; a plain to_module followed by the "
                 "returned swap, and any nesting of with-blocks, returns every slot of every module to the same object; a plain swap writes no tensor "
                 "content and touches no unvisited module; restoration on every exceptional exit (any program, injection point, exception class); "
                 "TensorDictParams registration equals its leaves after any update sequence issued on it. Refutation theorems for recorded defects. "
                 "Not proved (model + run only): use_state_dict, inplace=True, swap_dest, hand-written swap-back. Tie: trace-by-trace correspondence "
                 "plus an oracle on the real code: identities and values in named_parameters/named_buffers before and after every block with an "
                 "exception injected at every point; output inside the block vs torch.func.functional_call, also under vmap."),
        "note": COMMON_NOTE + "Module forward, functorch and acyclicity of the module graph are assumed. Known findings in findings.d/C13.json.",
        "technique": "Coq invariant proofs over a module-heap model + extracted-model differential run + identity oracle with fault injection",
    },
    "C15": {
        "text": ("Proof (Coq, partial): (a) finite theorems over tables re-translated from tensorclass.py / _torch_func.py on every run (ast only) and "
                 "the run-time reflection list: wrap and no-wrap tables are disjoint, every listed name exists, FORCE/COPY names end up served by the "
                 "re-wrapping wrapper after replaying the installation order, every public tensordict attribute is dispatched by exactly one "
                 "mechanism (robust to harmless table<->fallback moves), properties stay properties, every pass-through torch function is registered; "
                 "(b) for ALL inputs on the model of the wrappers and the two-store state: the re-wrapping wrapper returns self for the tensordict "
                 "itself, an instance of the class carrying every non-None non-tensor value for a tensordict whose keys are fields, out= as it is, "
                 "tuples element-wise; _from_tensordict puts every field in exactly one store and rejects clashes and foreign keys; attribute "
                 "access is key access; assignment reads back by the cast rules, frames the other fields and keeps the invariant; indexing and "
                 "indexed assignment keep the split. NOT proved: equality of results per method — that is decided per run by the differential "
                 "`tc.m(*a)` vs `td.m(*a)` for EVERY public method / operator found by dir() and every overridden torch function, on 12 classes "
                 "(decorator / subclass / nested / frozen / shadow / autocast / nocast) x 5 layouts, alone, nested and lazily stacked; methods "
                 "whose arguments cannot be synthesised are listed in the evidence."),
        "note": COMMON_NOTE + "The oracle accepts a fresh instance where the tensordict returns itself (identity convention checked by the model "
                "correspondence), tolerates rejection when the result leaves the class structure, compares structure only for non-reproducible "
                "values. Known findings in findings.d/C15.json.",
        "technique": "Coq finite theorems over ast-translated delegation tables + wrapper/store model theorems + reflection-driven differential run",
    },
    "C16": {
        "text": ("Proof (Coq): a non-tensor entry `nt := Shared payload shape | Stack dim members` denotes a batch-shaped array of objects, and for ALL "
                 "ranks, nesting depths and stack dims: maybe_to_stack and from_nontensordata keep the denotation; unbind gives the array with the "
                 "coordinate fixed; `_stack_non_tensor` denotes the dense stack (coordinate insertion) and is Shared exactly when every operand is a "
                 "NonTensorData with that payload; indexing with ints / slices / None / one advanced index yields the spec shape and the designated "
                 "objects; tolist is the row-major nested list; after `td[idx] = v` (no-op and promotion branches) the addressed positions hold "
                 "v's objects and all others are unchanged, for EVERY history of writes (Shared -> Stack -> written back ...). Refutation witnesses "
                 "for the recorded defects. Theorems are conditional on the model returning Ok (masks of rank >= 2, writes with None etc. are "
                 "OutOfModel). Tie: differential runs of random operation histories against the extracted model and, independently, against a "
                 "pure position-id proxy array; the array spec is validated against torch indexing each run."),
        "note": COMMON_NOTE + "Shape ops on stacks, cat/update_, memmap/pickle/to_dict and lazy containers are covered by the oracle run only. "
                "Known findings in findings.d/C16.json.",
        "technique": "Coq proof over a Gallina transcription with a denotation function + history induction + position-id proxy differential",
    },
    "C17": {
        "text": ("Proof (Coq): for every invertible operation the inverse function's re-parsing of the recorded (args, kwargs) yields the same "
                 "inverse call for every spelling (positional / keyword / mixed / defaults / custom separator), and that call undoes the forward "
                 "operation on shapes of ANY rank and any (negative) dims: transpose is an involution, permute composed with argsort is the identity "
                 "on arbitrary lists (element positions included), flatten/unflatten and squeeze/unsqueeze are mutual inverses (squeeze of a "
                 "non-singleton dim has the identity as inverse); the write-back rule is in place (same keys, same storages) for a locked original "
                 "and admits new keys for an unlocked one; nested blocks pop their inverses in LIFO order; the registry of decorated operations "
                 "vs registered inverses is re-translated from /repo on every run and a finite theorem over it is re-proved. "
                 "Tie: the inverse call actually issued by __exit__ is recorded and compared with the model for every op x spelling; the oracle "
                 "compares the original after the block with inverse(modified) computed independently, on regular, lazy and tensorclass originals."),
        "note": COMMON_NOTE + "Tensor contents moved by the transformations are torch's; to_module as a context manager is C13's; the value-level "
                "flatten_keys/unflatten_keys round trip is C04's theorem.",
        "technique": "Coq theorems (list surgery, permutations, queue discipline) + ast-translated registry table + recorded-inverse-call correspondence",
    },
    "C19": {
        "text": ("Proof (Coq, partial): the shape/names/stack-dim bookkeeping of the functorch hooks — for batch sizes of ANY rank, vmap(identity, "
                 "in_dims=i, out_dims=o) yields torch's movedim of the batch size (= batch size of the stack of the slices); every entry and nested "
                 "node keeps the new batch size as prefix (coherent result); negative in_dims wrap against the batch rank; for lazy stacks with ANY "
                 "member shape / member count / stack dim / vmapped dim (hidden-stack path included) / out position the lazy result has the moved "
                 "batch size and a valid stack dim. NOT proved: vmap f = stack of f over slices for arbitrary f (functorch's batching rules are "
                 "runtime behaviour) — that half is decided per run by the differential check: identity on all shapes rank 1..3 x all in/out dims x "
                 "regular/lazy/named, random programs, multi-argument calls with in_dims=None, nested vmap depth 2, functional module calls with "
                 "batched parameters, locked inputs reused across calls with in-place writes in between, each against the per-sample loop."),
        "note": COMMON_NOTE + "functorch batching rules trusted; a refusal of functorch to batch an op (e.g. torch._foreach_* used by tensordict "
                "arithmetic has no batching rule in this torch) is counted, not judged; out_dims taken in 0..rank. Known finding D33.",
        "technique": "Coq theorems (list insert/remove algebra by nth-extensionality) for the bookkeeping + vmap-vs-loop differential run",
    },
    "C18": {
        "text": ("Proof (Coq): for ALL slices/lengths the compile-only _slice_indices equals CPython's slice.indices; for ALL key objects the "
                 "Python-branch unravel functions equal the native ones and equal the in-order fringe on well-formed keys; both _parse_batch_size "
                 "branches and both key-aligned list branches agree on every input. Tie: extracted model vs /repo on exhaustive small grids through "
                 "both real code paths (C++ helper rebuilt from csrc; compile branch forced), each path also compared directly with its twin. "
                 "Partial: eager-vs-torch.compile program equivalence is established by differential runs of generated programs only."),
        "note": COMMON_NOTE + "Dynamo tracing is not modelled; torch.compile backends eager/aot_eager stand for compiled execution.",
        "technique": "Coq theorems (induction on key trees, lia on slice arithmetic) + extracted-model/implementation differential correspondence",
    },
}


# ---- texts after the deepening round of 2026-10-01 (override the first-build texts above) --------------------------------------------
def _splice(pid, old, new, field="text"):
    t = CHECKS[pid][field]
    assert t.count(old) == 1, (pid, old[:50])
    CHECKS[pid][field] = t.replace(old, new)


_splice("C03", "rejection is proved in its partial form (index within the batch rank) and the full form is refuted by a witness (finding D25). ",
        "rejection is proved in its partial form (index within the batch rank) and the full form is refuted by a witness (finding D25); "
        "the ELEMENT map `sel` (ints, slices through CPython's slice arithmetic, None, Ellipsis, index arrays and masks given their values, torch's two "
        "stages) satisfies sel(bs++feat, idx, r++f) = sel(bs, idx, r)++f for all ranks and is defined exactly on torch's result shape; for td[idx] = v "
        "the expand/reset target equals torch's shape, the written positions are exactly the image of sel times all feature positions (write frame), "
        "keys absent from the value are untouched, a created entry indexed with the same index has the value's shape (acceptance: partial theorem + D30 "
        "refutation); the names of the result (_get_names_idx) have one entry per result dim, are torch's placement rule applied to labelled slots and "
        "follow sel; __getitem__ hands every leaf the user's index with only the Ellipsis expanded, so the view/copy class is torch's. ")
_splice("C03", "Which elements tensor[idx] selects is torch's (trusted); Spec/C03_TorchIndex.v is my statement of torch's shape rule, validated against torch in every run.",
        "Spec/C03_TorchIndex.v (shape rule) and Spec/C03_TorchSel.v (element map, write-accept rule, view rule) are my statements of torch's behaviour, "
        "re-validated per element against real torch in every run; the value contents of writes, writes with duplicate positions and "
        "_SubTensorDict._sub_index composition stay differential-only.", "note")
CHECKS["C03"]["technique"] = ("Coq theorems (induction on index tuples; invariant linking the code's two passes to torch's adjacent-subspace rule; element-map "
                              "frame lemmas) + per-element validation of the torch spec + differential correspondence")

_splice("C17", "nested blocks pop their inverses in LIFO order; the registry",
        "at the ELEMENT level, for transpose / permute / view / flatten / squeeze / unsqueeze of every rank and spelling the reverse restores the shape and "
        "sends every valid multi-index back to itself (unflatten likewise, see the findings file for the length-1 size case); lock_/unlock_ used as "
        "context managers leave flag and queue unchanged for ANY nesting of blocks, sequences and raises, on normal and exceptional exit (refuted "
        "without the repair of the exception path); the _last_op / _last_op_queue protocol restores every queue and pops LIFO at arbitrary depth over "
        "several objects (re-entry, yielded-of-yielded, dead originals); the registry")
_splice("C17", "the value-level flatten_keys/unflatten_keys round trip is C04's theorem.",
        "the value-level flatten_keys/unflatten_keys round trip is C04's theorem (differential only here); write-back is modelled on flat key sets. "
        "Known findings in findings.d/C17.json.", "note")
CHECKS["C17"]["technique"] = ("Coq theorems (element-map round trips by ravel/unravel arithmetic, permutations, protocol machine by induction over block programs) "
                              "+ ast-translated registry table + recorded-inverse-call correspondence")

CHECKS["C19"]["text"] = (
    "Proof (Coq): at the element level, with functorch's batching rule as the single trusted definition `lift` (a function on batched values runs on every "
    "sample): for EVERY per-sample function f, every rank, in_dim and out_dim, the tensordict bookkeeping (_add_batch_dim, _maybe_remove_batch_dim / "
    "_remove_batch_dim in the code's order of checks) makes vmap(f) accept the call and return batch size, names, schema and EVERY element equal to "
    "stack([f(slice_j)], out_dim); nested vmap of depth 2 likewise for every (in1, out1, in2, out2); the argument / output plumbing of "
    "functional_modules.py (_process_batched_inputs, _create_batched_inputs, out_dims checks, _unwrap_batched) is transcribed with its refusal reasons: an int "
    "in_dim batches exactly along that dim, None passes a shallow copy over the same leaves, inconsistent sizes are always refused; the memoisation key "
    "(in_dim, vmap_level) of the batched views of locked tensordicts is injective and every call of every history of in-place writes, rebinding writes, "
    "lock cycles reads the current content (refuted for the unrepaired rebinding write); lazy stacks: identity-like op classes on the hidden-stack-dim "
    "view are right for every out position, the rebuilding class is refuted (finding D33) and proved right with the suggested repair. Partial: which ops "
    "functorch can batch, and module forward, are runtime behaviour — decided per run by the vmap-vs-loop differential (identity on all shapes rank 1..3 x "
    "all in/out dims x regular/lazy/named, random programs, in_dims=None, nested depth 2, functional module calls with batched parameters, locked inputs "
    "reused across calls with in-place writes in between).")
CHECKS["C19"]["note"] = COMMON_NOTE + ("functorch batching rules are trusted through `lift`; a refusal of functorch to batch an op (torch._foreach_* has no batching "
                                       "rule in this torch) is counted, not judged; dict pytrees, kwargs, chunk_size and tensorclass outputs are not modelled. "
                                       "Known findings in known_findings.json (D33, D33b) and findings.d/C19.json.")
CHECKS["C19"]["technique"] = ("Coq theorems (element-level vmap = stack by list insert/remove algebra over an abstract per-sample function; plumbing decision procedure; "
                              "memo-key invariant over histories) + extracted-model correspondence + vmap-vs-loop differential run")

_splice("C01", "Separate theorems: ill-shaped tensors are rejected",
        "Index writes (td[idx] = tensor / scalar / dict / tensordict, set_at_, update_at_; ints, slices, None, Ellipsis, one in-range advanced index) are "
        "inside the model: the batch-size bookkeeping that decides acceptance (shared with C03), value expansion / reset, auto-creation of a missing key "
        "through the sub-tensordict path with its partial effect when a later step refuses, torch's own tensor[idx] = v acceptance; they keep coherence at "
        "full strength (no scope exclusion) through any handle and for any outcome, and interleave with every other call in the reachability theorem. "
        "Separate theorems: a created entry has shape batch_size ++ value.shape[len(indexed):] on the container's device; a rejected index writes nothing; "
        "ill-shaped tensors are rejected")
_splice("C01", "also on lazy stacks, tensorclasses, NonTensorStack and index writes, which the model does not cover.",
        "also on lazy stacks, tensorclasses and NonTensorStack, which the model does not cover.")
_splice("C01", "Lazy stacks, tensorclasses, index writes and update_batch_size are covered by the model-independent snapshot oracle only.",
        "Lazy stacks, tensorclasses, update_batch_size, NonTensorData under an index write, more than one advanced index and dim names met by an auto-created "
        "nested entry are covered by the model-independent snapshot oracle only (the model answers Unmodelled explicitly there).", "note")

_splice("C07", "contiguous follows torch's rule per entry. ",
        "contiguous follows torch's rule per entry. Extended machine (same theorems over every history that mixes regular, window, stack and conversion "
        "instructions): _SubTensorDict windows — set_ through any window changes exactly the source cells the window maps to, every alias of the source "
        "reads the new values, nothing else changes; in-place arithmetic through a BASIC window runs on views of the source's own entries (advanced windows: "
        "finding D70, refuted by a witness); lazy stacks — set_/update_/lazy[idx] = td/zero_/fill_/unary arithmetic through the stack are the regular in-place "
        "ops on each member's own storages with the unbound piece, lazy.get(leaf) is fresh, lazy.get(nested) allocates nothing (flatten_keys copies: finding "
        "D73, refuted); memmap_() is a pure rebinding step that keeps nodes and handles, share_memory_() rebinds nothing, and both class theorems hold in "
        "every state reached afterwards. ")
_splice("C07", "Lazy stacks, _SubTensorDict, tensorclass, memory-mapped and shared containers are covered by the oracle stream only.",
        "tensorclass, lazy expand / unflatten_keys / split_keys / binary arithmetic / masks on the stack dim, sub.masked_fill_ / apply_ / sub[idx] = v are covered "
        "by the oracle stream only; no per-key view_shares / copy_fresh theorem through windows (no extended-state well-formedness invariant).", "note")


def _append(pid, extra, field="text"):
    CHECKS[pid][field] = CHECKS[pid][field].rstrip() + " " + extra


_append("C04", "Lazy stacks of TensorDict members are inside the model for every operation except split_keys and to_dict: the stack's step is exactly its "
               "members' steps on their slices (or the first raising member's exception, partial effects kept), lifted to histories and to the nested-dict "
               "replay member by member; get stacks the members' entries (a nested result is the lazy stack of the members' nodes); root key views are the "
               "sorted intersection of the members' keys; len / in / is_empty agree with iteration for all flags; nested key views raising on a member "
               "that lacks a nested node (D401) and the pre-merged update (D47) are refuted by witnesses with partial theorems on the complement.")
_splice("C04", "Lazy stacks (restricted op set) and tensorclass-held tensordicts are checked by the nested-dict oracle only; paths through NonTensorData leaves are excluded.",
        "Lazy stacks: nested key views and the del / pop / update / filter_empty_ / unflatten refinements are by correspondence only; tensorclass-held "
        "tensordicts are checked by the nested-dict oracle only; paths through NonTensorData leaves are excluded.", "note")

_append("C05", "A refused unlock_() also leaves the shared / memory-mapped status of every node as it was (theorem; repaired in /repo).")

_splice("C09", "Not proved (differential run only): lazy stacks, unary ops, where, all/any/norm/softmax/logsumexp, reduce=True.",
        "Lazy stacks are inside the model: the fused binary path on member-indexed keys (for every member count and key order, member i of the result "
        "holds under k what the key-wise spec gives for (self_i, other_i), with and without default=), member-wise dispatch of a tensor / tensordict "
        "operand of another batch shape with an element-level index theorem (position jb++jf of member i reads the operand where the dense stack reads "
        "it, for every stack dim), comparisons, softmax dim translation (refuted for the code before the repair), reductions through the dense copy. "
        "Not proved (differential run only): unary ops, where, all/any/norm/logsumexp, reduce=True, ternary and in-place ops on lazy stacks.")

_append("C10", "Writer failure is inside the model: tasks return ok | fail, every _memmap_ walk hands each spawned future to its caller (theorem "
               "`walk_collects_every_future`, checked against the code by recording every future the permuting executor hands out and the list the entry "
               "point finally waits on), and under collected = spawned the threaded call raises exactly when the inline run does, with the same class, "
               "for every task list, completion order and obstacle set (the hypothesis is necessary: witness); return_early results re-raise too "
               "(repaired in /repo; the unrepaired variant is refuted). Tensorclass nodes with their non-tensor fields are part of the codec "
               "round-trip theorem; load_memmap_ / memmap_refresh_ are transcribed (two theorems, the full refresh statement is differential only). "
               "A fault-injection stream provokes a failing writer at every leaf and metadata position for every save entry point x num_threads x "
               "completion order.")
_splice("C10", "share_non_tensor, jagged nested tensors and existsok=False are not covered.",
        "share_non_tensor and jagged nested tensors are not covered; make_memmap_merge for nested keys and the full refresh statement are stated, not proved.", "note")

_append("C11", "The consolidated codec is proved for jagged nested tensors (values / lengths / offsets records, several per node, the reader's per-leaf "
               "reset discipline: a theorem that fails if state leaks from one leaf to the next), lazy stacks and tensorclass nodes at any depth "
               "(round trip modulo re-locking; refuted for keys that start with a codec marker, finding D116, partial on the complement); the "
               "assign tasks of consolidate(num_threads > 0) give the single-threaded bytes for every completion order in which each task runs "
               "(a task that never runs is visible: witness).")
_splice("C11", "Lazy stacks, jagged tensors, tensorclasses, threaded consolidation and use_buffer are judged by the oracle only.",
        "Histories on trees with lazy stacks / jagged tensors / tensorclasses, consolidate's own result-building loop for jagged tensors, use_buffer, "
        "in-place consolidation and nested snapshots are judged by the oracle only.", "note")

_append("C14", "The probabilistic key plumbing is inside the model (ProbabilisticTensorDictModule __init__ / out_keys / log_prob keys / get_dist / "
               "forward, ProbabilisticTensorDictSequential _requires_sample / forward / get_dist / log_prob): the distribution is built from exactly the "
               "terms stored under the advertised in_keys, the sample written is the interaction-method term on those parameters, the log-prob keys "
               "written are the advertised ones in both aggregate modes, _requires_sample holds iff some sample key is not produced by the deterministic "
               "part, the sequence's forward is its final module's forward on the lifted deterministic result; the module footprint theorem now holds "
               "without side hypotheses (the copy-out selects exactly the out_keys; the variant before the repair is refuted by a witness); footprint of "
               "probabilistic modules: partial + refutation (finding D147, pinned by the suite).")
_splice("C14", "nested-container aliasing, set_skip_existing and the probabilistic key plumbing are covered by the oracle only.",
        "nested-container aliasing, set_skip_existing, num_samples and return_composite=True are covered by the oracle only.", "note")

_append("C15", "Results of one call own independent non-tensor stores (heap model of the per-result dict(self._non_tensordict) + _from_tensordict: fresh, "
               "pairwise distinct stores; a set / del on piece i leaves every sibling's and the source's store, reads and invariant unchanged when they wrap "
               "different tensordict objects; refuted for two handles on one lazy-stack member, finding D183); for cat / stack of ANY number of "
               "operands the non-tensor value at row r is the value of the operand that owns row r (induction on the operand list; the n-ary "
               "re-wrap keeping the first operand's store is refuted, finding D182). Aliasing probes (mutate one result, re-read siblings and source) "
               "and an n-ary row-provenance oracle that does not go through the library's helpers run on every public producer of several results.")

_splice("C16", "Theorems are conditional on the model returning Ok (masks of rank >= 2, writes with None etc. are OutOfModel).",
        "Indexing covers one advanced index (integer tensor of any rank, or a 1-d mask on the stack dim) anywhere among basic indices; writes cover None "
        "anywhere in the index; update by a NonTensorData of any batch size into any nesting of stacks and entry-level torch.cat are proved to denote "
        "the pointwise / side-by-side array. Theorems are conditional on the model returning Ok (masks of rank >= 2 are OutOfModel: finding C16-o).")
_splice("C16", "Shape ops on stacks, cat/update_, memmap/pickle/to_dict and lazy containers are covered by the oracle run only.",
        "Shape ops on stacks (finding C16-i), memmap/pickle/to_dict and lazy containers are covered by the oracle run only.", "note")

CHECKS["C18"]["text"] = (
    "Proof (Coq): for ALL slices/lengths the compile-only _slice_indices equals CPython's slice.indices, and the compile arm of _getitem_batch_size "
    "computes the eager arm's length for every slice; for ALL key objects the Python-branch unravel functions equal the native ones and equal the in-order "
    "fringe on well-formed keys (unravel_keys: refuted, the two paths differ on every accepted input — finding D1804 — with a partial theorem); both "
    "_parse_batch_size branches and both key-aligned list branches agree on every input; names handling of __init__ / _new_unsafe / the names setter "
    "(refuted + partial: names are dropped under compile, finding D1801); the memo tables behind _is_tensor_collection / _is_tensorclass / "
    "_pass_through_cls / _is_non_tensor return equal values for any eager/compile interleaving from coherent tables; the key sets of the Sequential "
    "forward arms are permutations of each other. EVERY site of the library that tests is_compiling() (46, plus 6 that receive the flag as a keyword) is "
    "re-translated from the source on every run by a partial-evaluation translator (the function specialised with the flag True and False, dead code "
    "pruned, bookkeeping tokens dropped by a Coq-side allow-list) and classified by finite theorems: 20 are checked pure guards (both specialisations "
    "compute the same token stream), 17 are dual sites modelled with theorems, 15 are dual sites listed by name as unmodelled. Tie: extracted model vs "
    "/repo on exhaustive small grids through both real code paths (C++ helper rebuilt from csrc; compile branch forced); a forced-branch differential "
    "runs hundreds of generated programs eagerly with the flag forced True vs False in every module and records which sites were reached (33 of 46 per "
    "quick run, histogram in the evidence). Partial: eager-vs-torch.compile program equivalence under dynamo is established by differential runs only.")
CHECKS["C18"]["note"] = COMMON_NOTE + ("Dynamo tracing is not modelled; torch.compile backends eager/aot_eager stand for compiled execution. The 15 unmodelled dual "
                                       "sites (tensorclass wrappers, nn module __getattr__, consolidate, _parse_to, to_module plumbing) are covered only by the "
                                       "forced-branch and the real-compile differentials. Known findings in findings.d/C18.json.")
CHECKS["C18"]["technique"] = ("Coq theorems (induction on key trees, lia on slice arithmetic, memo-table invariant) + partial-evaluation site-shape translator with "
                              "finite classification theorems + forced-branch program differential with per-site hit histogram + extracted-model correspondence")
CHECKS["C04"]["technique"] = "Coq refinement proof (induction over op lists with a unique-keys invariant; member-wise delegation for lazy stacks) + step-wise extracted-model differential + nested-dict oracle"
CHECKS["C10"]["technique"] = "Coq theorems (codec round trip by tree induction; order-freedom by induction over Permutation; failure propagation under collected = spawned) + permuting-executor, fault-injection and process-level differential runs"

_splice("C02", "arguments torch rejects for the batch shape are rejected (transpose, unsqueeze, squeeze(dim), permute);",
        "arguments torch rejects for the batch shape are rejected by EVERY one-result op (expand, view/reshape incl. the -1 inference, flatten, unflatten, "
        "repeat, repeat_interleave, permute, transpose, squeeze, unsqueeze) on every tree that contains a tensor (view/reshape: a tensor without a size-0 "
        "trailing dim), by unbind and chunk on every tree, by split(list) unless the sizes overshoot the dim (finding D4); at the ELEMENT level every torch "
        "call made on a tensor of the tree has the element map (batch map of the op) x id_feat, at any depth, for the reshaping family and expand / repeat / "
        "repeat_interleave (ravel/unravel lemma); gather with its index-shape rule, repeat_interleave(dim=None), names under transpose; lazy _permute: the "
        "derived batch size is torch's shape and the new stack dim the position of the old one, for every stack dim and permutation;")
_splice("C02", "view with -1, repeat_interleave(dim=None), names of transpose/unflatten, gather and out= are covered by the correspondence and oracle only; lazy stacks are oracle-only; torch kernels trusted.",
        "out=, names of unflatten, rejection for gather/cat (cat never compares the operands' batch sizes: finding C02-p), element maps of permute / transpose / "
        "gather and lazy ops other than permute are correspondence/oracle only; Spec/C02_TorchShape and Spec/C02_TorchElem are my statements of torch's "
        "behaviour, validated every run; torch kernels trusted.", "note")

_splice("C08", "Not proved (differential run only): an advanced index ON the stack dim or a mask across it, the other shape ops, update*/stack, reductions, comparison.",
        "Proved as well: an integer tensor / list / range of any rank and any values ON the stack dim among basic indices (reads at any nesting depth; write "
        "plans on flat stacks: in place, none replaced, value slices routed by index VALUE); a rank-1 mask on the stack dim (reads, flat stacks, non-empty "
        "selection); what _split_index answers for masks starting on the stack dim (cat_dim, split_dim — refuted for the code before the repair of C08-D36); "
        "unbind along the stack dim; update_ with a dense or same-dim lazy source (one in-place update per member with its own slice). Differential run only: "
        "masks of rank >= 2 across the stack dim, write plans through masks, update_ from a lazy source along another dim, update / update_at_ / stack / cat, "
        "the other shape ops, reductions, comparison.")

_append("C12", "map / map_iter are inside the model end to end: for every dim (negative included; out of range raises), chunksize (0 = unbind and re-stack), "
               "num_chunks, worker count, generator mode, pbar, out= kind and result lengths, None results, results of another size along dim and n = 0 "
               "(behaviour at the empty dim stated exactly), map of a row-wise function equals the function on the whole and out= holds the sequential form; "
               "map_iter yields the chunks' results in order, with shuffle a permutation of them under every completion order; the result METADATA of the "
               "multithreaded apply (names / batch_size / device overrides, out= checks, checked mode, forwarding to nested levels) equals the "
               "single-threaded one for all options, errors included; failing writer tasks surface exactly as in the sequential form (first failing task in "
               "submission order) under every completion order.")
_splice("C12", "names/batch_size/device/lazy stacks in the multithreaded apply, real pools, memmap files and n=0 are covered by the differential run only.",
        "lazy-stack operands of the multithreaded apply, real pools, memmap files, leaf devices are covered by the differential run only; slicing / cat / stack "
        "along a dim = take / concat on that dim's slices, and tqdm, are trusted.", "note")

_splice("C13", "Not proved (model + run only): use_state_dict, inplace=True, swap_dest, hand-written swap-back.",
        "swap_dest= blocks are inside every restore theorem (normal and exceptional exit, all module DAGs; the filled swap_dest is exactly the swap); "
        "inplace=True keeps every slot's OBJECT for any call and any mix of plain / swap_dest / in-place blocks. Not proved (model + run only): "
        "use_state_dict, hand-written swap-back, tensor contents and exceptional exits of in-place blocks.")

_splice("C20", "Tie: the full lattice (46,656 points)",
        "Lazy stacks are inside the model: member i of the result is the reference on (member i, the operands' i-th slices along self's stack dim, out[i]) "
        "for every stack dim, member count and option point the lazy code accepts; refusals and their exception classes stated with a converse for calls that "
        "return; apply_ keeps every member's objects, keys and storages; the thread-pool form equals the single-threaded one for lazy stacks too, for every "
        "completion order; for regular tensordicts the root refusals are characterised (a refused (options, out=) pair raises exactly that class, a returning "
        "call was not refused) and KeyError implies no default= at any depth. Tie: the full lattice (46,656 points)")
_splice("C20", "Exception classes and non-regular containers (lazy through the stacked view, _SubTensorDict, tensorclass, TensorDictParams modulo identity/lock state) are covered by the differential run only.",
        "What TensorDict._apply_nest computes on the stacked view (batch_size= without out=), _SubTensorDict, tensorclass / TensorDictParams wrappers and aliased "
        "operands are covered by the differential run only; exception classes below the root are in the model and compared on every case but proved only as far "
        "as KeyError => no default and the root characterisation.", "note")

# C18 after the repairs D1801-D1804 (batch 8)
_splice("C18", "(unravel_keys: refuted, the two paths differ on every accepted input — finding D1804 — with a partial theorem)",
        "(unravel_keys included, for every argument list of any arity; the library before the repair is refuted by a witness)")
_splice("C18", "(refuted + partial: names are dropped under compile, finding D1801)",
        "(both arms store the same names for every argument; the library before the repair, which dropped names under compile, is refuted by a witness)")
_splice("C18", "EVERY site of the library that tests is_compiling() (46, plus 6 that receive the flag as a keyword)",
        "EVERY site of the library that tests is_compiling() (44 after the repairs removed three and added one, plus 6 that receive the flag as a keyword)")
_splice("C18", "20 are checked pure guards (both specialisations compute the same token stream), 17 are dual sites modelled with theorems, 15 are dual sites listed by name as unmodelled.",
        "the pure guards are CHECKED (both specialisations compute the same token stream), the dual sites are modelled with theorems or listed by name as "
        "unmodelled (counts in the evidence: sites.guard / sites.dual_modelled / sites.dual_unmodelled).")
_splice("C18", "(33 of 46 per quick run, histogram in the evidence)", "(about three quarters of them per quick run, histogram in the evidence)")
_splice("C18", "Known findings in findings.d/C18.json.", "The four defects found by the deepened check (D1801-D1804) are repaired in /repo; `_parse_to`'s compile arm is a Python "
        "transcription of torch's native parser (compared on ~29k spellings in the thorough tier).", "note")

_splice("C19", "and every call of every history of in-place writes, rebinding writes, lock cycles reads the current content (refuted for the unrepaired rebinding write);",
        "and every call of every history of in-place writes, rebinding writes, lock cycles reads the current content (refuted for the unrepaired rebinding write); "
        "un-batching a shared (memoised or in_dims=None) view any number of times with any out_dims gives every result its own names list with None at its own "
        "out_dim and leaves the view unchanged (refuted without the copy);")

_append("C05", "Calls routed through a lazy stack to its members (set / key assignment / update / del_ / rename_key_ / select / exclude with tensor values; stacks of "
               "stacks) are inside the model: the invariant and the frozen theorems hold over histories that include them (a call that raises half way has changed "
               "unlocked members only: witness), a stack locked through lock_ or only through its members refuses them, and so does a member's own handle.")
_splice("C05", "tensorclass, TensorDictParams, _SubTensorDict, NonTensorData and calls routed through a lazy stack to its members are judged by the oracle only;",
        "tensorclass, TensorDictParams, _SubTensorDict, NonTensorData, lazy pop / popitem / stack[idx] = td / update from a lazy source are judged by the oracle only;", "note")
_append("C09", "A stack that stays lazy under expand meets a higher-rank operand member-wise along the SHIFTED stack dim (theorem `lazy_expand_member`; unbinding "
               "along the original dim is refuted by a witness).")

# ---- last short round (C10 C13 C14 C16 C20) -------------------------------------------------------------------------------------------
_splice("C10", "load_memmap_ / memmap_refresh_ are transcribed (two theorems, the full refresh statement is differential only).",
        "load_memmap_ / memmap_refresh_ are transcribed; make_memmap* under nested keys of ANY depth (existing nodes walked into, missing ones created with "
        "their own read-modify-write of the parent's meta.json) leaves a directory that decodes to the extended tree, and memmap_refresh_ / load_memmap_ of a "
        "second mapping afterwards sees the new entry (same mapping as a fresh load), for every kind of neighbour node; a refresh with nothing changed on disk "
        "is the identity.")
_splice("C10", "share_non_tensor and jagged nested tensors are not covered; make_memmap_merge for nested keys and the full refresh statement are stated, not proved.",
        "share_non_tensor and jagged nested tensors are not covered; sequences of make_memmap calls (beyond the first after a save) and "
        "`pool_builds_encode` are stated, not proved.", "note")
_splice("C13", "Not proved (model + run only): use_state_dict, hand-written swap-back, tensor contents and exceptional exits of in-place blocks.",
        "For EVERY program of with-blocks (plain, swap_dest, in-place, use_state_dict; any nesting; any exception class) an exceptional exit leaves the "
        "state a normal exit leaves; in-place blocks at any nesting depth restore every slot's object AND every tensor's content on every exit, for every "
        "module DAG (shared sub-modules, tied names) without storage-level aliasing between distinct tensor objects (the complement is finding D137, refuted "
        "by a witness); re-applying an installed swap with return_swap=False is a no-op for any DAG. Not proved (model + run only): use_state_dict, contents of "
        "programs mixing plain and in-place blocks, the there-and-back of the hand-written swap-back for shared sub-modules.")
_append("C14", "`_dist_sample` is modelled on WRAPPED distributions (Independent and TransformedDistribution-style layers: what the outer object answers, the "
               "code's register lookup): for every stack with at most one Independent on top the decision is the documented table for the unwrapped base's "
               "registration and depends on nothing else (refuted for two nested Independent layers: finding D14A); real mean != mode distributions "
               "(LogNormal, Gamma, Beta, Poisson; plain and wrapped) are compared with their own attributes on every run.")
_splice("C16", "Shape ops on stacks (finding C16-i), memmap/pickle/to_dict and lazy containers are covered by the oracle run only.",
        "Shape ops on a NonTensorData are inside the model and proved for every rank and argument through C02's model of the code on an entry-less tensordict "
        "(depends on Model/C02_ShapeOps and Proofs/C02_OpsP); view / reshape of a NonTensorStack: fall-through branch modelled and refuted by witnesses (finding "
        "C16-i, narrowed to reshape / view to a non-merging shape and gather); the merging / splitting reorganisation, the other shape ops on stacks, "
        "memmap/pickle and lazy containers are covered by the oracle run only; from_list / tolist / to_dict round trip proved.", "note")
_append("C20", "In-place write-back (one-level store model with `copies_items` for containers whose items() are copies, e.g. _SubTensorDict under an advanced index): "
               "the stored value under every key after an in-place call is fn's result whether or not fn handed back its own argument; a fast path that skips "
               "the write-back is harmless on views and refuted on copies.")
