"""Per-property claims (source of MANIFEST.json; regenerate with tools/gen_manifest.py)."""
SOURCE_COMMITS = ["2a19720"]
NOTES = ("All checks: ./check <id> --tier quick|thorough; setup builds the Coq development (full .vo), extracts the model to OCaml "
         "and compiles the driver. known_findings.json lists recorded defects (kind known) and repaired ones (kind fixed).")
NOT_APPLICABLE = {}
COMMON_NOTE = ("Trusted: Coq 8.16.1 kernel (+vm_compute), extraction (ExtrOcamlBasic, ExtrOcamlString), OCaml driver, the Python harness, "
               "CPython/torch as referents. Theorems are about the hand-written model; the model<->code tie is this run's differential "
               "correspondence, bounded by its generators (distribution in the evidence). ")
CHECKS = {
    "C03": {
        "text": ("Proof (Coq): for batch shapes of ANY rank and ANY Ellipsis-free index tuple (ints, slices, None, integer arrays of any shape, "
                 "0-dim integer tensors, boolean masks of any rank, any number of advanced indices anywhere) that torch accepts, the batch size the "
                 "library computes (_getitem_batch_size, both passes) equals torch's shape rule (two-stage spec with the adjacent-subspace rule); "
                 "the library's Ellipsis expansion equals the spec's; the same index applied to an entry of shape batch++features yields "
                 "result++features (every entry and nested node gets the computed batch size as prefix, feature dims untouched); rejection is "
                 "proved in its partial form (index within the batch rank) and the full form is refuted by a witness (finding D25). "
                 "Tie: the torch spec is re-validated against real torch and the extracted model against the real __getitem__ on ~28k (quick) / "
                 "~350k (thorough) generated reads and writes per run; the oracle compares td[idx] and td[idx]=v with entry[idx] and entry[idx]=v "
                 "leaf by leaf (shape, content, memory sharing) directly on the implementation."),
        "note": COMMON_NOTE + "Which elements tensor[idx] selects is torch's (trusted); Spec/C03_TorchIndex.v is my statement of torch's shape rule, "
                "validated against torch in every run. Known findings D3, D25, D30 are listed in known_findings.json.",
        "technique": "Coq theorems (induction on index tuples; invariant linking the code's two passes to torch's adjacent-subspace rule) + differential correspondence",
    },
    "C17": {
        "text": ("Proof (Coq): for every invertible operation the inverse function's re-parsing of the recorded (args, kwargs) yields the same "
                 "inverse call for every spelling (positional / keyword / mixed / defaults / custom separator), and that call undoes the forward "
                 "operation on shapes of ANY rank and any (negative) dims: transpose is an involution, permute composed with argsort is the identity "
                 "on arbitrary lists (element positions included), flatten/unflatten and squeeze/unsqueeze are mutual inverses (squeeze of a "
                 "non-singleton dim has the identity as inverse); the write-back rule is in place (same keys, same storages) for a locked original "
                 "and admits new keys for an unlocked one; nested blocks pop their inverses in LIFO order; the registry of decorated operations "
                 "vs registered inverses is re-translated from /repo on every run and a finite theorem over it is re-proved. "
                 "Tie: the inverse call actually issued by __exit__ is recorded and compared with the model for every op x spelling; the oracle "
                 "compares the original after the block with inverse(modified) computed independently, on regular, lazy and tensorclass originals."),
        "note": COMMON_NOTE + "Tensor contents moved by the transformations are torch's; to_module as a context manager is C13's; the value-level "
                "flatten_keys/unflatten_keys round trip is C04's theorem.",
        "technique": "Coq theorems (list surgery, permutations, queue discipline) + ast-translated registry table + recorded-inverse-call correspondence",
    },
    "C19": {
        "text": ("Proof (Coq, partial): the shape/names/stack-dim bookkeeping of the functorch hooks — for batch sizes of ANY rank, vmap(identity, "
                 "in_dims=i, out_dims=o) yields torch's movedim of the batch size (= batch size of the stack of the slices); every entry and nested "
                 "node keeps the new batch size as prefix (coherent result); negative in_dims wrap against the batch rank; for lazy stacks with ANY "
                 "member shape / member count / stack dim / vmapped dim (hidden-stack path included) / out position the lazy result has the moved "
                 "batch size and a valid stack dim. NOT proved: vmap f = stack of f over slices for arbitrary f (functorch's batching rules are "
                 "runtime behaviour) — that half is decided per run by the differential check: identity on all shapes rank 1..3 x all in/out dims x "
                 "regular/lazy/named, random programs, multi-argument calls with in_dims=None, nested vmap depth 2, functional module calls with "
                 "batched parameters, locked inputs reused across calls with in-place writes in between, each against the per-sample loop."),
        "note": COMMON_NOTE + "functorch batching rules trusted; a refusal of functorch to batch an op (e.g. torch._foreach_* used by tensordict "
                "arithmetic has no batching rule in this torch) is counted, not judged; out_dims taken in 0..rank. Known finding D33.",
        "technique": "Coq theorems (list insert/remove algebra by nth-extensionality) for the bookkeeping + vmap-vs-loop differential run",
    },
    "C18": {
        "text": ("Proof (Coq): for ALL slices/lengths the compile-only _slice_indices equals CPython's slice.indices; for ALL key objects the "
                 "Python-branch unravel functions equal the native ones and equal the in-order fringe on well-formed keys; both _parse_batch_size "
                 "branches and both key-aligned list branches agree on every input. Tie: extracted model vs /repo on exhaustive small grids through "
                 "both real code paths (C++ helper rebuilt from csrc; compile branch forced), each path also compared directly with its twin. "
                 "Partial: eager-vs-torch.compile program equivalence is established by differential runs of generated programs only."),
        "note": COMMON_NOTE + "Dynamo tracing is not modelled; torch.compile backends eager/aot_eager stand for compiled execution.",
        "technique": "Coq theorems (induction on key trees, lia on slice arithmetic) + extracted-model/implementation differential correspondence",
    },
}
