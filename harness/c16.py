"""C16 — non-tensor entries follow batch semantics (DESIGN.md §4 C16).

A tensordict with a non-tensor entry "s" is driven through a random history of indexing, shape operations,
stack / cat / lazy_stack / unbind, indexed assignments, update, clone, to_dict and memmap / pickle round trips.
ORACLE (independent of the model): an integer tensor `pos` of position ids, transformed by *pure torch* with the same
operations, says which object must sit at every batch position of the result (`P[id]`, the object-array proxy);
`td.get("s").tolist()`, item access and `get_non_tensor` must return exactly those objects in batch order.
CORRESPONDENCE: the representation of the entry before each step (NonTensorData = Shared payload shape,
NonTensorStack = Stack dim members) is handed to the extracted Gallina model (coq/Model/C16_NonTensor.v), whose result
is compared with the representation the code produced."""
import copy
import json
import os
import pickle
import shutil
import tempfile

import numpy as np
import torch
from tensordict import LazyStackedTensorDict, NonTensorData, NonTensorStack, TensorDict

from . import c03
from .core import Sym, some, sx

EXC = Exception


def call(f):
    try:
        return ("ok", f())
    except EXC as e:  # noqa: BLE001
        return ("raise", type(e).__name__)


# ------------------------------------------------------------------ payloads
class Obj:
    """an arbitrary user object with value equality (so that deepcopy / pickle round trips stay equal)"""

    def __init__(self, tag):
        self.tag = tag

    def __eq__(self, other):
        return isinstance(other, Obj) and other.tag == self.tag

    def __hash__(self):
        return hash(("Obj", self.tag))

    def __repr__(self):
        return f"Obj({self.tag})"


class Ident:
    """an arbitrary user object with identity equality (the default of Python classes)"""

    def __init__(self, tag):
        self.tag = tag

    def __repr__(self):
        return f"Ident({self.tag})"


# payload descriptors (JSON-able).  Distinct descriptors are distinct under Python's == and under canon().
POOL = [["str", "a"], ["str", "b"], ["str", ""], ["int", 7], ["int", 0], ["int", -3], ["none"], ["list", [1, "u"]], ["list", []],
        ["list", [["n"], 2]], ["dict", {"k": 1}], ["dict", {}], ["dict", {"k": [1, 2], "j": "v"}], ["obj", 1], ["obj", 2],
        ["tuple", [1, 2]], ["str", "a string!"], ["int", 12345678901], ["bytes", "xy"]]
NONE_ID = POOL.index(["none"])
IDENT = ["ident", 0]   # identity-equal objects: only in streams without deepcopy / pickle and without the model


def make_payload(d):
    k = d[0]
    if k == "str":
        return str(d[1])
    if k == "int":
        return int(d[1])
    if k == "none":
        return None
    if k == "list":
        return copy.deepcopy(d[1])
    if k == "dict":
        return copy.deepcopy(d[1])
    if k == "obj":
        return Obj(d[1])
    if k == "ident":
        return Ident(d[1])
    if k == "tuple":
        return tuple(d[1])
    if k == "bytes":
        return d[1].encode()
    raise ValueError(d)


def canon(o):
    """canonical JSON-able form of a payload object as observed"""
    if isinstance(o, Obj):
        return ["obj", o.tag]
    if isinstance(o, Ident):
        return ["ident", o.tag]
    if o is None:
        return ["none"]
    if isinstance(o, bool):
        return ["bool", o]
    if isinstance(o, int):
        return ["int", o]
    if isinstance(o, str):
        return ["str", o]
    if isinstance(o, bytes):
        return ["bytes", o.decode()]
    if isinstance(o, tuple):
        return ["tuple", [canon(x) for x in o]]
    if isinstance(o, list):
        return ["list", [canon(x) for x in o]]
    if isinstance(o, dict):
        return ["dict", sorted([[str(k), canon(v)] for k, v in o.items()])]
    return ["other", type(o).__name__, repr(o)[:40]]


def canon_desc(d):
    return canon(make_payload(d))


class Payloads:
    """the payload table of one case: class id (index in the pool) -> objects; [get] returns either the one cached
    object of the class (identical across positions) or a fresh equal copy"""

    def __init__(self, rng, pool=None):
        self.rng = rng
        self.pool = pool if pool is not None else POOL
        self.cache = {}
        self.canon = [json.dumps(canon_desc(d)) for d in self.pool]

    def get(self, cid, fresh=None):
        if fresh is None:
            fresh = self.rng.random() < 0.3
        if fresh or cid not in self.cache:
            o = make_payload(self.pool[cid])
            self.cache.setdefault(cid, o)
            return o
        return self.cache[cid]

    def cid_of(self, obj):
        """class id of an observed object (None if it is not a payload of the pool)"""
        c = json.dumps(canon(obj))
        try:
            return self.canon.index(c)
        except ValueError:
            return None


# ------------------------------------------------------------------ representation of the entry
def rep(x, pl):
    """('S', cid, shape) | ('K', stack_dim, [members]) | ('?', typename)"""
    if isinstance(x, NonTensorData):
        return ["S", pl.cid_of(x.data), [int(v) for v in x.batch_size]]
    if isinstance(x, NonTensorStack):
        return ["K", int(x.stack_dim), [rep(m, pl) for m in x.tensordicts]]
    return ["?", type(x).__name__]


def rep_ok(r):
    if r[0] == "S":
        return r[1] is not None
    if r[0] == "K":
        return all(rep_ok(m) for m in r[2])
    return False


def rep_sx(r):
    if r[0] == "S":
        return [Sym("sh"), r[1], list(r[2])]
    return [Sym("st"), r[1], [rep_sx(m) for m in r[2]]]


def unsx_rep(s):
    """parsed model output -> rep"""
    if isinstance(s, list) and s and s[0] == "sh":
        return ["S", s[1], list(s[2])]
    if isinstance(s, list) and s and s[0] == "st":
        return ["K", s[1], [unsx_rep(m) for m in s[2]]]
    return ["?", repr(s)]


def to_cids(o, pl, shape, allow_one=False):
    """an observed nested list of payloads of batch shape [shape] -> ["list", nested class ids]; with allow_one, an object that
    is a single payload -> ["one", class id]"""
    f = flatten_to(o, shape) if shape else None
    if f is not None:
        cs = [pl.cid_of(x) for x in f]
        if all(c is not None for c in cs):
            return ["list", nest(cs, shape)]
    c = pl.cid_of(o)
    if c is not None and (allow_one or not shape):
        return ["one", c]
    return ["?", repr(o)[:80]]


def flatten_to(nested, shape):
    """flatten exactly len(shape) list levels of [nested] (payloads may be lists themselves); None if the nesting does not
    have that shape"""
    if not shape:
        return [nested]
    if not isinstance(nested, list) or len(nested) != shape[0]:
        return None
    out = []
    for sub in nested:
        f = flatten_to(sub, shape[1:])
        if f is None:
            return None
        out.extend(f)
    return out


def nest(flat, shape):
    if not shape:
        return flat[0]
    n = int(np.prod(shape[1:])) if len(shape) > 1 else 1
    return [nest(flat[i * n:(i + 1) * n], shape[1:]) for i in range(shape[0])]


# ------------------------------------------------------------------ building subjects
class Ids:
    def __init__(self):
        self.next = 0
        self.P = {}        # position id -> payload class id

    def fresh(self, cid):
        i = self.next
        self.next += 1
        self.P[i] = cid
        return i


def gen_assign(rng, bs, ncls, pool_n):
    """a payload class per position of shape bs, as a flat row-major list; patterns: constant, constant per slice of one
    dim, mostly-constant, all distinct, random over few classes"""
    n = int(np.prod(bs)) if bs else 1
    classes = rng.sample(range(pool_n), min(ncls, pool_n))
    kind = rng.choice(["const", "const", "perdim", "perdim", "mostly", "random", "random", "distinct"])
    if n == 0:
        return [], kind
    if kind == "const" or not bs:
        return [classes[0]] * n, kind
    if kind == "perdim":
        d = rng.randrange(len(bs))
        per = [rng.choice(classes) for _ in range(bs[d])]
        idx = np.indices(bs)[d].reshape(-1)
        return [per[i] for i in idx], kind
    if kind == "mostly":
        out = [classes[0]] * n
        out[rng.randrange(n)] = classes[-1]
        return out, kind
    if kind == "distinct":
        cl = list(range(pool_n))
        rng.shuffle(cl)
        return [cl[i % pool_n] for i in range(n)], kind
    return [rng.choice(classes) for _ in range(n)], kind


def gen_build(rng, bs, assign):
    """a construction plan for an entry with payload classes [assign] (row-major over bs):
       ["shared", cid] | ["stack", d, [plans], how] | ["fromlist", nested cids] | ["tostack", plan]"""
    n = int(np.prod(bs)) if bs else 1
    if n == 0 or not bs:
        return ["shared", assign[0] if assign else 0]
    const = all(a == assign[0] for a in assign)
    choices = ["stack", "stack", "stack"]
    if const:
        choices += ["shared", "shared", "shared", "shared"]
    choices += ["fromlist"]
    k = rng.choice(choices)
    if k == "shared":
        return ["shared", assign[0]]
    if k == "fromlist":
        return ["fromlist", nest(list(assign), list(bs))]
    d = rng.randrange(len(bs))
    arr = np.array(assign, dtype=np.int64).reshape(bs)
    subs = [gen_build(rng, tuple(bs[:d] + bs[d + 1:]), [int(v) for v in np.take(arr, i, axis=d).reshape(-1)]) for i in range(bs[d])]
    return ["stack", d, subs, rng.choice(["torch", "torch", "lazy", "cls"])]


def build_entry(plan, bs, pl):
    """the non-tensor entry described by [plan] for batch shape bs"""
    k = plan[0]
    if k == "shared":
        return NonTensorData(pl.get(plan[1]), batch_size=list(bs))
    if k == "fromlist":
        def conv(x):
            return [conv(y) for y in x] if isinstance(x, list) else pl.get(x)
        return NonTensorStack._from_list(conv(plan[1]), device=None, ndim=len(bs))
    if k == "stack":
        d, subs, how = plan[1], plan[2], plan[3]
        sub_bs = tuple(bs[:d] + bs[d + 1:])
        ms = [build_entry(p, sub_bs, pl) for p in subs]
        if how == "torch":
            return torch.stack(ms, d)
        if how == "lazy":
            return LazyStackedTensorDict.lazy_stack(ms, d)
        return NonTensorStack(*ms, stack_dim=d)
    raise ValueError(plan)


def new_ids(ids, assign, bs):
    flat = [ids.fresh(c) for c in assign]
    return torch.tensor(flat, dtype=torch.int64).reshape(list(bs)) if bs else torch.tensor(flat[0], dtype=torch.int64)


def build_td(rng, bs, pl, ids, assign=None, plan=None, lazy_parent=False):
    """(td, pos, descriptor): a tensordict of batch shape bs with a tensor entry "x" (= pos) and the non-tensor entry "s" """
    bs = tuple(bs)
    if assign is None:
        assign, _ = gen_assign(rng, bs, rng.choice([1, 2, 2, 3]), len(pl.pool))
    if plan is None:
        plan = gen_build(rng, bs, assign)
    pos = new_ids(ids, assign, bs) if (bs == () or int(np.prod(bs))) else torch.zeros(list(bs), dtype=torch.int64)
    s = build_entry(plan, bs, pl)
    td = TensorDict({"x": pos.clone(), "s": s}, batch_size=list(bs))
    return td, pos, {"bs": list(bs), "assign": list(assign), "plan": plan}


# ------------------------------------------------------------------ indices (C03 grammar, at most one advanced index)
# a 0-dim integer tensor counts as the one advanced index (tensordict's bookkeeping treats it as one: D15 of C03)
ADV = ("list", "range", "np", "ten", "mask", "npmask", "ten0")


def restrict_one_adv(rng, descs, bs, no_dup=False):
    """keep the first advanced index, turn the others into full slices (a mask of k dims into k slices).  With no_dup
    (writes) the surviving integer index has no repeated position."""
    if no_dup:
        descs = c03.writable(rng, bs, descs)
    out, seen = [], False
    for d in descs:
        if d[0] in ADV:
            if seen:
                out.extend([["sl", None, None, None]] * c03.consumption(d))
                continue
            seen = True
        out.append(d)
    return out


def gen_idx(rng, bs, no_dup=False):
    descs = c03.gen_index(rng, bs)
    descs = restrict_one_adv(rng, descs, bs, no_dup)
    single = len(descs) == 1 and rng.random() < 0.5
    return descs, single


def py_index(descs, single):
    py = c03.to_py(descs)
    return py[0] if (single and len(py) == 1) else py


def expand_ellipsis(descs, rank):
    """the spec's expansion of the single Ellipsis: rank - consumed full slices"""
    if not any(d[0] == "ell" for d in descs):
        return descs
    cons = sum(c03.consumption(d) for d in descs)
    out = []
    for d in descs:
        if d[0] == "ell":
            out.extend([["sl", None, None, None]] * max(rank - cons, 0))
        else:
            out.append(d)
    return out


def idx_sx(descs):
    """index descriptors (Ellipsis already expanded) -> model items"""
    out = []
    for d in descs:
        k = d[0]
        if k == "int":
            out.append([Sym("int"), d[1]])
        elif k == "ten0":
            out.append([Sym("int"), d[1]])
        elif k == "sl":
            out.append([Sym("sl"), some(d[1]), some(d[2]), some(d[3])])
        elif k == "non":
            out.append(Sym("non"))
        elif k == "list":
            out.append([Sym("ten"), [len(d[1])], list(d[1])])
        elif k == "range":
            out.append([Sym("ten"), [d[1]], list(range(d[1]))])
        elif k in ("np", "ten"):
            a = np.array(d[1], dtype=np.int64)
            out.append([Sym("ten"), list(a.shape), [int(v) for v in a.reshape(-1)]])
        elif k in ("mask", "npmask"):
            a = np.array(d[1], dtype=bool)
            out.append([Sym("mask"), list(a.shape), [bool(v) for v in a.reshape(-1)]])
        else:
            raise ValueError(d)
    return out


# ------------------------------------------------------------------ operations of a history
def _factorizations(n, rng, maxrank=3):
    if n == 0:
        return [0, rng.choice([1, 2])][: rng.choice([1, 2])]
    out, rest = [], n
    for _ in range(rng.randrange(0, maxrank)):
        divs = [d for d in range(1, rest + 1) if rest % d == 0]
        d = rng.choice(divs)
        out.append(d)
        rest //= d
    out.append(rest)
    rng.shuffle(out)
    return out


def gen_operand(rng, bs, pl):
    """descriptor of a second tensordict of batch shape bs"""
    assign, _ = gen_assign(rng, tuple(bs), rng.choice([1, 2, 2, 3]), len(pl.pool))
    return ["new", list(bs), assign, gen_build(rng, tuple(bs), assign)]


# shape ops that still fail on a NonTensorStack (finding C16-i as narrowed on /repo 6457149: flatten / unflatten / expand / squeeze /
# transpose / masked_select were repaired with the lazy-stack fixes; measured on 200+ single-op histories each, 0 failures)
LAZY_UNSUPPORTED = ("view", "reshape", "gather")


def resolve_target(tgt, bs):
    """a view / reshape target with its -1 resolved against the number of elements of bs"""
    tgt = [int(v) for v in tgt]
    if -1 in tgt:
        rest = int(np.prod([v for v in tgt if v != -1])) if len(tgt) > 1 else 1
        n = int(np.prod(bs)) if bs else 1
        tgt[tgt.index(-1)] = n // rest if rest else 0
    return tgt


def merges_or_splits(new, old):
    """is [new] the shape [old] with one run of adjacent dims merged into one, or one dim split into a run (or the same shape)"""
    def merged(a, b):      # a = b with b[i:j+1] merged
        for i in range(len(b) + 1):
            for j in range(i, len(b)):
                if list(a) == list(b[:i]) + [int(np.prod(b[i:j + 1]))] + list(b[j + 1:]):
                    return True
        return False
    return list(new) == list(old) or merged(new, old) or merged(old, new)


def has_seq_payload(st):
    """does a live position hold a list / tuple payload (JSON-lossy or ambiguous with batch nesting in meta.json)"""
    live = {st.ids.P[int(i)] for i in st.pos.reshape(-1).tolist()} if st.pos.numel() else set()
    return any(st.pl.pool[c][0] in ("list", "tuple") for c in live)


def has_alias(e):
    """does the stack hold the same member object at two places (repeat / expand / duplicate indices / stack([td, td]))"""
    seen = set()

    def walk(x):
        if id(x) in seen:
            return True
        seen.add(id(x))
        if isinstance(x, NonTensorStack):
            return any(walk(m) for m in x.tensordicts)
        return False
    return walk(e)


def numpy_stack_dim(e):
    """a NonTensorStack whose stack_dim is a numpy integer (left by _permute's argsort): meta.json cannot be written"""
    if isinstance(e, NonTensorStack):
        return not isinstance(e.stack_dim, int) or any(numpy_stack_dim(m) for m in e.tensordicts)
    return False


def fully_expanded(r):
    if r[0] == "S":
        return r[2] == []
    if r[0] == "K":
        return all(fully_expanded(m) for m in r[2])
    return True


def in_defect_region(op, st, kind, depth):
    """the input patterns of the recorded findings (findings.d/C16.json); also the signature fields of a failure"""
    k = op[0]
    f = {}
    if k in ("index", "setitem", "set_at", "setitem_same"):
        descs = op[1]
        mr = max([len(c03.shape_of(d[1])) for d in descs if d[0] in ("mask", "npmask")] + [0])
        # (reads through a mask of rank >= 2 on a stack were finding C16-c: torch.cat of the members' pieces kept the first
        #  payload / raised TypeError; repaired, PENDING-C16-c.)  What is left (finding C16-o) RAISES RuntimeError / ValueError in
        #  the mask branch of the lazy __getitem__ / __setitem__: masks of rank >= 2 on nested stacks, masks together with None
        #  in a write.  The flag marks the input pattern; only a raise of these classes AT THIS STEP is attributed (signature()).
        has_none = any(d[0] == "non" for d in descs)
        if k == "index":
            f["mask_branch"] = bool(mr >= 2 and kind == "stack")
        else:
            f["mask_branch"] = bool(mr >= 2 or (mr >= 1 and has_none))
        # (td[idx] = value with None in idx was finding C16-f: repaired, PENDING-C16-f)
        # (td[()] = value was finding C16-g: repaired)
        # (writes through an integer tensor of rank >= 2 were finding C16-h: fixed by e0579fb)
    # (torch.cat of non-tensor entries was finding C16-d, update_ / copy_ C16-e, to_dict D20, memmap after permute C16-m: repaired)
    # (update(inplace=True) / update_ / copy_ of a NonTensorStack with a batched NonTensorData member was finding C16-k: repaired,
    #  PENDING-C16-k)
    if k in ("setitem", "set_at", "setitem_same") or (k == "update" and op[1] != "update"):
        e = call(lambda: st.td.get("s"))
        f["write_to_aliased_members"] = bool(e[0] == "ok" and has_alias(e[1]))
    if k in LAZY_UNSUPPORTED and kind == "stack":
        # view / reshape: only targets that neither merge nor split dims of the batch size (the others reorganise the lazy stack
        # and are right); decided here from the proxy shape, independently of utils._check_is_flatten
        f["shape_op_on_stack"] = bool(k == "gather" or not merges_or_splits(resolve_target(op[1], list(st.pos.shape)), list(st.pos.shape)))
    # (memmap round trips of list / tuple payloads were finding C16-j: repaired by e2949e0)
    return {a: b for a, b in f.items() if b}


def gen_op(rng, st, allow, avoid):
    """one operation descriptor for the current subject.  With [avoid], descriptors that fall in the input region of a
    recorded finding (or whose result has no element) are re-drawn, so that long histories survive."""
    kind = entry_kind(st.td)
    r0 = call(lambda: rep(st.td.get("s"), st.pl))
    depth = rep_depth(r0[1]) if r0[0] == "ok" else 0
    if isinstance(st.td, LazyStackedTensorDict):
        # operations ON a lazy container are C08's subject; C16 reads non-tensor entries through it
        allow = (allow & {"index", "unbind", "stack", "lazy_stack", "clone", "to_dict"}) or {"clone"}
    for _ in range(12):
        op = gen_op1(rng, st.pos, st.pl, allow)
        if not avoid:
            return op
        if in_defect_region(op, st, kind, depth):
            continue
        if op[0] == "update" and op[1] == "update-inplace":
            continue
        if op[0] in ("index",) or op[0] in SHAPE_OPS:
            w = call(lambda: st.pos[py_index(op[1], op[2])] if op[0] == "index" else torch_shape_op(op, st.pos))
            if w[0] == "ok" and w[1].numel() == 0:
                continue
        return op
    return ["clone", True]


def gen_op1(rng, pos, pl, allow):
    """one operation descriptor for a subject whose proxy is [pos]"""
    bs = list(pos.shape)
    r = len(bs)
    n = int(np.prod(bs)) if bs else 1
    kinds = ["index"] * 6 + ["setitem"] * 5 + ["stack", "stack", "cat", "lazy_stack", "unbind", "unbind", "clone", "update", "set_at",
                                                "view", "reshape", "permute", "transpose", "squeeze", "unsqueeze", "flatten", "unflatten",
                                                "expand", "repeat", "repeat_interleave", "split", "chunk", "gather", "masked_select",
                                                "pickle", "memmap", "to_dict", "setitem_same", "tostack"]
    kinds = [k for k in kinds if k in allow]
    k = rng.choice(kinds)
    if k in ("permute", "transpose", "flatten", "unflatten", "split", "chunk", "unbind", "cat", "repeat_interleave", "gather") and r == 0:
        k = "unsqueeze"
    if k == "index":
        descs, single = gen_idx(rng, bs)
        return ["index", descs, single]
    if k in ("setitem", "setitem_same", "set_at"):
        descs, single = gen_idx(rng, bs, no_dup=True)
        py = py_index(descs, single)
        tgt = call(lambda: list(pos[py].shape))
        if tgt[0] != "ok":
            return ["index", descs, single]
        tshape = tgt[1]
        if k == "setitem_same":
            return ["setitem_same", descs, single]
        vbs = tshape
        mode = rng.choice(["full", "full", "full", "bcast", "scalar"])
        if mode == "bcast" and len(tshape) >= 1:
            vbs = tshape[rng.randrange(1, len(tshape) + 1):]
        elif mode == "scalar":
            vbs = []
        if k == "set_at":
            how = "set_at_" if any(d[0] in ("np", "npmask") for d in descs) else rng.choice(["set_at_", "update_at_"])
            return ["set_at", descs, single, rng.randrange(len(pl.pool)), vbs, how]
        return ["setitem", descs, single, gen_operand(rng, vbs, pl)]
    if k in ("stack", "lazy_stack"):
        d = rng.randrange(-r - 1, r + 1)
        m = rng.choice([1, 2, 2, 3])
        ops = [rng.choice([["self"], ["clone"], gen_operand(rng, bs, pl), gen_operand(rng, bs, pl)]) for _ in range(m)]
        return [k, d, ops]
    if k == "cat":
        d = rng.randrange(-r, r)
        ops = []
        for _ in range(rng.choice([1, 2, 2, 3])):
            if rng.random() < 0.3:
                ops.append(rng.choice([["self"], ["clone"]]))
            else:
                b2 = list(bs)
                b2[d] = rng.choice([1, 2, 3, bs[d]])
                ops.append(gen_operand(rng, b2, pl))
        return ["cat", d, ops]
    if k == "unbind":
        d = rng.randrange(-r, r)
        return ["unbind", d, rng.randrange(max(bs[d], 1))]
    if k == "clone":
        return ["clone", rng.random() < 0.7]
    if k == "update":
        how = rng.choice(["update", "update", "update_", "update-inplace", "copy_"])
        o = gen_operand(rng, bs, pl)
        if how in ("update-inplace", "update_", "copy_"):
            # NonTensorData.update(NonTensorStack) is a documented refusal; a uniform source keeps the kinds compatible
            cid = rng.randrange(len(pl.pool))
            o = ["new", list(bs), [cid] * max(n, 0 if 0 in bs else 1), ["shared", cid]]
        return ["update", how, o]
    if k in ("view", "reshape"):
        shape = _factorizations(n, rng)
        if shape and n and rng.random() < 0.3:
            shape[rng.randrange(len(shape))] = -1
        return [k, shape]
    if k == "permute":
        p = list(range(r))
        rng.shuffle(p)
        if rng.random() < 0.3:
            p = [x - r for x in p]
        return ["permute", p]
    if k == "transpose":
        return ["transpose", rng.randrange(-r, r), rng.randrange(-r, r)]
    if k == "squeeze":
        ones = [i for i, b in enumerate(bs) if b == 1]
        if (rng.random() < 0.3 or r == 0) and any(b != 1 for b in bs):
            return ["squeeze", None]       # squeeze() of an all-singleton batch is C02's finding D5
        if r == 0:
            return ["unsqueeze", 0]
        return ["squeeze", rng.choice(ones) if ones and rng.random() < 0.8 else rng.randrange(-r, r)]
    if k == "unsqueeze":
        return ["unsqueeze", rng.randrange(-r - 1, r + 1)]
    if k == "flatten":
        if r < 2:
            return ["unsqueeze", rng.randrange(-r - 1, r + 1)]
        a = rng.randrange(r - 1)
        b = rng.randrange(a + 1, r)      # flatten(a, a) is a no-op for torch and rejected by tensordict (C02's business)
        return ["flatten", a, b]
    if k == "unflatten":
        d = rng.randrange(-r, r)
        return ["unflatten", d, _factorizations(bs[d], rng, 2)]
    if k == "expand":
        lead = [rng.choice([1, 2]) for _ in range(rng.choice([0, 0, 1]))]
        return ["expand", lead + [b if b != 1 or rng.random() < 0.4 else rng.choice([2, 3]) for b in bs]]
    if k == "repeat":
        if r == 0:
            return ["unsqueeze", 0]
        return ["repeat", [rng.choice([1, 1, 2]) for _ in range(r)]]
    if k == "repeat_interleave":
        return ["repeat_interleave", rng.choice([1, 2, 3]), rng.randrange(-r, r)]
    if k == "split":
        d = rng.randrange(-r, r)
        size = rng.choice([1, 2, max(bs[d], 1)])
        return ["split", size, d, rng.randrange(4)]
    if k == "chunk":
        d = rng.randrange(-r, r)
        return ["chunk", rng.choice([1, 2, 3]), d, rng.randrange(3)]
    if k == "gather":
        d = rng.randrange(r)
        ish = list(bs)
        ish[d] = rng.choice([1, 2, 3])
        tot = int(np.prod(ish))
        vals = [rng.randrange(bs[d]) if bs[d] else 0 for _ in range(tot)]
        if bs[d] == 0:
            ish[d], vals = 0, []
        return ["gather", d, ish, vals]
    if k == "masked_select":
        return ["masked_select", [rng.random() < 0.5 for _ in range(n)]]
    if k in ("pickle", "memmap", "to_dict", "tostack"):
        return [k]
    raise ValueError(k)


def torch_shape_op(op, x):
    """the operation on a torch tensor / on a tensordict (same spelling for both)"""
    k = op[0]
    if k == "view":
        return x.view(*op[1]) if op[1] else x.view(())
    if k == "reshape":
        return x.reshape(*op[1]) if op[1] else x.reshape(())
    if k == "permute":
        return x.permute(*op[1]) if op[1] else x.permute(())
    if k == "transpose":
        return x.transpose(op[1], op[2])
    if k == "squeeze":
        return x.squeeze() if op[1] is None else x.squeeze(op[1])
    if k == "unsqueeze":
        return x.unsqueeze(op[1])
    if k == "flatten":
        return x.flatten(op[1], op[2])
    if k == "unflatten":
        return x.unflatten(op[1], tuple(op[2]))
    if k == "expand":
        return x.expand(*op[1])
    if k == "repeat":
        return x.repeat(*op[1]) if op[1] else x.repeat(())
    if k == "repeat_interleave":
        return x.repeat_interleave(op[1], dim=op[2])
    if k == "split":
        parts = x.split(op[1], op[2])
        return parts[op[3] % len(parts)]
    if k == "chunk":
        parts = x.chunk(op[1], op[2])
        return parts[op[3] % len(parts)]
    if k == "unbind":
        return x.unbind(op[1])[op[2]]
    if k == "gather":
        index = torch.tensor(op[3], dtype=torch.int64).reshape(op[2])
        return x.gather(op[1], index) if isinstance(x, torch.Tensor) else x.gather(dim=op[1], index=index)
    if k == "masked_select":
        mask = torch.tensor(op[1], dtype=torch.bool).reshape(x.shape)
        return x.masked_select(mask)
    raise ValueError(op)


SHAPE_OPS = ("view", "reshape", "permute", "transpose", "squeeze", "unsqueeze", "flatten", "unflatten", "expand", "repeat",
             "repeat_interleave", "split", "chunk", "unbind", "gather", "masked_select")


IDENT_POOL = POOL[:6] + [["ident", 0], ["ident", 1], ["ident", 2]]


class State:
    def __init__(self, rng, pseed, pool=None):
        import random
        self.pl = Payloads(random.Random(pseed), pool)
        self.ids = Ids()
        self.td = None
        self.pos = None
        self.want = None
        self.depth_before = 0
        self.region = {}
        self.region_step = {}
        self.aux = {}
        self.tmp = []

    def operand(self, d):
        """(td, pos) for an operand descriptor"""
        if d[0] == "self":
            return self.td, self.pos
        if d[0] == "clone":
            return self.td.clone(), self.pos.clone()
        _, bs, assign, plan = d
        td, pos, _ = build_td(None, bs, self.pl, self.ids, assign=assign, plan=plan)
        return td, pos

    def cleanup(self):
        for d in self.tmp:
            shutil.rmtree(d, ignore_errors=True)
        self.tmp = []


def apply_op(st, op):
    """apply [op] to the proxy first (pure torch).  Returns (status, info):
       'invalid'  torch rejects the operation on the proxy: nothing applied
       'ok'       applied to both
       'raise'    the tensordict raised although the proxy accepted (info = exception class); state unchanged if the
                  operation is out-of-place, possibly corrupted (history must stop) if in place"""
    k = op[0]
    td, pos = st.td, st.pos
    st.want = None
    st.aux = {}
    if k == "index":
        idx = py_index(op[1], op[2])
        want = call(lambda: pos[idx])
        if want[0] != "ok":
            return "invalid", want[1]
        st.want = want[1]
        got = call(lambda: td[idx])
        if got[0] != "ok":
            return "raise", got[1]
        st.td, st.pos = got[1], want[1]
        return "ok", None
    if k in SHAPE_OPS:
        want = call(lambda: torch_shape_op(op, pos))
        if want[0] != "ok":
            return "invalid", want[1]
        st.want = want[1]
        got = call(lambda: torch_shape_op(op, td))
        if got[0] != "ok":
            return "raise", got[1]
        st.td, st.pos = got[1], want[1]
        return "ok", None
    if k in ("stack", "cat", "lazy_stack"):
        built = call(lambda: [st.operand(d) for d in op[2]])
        if built[0] != "ok":
            return "invalid", "operand:" + built[1]
        tds, poss = [b[0] for b in built[1]], [b[1] for b in built[1]]
        oreps = call(lambda: [rep(t_.get("s"), st.pl) for t_ in tds])
        st.aux["operands"] = oreps[1] if oreps[0] == "ok" else None
        st.aux["containers"] = [type(t_).__name__ for t_ in tds]
        f = torch.stack if k in ("stack", "lazy_stack") else torch.cat
        want = call(lambda: f(poss, op[1]))
        if want[0] != "ok":
            return "invalid", want[1]
        st.want = want[1]
        if k == "lazy_stack":
            got = call(lambda: LazyStackedTensorDict.lazy_stack(tds, op[1]))
        else:
            got = call(lambda: f(tds, op[1]))
        if got[0] != "ok":
            return "raise", got[1]
        if k == "cat" and any(isinstance(t_.get("s"), NonTensorData) for t_ in tds):
            # torch.cat on the entries themselves, a NonTensorData among them (NonTensorData.__torch_function__: what the lazy
            # mask path does with the members' pieces).  Operands that are all lazy stacks go to LazyStackedTensorDict's cat,
            # which refuses different stack dims: C08's subject.
            ec = call(lambda: torch.cat([t_.get("s") for t_ in tds], op[1]))
            if ec[0] != "ok":
                st.aux["entry_cat"] = ["raise", ec[1]]
            else:
                tl = call(lambda: flatten_to(ec[1].tolist(), list(want[1].shape)))
                st.aux["entry_cat"] = ["ok", rep(ec[1], st.pl), [int(v) for v in ec[1].batch_size],
                                       [json.dumps(canon(o)) for o in tl[1]] if tl[0] == "ok" and tl[1] is not None else None]
        st.td, st.pos = got[1], want[1]
        return "ok", None
    if k == "clone":
        got = call(lambda: td.clone(op[1]))
        if got[0] != "ok":
            return "raise", got[1]
        # clone(recurse=False) keeps the very same tensors (and their memory layout: a later view() of an expanded entry is
        # refused by torch itself), so the proxy keeps its layout too; only a deep clone makes everything contiguous
        st.td, st.pos = got[1], (pos.clone() if op[1] else pos)
        return "ok", None
    if k == "tostack":
        e = td.get("s")
        got = call(lambda: e.maybe_to_stack())
        if got[0] != "ok":
            return "raise", got[1]
        got2 = call(lambda: td.set("s", got[1]))
        if got2[0] != "ok":
            return "raise", got2[1]
        return "ok", None
    if k == "pickle":
        got = call(lambda: pickle.loads(pickle.dumps(td)))
        if got[0] != "ok":
            return "raise", got[1]
        st.td = got[1]
        return "ok", None
    if k == "memmap":
        d = tempfile.mkdtemp(prefix="c16-")
        st.tmp.append(d)
        got = call(lambda: (td.memmap(d, copy_existing=True), TensorDict.load_memmap(d))[1])
        if got[0] != "ok":
            return "raise", got[1]
        st.td = got[1]
        return "ok", None
    if k == "to_dict":
        return "ok", None   # observation only (done by the caller)
    if k == "update":
        x = call(lambda: td.get("x"))
        if x[0] == "ok" and isinstance(x[1], torch.Tensor) and any(s_ == 0 and n_ > 1 for s_, n_ in zip(x[1].stride(), x[1].shape)) and op[1] != "update":
            return "invalid", "the tensor entry is an expanded view: torch refuses in-place writes"
        built = call(lambda: st.operand(op[2]))
        if built[0] != "ok":
            return "invalid", "operand:" + built[1]
        td2, pos2 = built[1]
        vr = call(lambda: rep(td2.get("s"), st.pl))
        st.aux["value"] = vr[1] if vr[0] == "ok" else None
        how = op[1]
        if how == "update":
            got = call(lambda: td.update(td2))
        elif how == "update_":
            got = call(lambda: td.update_(td2))
        elif how == "update-inplace":
            got = call(lambda: td.update(td2, inplace=True))
        else:
            got = call(lambda: td.copy_(td2))
        if got[0] != "ok":
            return "raise!", got[1]
        if how == "update":
            st.pos = pos2.clone()
        else:
            # in place: the tensor entry keeps its memory layout (a transposed view stays one), so does the proxy
            st.pos = pos.clone(memory_format=torch.preserve_format)
            st.pos.copy_(pos2)
        return "ok", None
    if k in ("setitem", "setitem_same", "set_at", "update"):
        x = call(lambda: td.get("x"))
        if x[0] == "ok" and isinstance(x[1], torch.Tensor) and any(s_ == 0 and n_ > 1 for s_, n_ in zip(x[1].stride(), x[1].shape)):
            return "invalid", "the tensor entry is an expanded view: torch refuses in-place writes"
    if k in ("setitem", "setitem_same", "set_at"):
        idx = py_index(op[1], op[2])
        tgt = call(lambda: pos[idx])
        if tgt[0] != "ok":
            return "invalid", tgt[1]
        st.want = tgt[1]
        tshape = list(tgt[1].shape)
        vshape = None if k == "setitem_same" else (list(op[4]) if k == "set_at" else list(op[3][1]))
        if vshape is not None and vshape != tshape[len(tshape) - len(vshape):]:
            return "invalid", "value shape is not a suffix of the indexed shape"
        if k == "setitem_same":
            # write back what is already there (must not change anything: the is_diff test)
            cur = call(lambda: td[idx])
            if cur[0] != "ok":
                return "raise", cur[1]
            got = call(lambda: td.__setitem__(idx, cur[1].clone()))
            if got[0] != "ok":
                return "raise!", got[1]
            return "ok", None
        if k == "set_at":
            _, _, _, cid, vbs, how = op
            val = NonTensorData(st.pl.get(cid), batch_size=list(vbs))
            st.aux["value"] = ["S", cid, list(vbs)]
            st.aux["value_exp"] = ["S", cid, tshape]
            newpos = pos.clone()
            vid = st.ids.fresh(cid)
            w = call(lambda: newpos.__setitem__(idx, torch.tensor(vid).expand(list(vbs)) if vbs else torch.tensor(vid)))
            if w[0] != "ok":
                return "invalid", w[1]
            if how == "set_at_":
                got = call(lambda: td.set_at_("s", val, idx))
            else:
                got = call(lambda: td.update_at_(TensorDict({"s": val}, list(vbs)), idx))
            if got[0] != "ok":
                return "raise!", got[1]
            st.pos = newpos
            return "ok", None
        built = call(lambda: st.operand(op[3]))
        if built[0] != "ok":
            return "invalid", "operand:" + built[1]
        v, vpos = built[1]
        vr = call(lambda: rep(v.get("s"), st.pl))
        if vr[0] == "ok":
            if list(vpos.shape) == tshape:
                st.aux["value"] = st.aux["value_exp"] = vr[1]
            elif vr[1][0] == "S":
                st.aux["value"] = st.aux["value_exp"] = ["S", vr[1][1], tshape]   # __setitem__ expands the value first
        newpos = pos.clone()
        w = call(lambda: newpos.__setitem__(idx, vpos))
        if w[0] != "ok":
            return "invalid", w[1]
        got = call(lambda: td.__setitem__(idx, v))
        if got[0] != "ok":
            return "raise!", got[1]
        st.pos = newpos
        return "ok", None
    raise ValueError(op)


# ------------------------------------------------------------------ the oracle
def expected_flat(st):
    return [st.ids.P[int(i)] for i in st.pos.reshape(-1).tolist()]


def check_state(st, rng, probes=True):
    """compare every way of reading the entry with the proxy.  Returns a list of (label, detail)."""
    td, pos, pl = st.td, st.pos, st.pl
    bad = []
    shape = list(pos.shape)
    if list(td.batch_size) != shape:
        return [("batch-size", {"tensordict": list(td.batch_size), "torch": shape})]
    want = expected_flat(st)
    wantc = [pl.canon[c] for c in want]
    e = call(lambda: td.get("s"))
    if e[0] != "ok" or e[1] is None:
        return [("get", {"raised": e[1] if e[0] != "ok" else "returned None"})]
    e = e[1]
    if list(e.batch_size) != shape:
        bad.append(("entry-batch-size", {"entry": list(e.batch_size), "torch": shape}))
        return bad
    tl = call(lambda: e.tolist())
    if tl[0] != "ok":
        bad.append(("tolist-raises", {"exception": tl[1]}))
        return bad
    flat = flatten_to(tl[1], shape)
    if flat is None:
        bad.append(("tolist-nesting", {"shape": shape, "tolist": repr(tl[1])[:200]}))
        return bad
    gotc = [json.dumps(canon(o)) for o in flat]
    if gotc != wantc:
        k = next(i for i in range(len(wantc)) if gotc[i] != wantc[i])
        bad.append(("tolist-content", {"shape": shape, "first_bad_flat_position": k, "want": wantc[:24], "got": gotc[:24]}))
        return bad
    if not probes:
        return bad
    # item access
    it = call(lambda: td["s"])
    if it[0] != "ok":
        bad.append(("item-raises", {"exception": it[1]}))
    elif isinstance(e, NonTensorData):
        if want and json.dumps(canon(it[1])) != wantc[0]:
            bad.append(("item-content", {"want": wantc[0], "got": json.dumps(canon(it[1]))}))
    else:
        f2 = flatten_to(it[1], shape)
        if f2 is None or [json.dumps(canon(o)) for o in f2] != wantc:
            bad.append(("item-content", {"want": wantc[:24], "got": repr(it[1])[:200]}))
    gn = call(lambda: td.get_non_tensor("s"))
    if gn[0] != "ok":
        bad.append(("get_non_tensor-raises", {"exception": gn[1]}))
    else:
        f2 = flatten_to(gn[1], shape) if shape else [gn[1]]
        as_list = f2 is not None and [json.dumps(canon(o)) for o in f2] == wantc
        as_one = bool(want) and all(c == want[0] for c in want) and json.dumps(canon(gn[1])) == wantc[0]
        if not want:
            as_one = True       # no position: nothing to return
        if not (as_list or as_one):
            bad.append(("get_non_tensor-content", {"want": wantc[:24], "got": repr(gn[1])[:200], "all_agree": len(set(want)) <= 1}))
    # one position through a full integer index
    if want and shape:
        I = tuple(rng.randrange(b) for b in shape)
        one = call(lambda: td[I].get("s").tolist())
        k = int(np.ravel_multi_index(I, shape))
        if one[0] != "ok":
            bad.append(("position-raises", {"index": list(I), "exception": one[1]}))
        elif json.dumps(canon(one[1])) != wantc[k]:
            bad.append(("position-content", {"index": list(I), "want": wantc[k], "got": json.dumps(canon(one[1]))}))
    return bad


def check_to_dict(st):
    td, pos, pl = st.td, st.pos, st.pl
    shape = list(pos.shape)
    want = [pl.canon[c] for c in expected_flat(st)]
    e = td.get("s")
    d = call(lambda: td.to_dict())
    if d[0] != "ok":
        return [("to_dict-raises", {"exception": d[1], "entry": type(e).__name__})]
    v = d[1].get("s", None) if isinstance(d[1], dict) else None
    if isinstance(e, NonTensorData):
        if want and json.dumps(canon(v)) != want[0]:
            return [("to_dict-content", {"want": want[0], "got": repr(v)[:100]})]
        return []
    f = flatten_to(v, shape)
    if f is None or [json.dumps(canon(o)) for o in f] != want:
        return [("to_dict-content", {"want": want[:24], "got": repr(v)[:200]})]
    return []


# ------------------------------------------------------------------ histories
ALL_OPS = {"index", "setitem", "stack", "cat", "lazy_stack", "unbind", "clone", "update", "set_at", "view", "reshape", "permute",
           "transpose", "squeeze", "unsqueeze", "flatten", "unflatten", "expand", "repeat", "repeat_interleave", "split", "chunk",
           "gather", "masked_select", "pickle", "memmap", "to_dict", "setitem_same", "tostack"}
RANK_SHAPES = [s for r in range(0, 4) for s in __import__("itertools").product([1, 2, 3], repeat=r)] + [(0,), (2, 0), (0, 2), (4,), (2, 4)]


# the state no longer follows the proxy after these: the history stops
FATAL = ("batch-size", "get", "entry-batch-size", "tolist-raises", "tolist-nesting", "tolist-content")


def entry_kind(td):
    e = call(lambda: td.get("s"))
    if e[0] != "ok":
        return "?"
    return {NonTensorData: "shared", NonTensorStack: "stack"}.get(type(e[1]), type(e[1]).__name__)


def mask_rank(op):
    if op and op[0] in ("index", "setitem", "set_at", "setitem_same"):
        return max([len(c03.shape_of(d[1])) for d in op[1] if d[0] in ("mask", "npmask")] + [0])
    return 0


def rep_depth(r):
    """nesting depth of stacks in a representation (0 = shared)"""
    if not r or r[0] != "K":
        return 0
    return 1 + max([rep_depth(m) for m in r[2]] + [0])


def signature(label, op, st_before_kind, container, extra=None, st=None):
    """the decidable pattern of a failure: which check, which operation on which kind of entry / container, and the
    input patterns that identify the known defects"""
    sig = {"check": label.split(":")[0], "op": op[0] if op else "build", "entry": st_before_kind, "container": container}
    if st is not None:
        ref = st.want if st.want is not None else st.pos
        sig["zero_elements"] = bool(ref is not None and ref.numel() == 0) or bool(st.pos is not None and st.pos.numel() == 0)
    if op is not None and st is not None:
        sig.update(st.region)
        sig["mask_branch"] = bool(st.region_step.get("mask_branch"))      # of this step only
        sig["mask_branch_raises"] = bool(sig["mask_branch"] and sig["check"] == "raises"
                                         and (extra or {}).get("exception") in ("RuntimeError", "ValueError"))
    if st is not None and st.td is not None:
        ra = call(lambda: rep(st.td.get("s"), st.pl))
        sig["nested_stack_after"] = bool(ra[0] == "ok" and rep_depth(ra[1]) >= 2)
    if extra:
        sig.update(extra)
    return sig


def new_case(rng, allow=None, nops=None, bs=None, avoid=False):
    bs = list(bs if bs is not None else rng.choice(RANK_SHAPES))
    pseed = rng.randrange(1 << 30)
    return {"pseed": pseed, "bs": bs, "assign": None, "plan": None, "ops": [], "allow": sorted(allow or ALL_OPS), "avoid": avoid,
            "nops": nops if nops is not None else rng.choice([1, 2, 3, 3, 4, 5, 6])}


def run_history(case, rng=None, trace=None, probe=None):
    """execute (and, when [rng] is given and the case has no ops yet, generate) a history.
    Returns failures: list of dict(label, detail, sig, step).  [trace] collects (step, op, rep_before, rep_after, info)."""
    import random
    st = State(None, case["pseed"], IDENT_POOL if case.get("pool") == "ident" else None)
    gen = rng is not None and not case.get("frozen")
    fails = []
    try:
        if gen:
            g = random.Random(case["pseed"] + 1)
            assign, akind = gen_assign(g, tuple(case["bs"]), g.choice([1, 2, 2, 3]), len(st.pl.pool))
            case["assign"], case["plan"] = assign, gen_build(g, tuple(case["bs"]), assign)
        b = call(lambda: build_td(None, case["bs"], st.pl, st.ids, assign=case["assign"], plan=case["plan"]))
        if b[0] != "ok":
            fails.append({"label": "build:raises", "detail": {"exception": b[1]}, "sig": signature("build", None, "-", "-"), "step": -1})
            return fails
        st.td, st.pos, _ = b[1]
        prng = random.Random(case["pseed"] + 2)
        for lab, det in check_state(st, prng):
            fails.append({"label": "build:" + lab, "detail": det, "sig": signature(lab, None, entry_kind(st.td), type(st.td).__name__, None, st), "step": -1})
        if any(f["label"].split(":")[1] in FATAL for f in fails):
            return fails
        i = 0
        while i < (case["nops"] if gen else len(case["ops"])):
            if gen:
                op = gen_op(rng, st, set(case["allow"]), case.get("avoid", False))
                case["ops"].append(op)
            else:
                op = case["ops"][i]
            i += 1
            kind_before = entry_kind(st.td)
            cont = type(st.td).__name__
            bs_before = list(st.pos.shape)
            rb = call(lambda: rep(st.td.get("s"), st.pl))
            st.depth_before = rep_depth(rb[1]) if rb[0] == "ok" else 0
            # sticky: once a history went through the input region of a recorded finding, later failures are attributed to it
            region_step = in_defect_region(op, st, kind_before, st.depth_before)
            st.region_step = region_step
            st.region = dict(st.region, **{a: b for a, b in region_step.items() if a != "mask_branch"})
            status, info = apply_op(st, op)
            if trace is not None:
                ra = call(lambda: rep(st.td.get("s"), st.pl))
                obs = {}
                if status == "ok":
                    tl = call(lambda: st.td.get("s").tolist())
                    gn = call(lambda: st.td.get_non_tensor("s"))
                    shp = list(st.pos.shape)
                    obs = {"tolist": to_cids(tl[1], st.pl, shp) if tl[0] == "ok" else "raise",
                           "gnt": to_cids(gn[1], st.pl, shp, True) if gn[0] == "ok" else "raise",
                           "want": expected_flat(st), "shape": list(st.pos.shape)}
                    if op[0] == "to_dict":
                        dd = call(lambda: st.td.to_dict())
                        obs["to_dict"] = (to_cids(dd[1].get("s"), st.pl, shp, True) if dd[0] == "ok" and isinstance(dd[1], dict) else "raise")
                trace.append({"step": i - 1, "op": op, "before": rb[1] if rb[0] == "ok" else None,
                              "after": ra[1] if ra[0] == "ok" else None, "status": status, "bs_before": bs_before,
                              "container": cont, "container_after": type(st.td).__name__, "aux": dict(st.aux),
                              "region": dict(st.region), "region_step": region_step, "obs": obs,
                              "want_numel": int(st.want.numel()) if st.want is not None else None})
            if status == "invalid":
                continue
            if status in ("raise", "raise!"):
                fails.append({"label": f"{op[0]}:valid-operation-raises", "detail": {"exception": info, "step": i - 1},
                              "sig": signature("raises", op, kind_before, cont, {"exception": info}, st), "step": i - 1})
                if status == "raise!":
                    break
                continue
            bad = check_state(st, prng)
            if op[0] == "to_dict":
                bad += check_to_dict(st)
            if op[0] == "cat" and st.aux.get("entry_cat") is not None and st.pos.numel():
                ec = st.aux["entry_cat"]
                wantc = [st.pl.canon[c] for c in expected_flat(st)]
                if ec[0] != "ok":
                    bad.append(("entry-cat-raises", {"exception": ec[1], "operands": st.aux.get("operands")}))
                elif ec[2] != list(st.pos.shape) or ec[3] != wantc:
                    bad.append(("entry-cat-content", {"operands": st.aux.get("operands"), "batch_size": ec[2], "want": wantc[:16], "got": ec[3] and ec[3][:16]}))
            if op[0] == "setitem_same" and cont == "TensorDict" and rb[0] == "ok" and not st.region:
                ra2 = call(lambda: rep(st.td.get("s"), st.pl))
                if ra2[0] == "ok" and ra2[1] != rb[1]:
                    # all positions still agree with what was there: the representation (shared object / stack) must not change
                    bad.append(("representation-changed-by-equal-write", {"before": rb[1], "after": ra2[1]}))
            for lab, det in bad:
                fails.append({"label": f"{op[0]}:{lab}", "detail": det, "sig": signature(lab, op, kind_before, cont, None, st), "step": i - 1})
            if any(lab in FATAL for lab, _ in bad):
                break
            if op[0] == "memmap":
                if gen:
                    case["nops"] = i
                break   # a loaded tensordict carries device / lock metadata that is C10's business: the history ends here
        if probe is not None and not any(f["label"].split(":")[1] in FATAL or "raises" in f["label"] for f in fails):
            import random as _r
            pf = call(lambda: probe_entry(st, _r.Random(case["pseed"] + 3), probe))
            if pf[0] == "ok":
                for lab, det in pf[1]:
                    fails.append({"label": lab, "detail": det, "sig": {"check": lab.split(":")[1], "op": lab.split(":")[0], "probe": True,
                                                                    "partly_expanded_stack": bool(det.get("entry") and det["entry"][0] == "K" and not fully_expanded(det["entry"]))},
                                  "step": len(case["ops"]) - 1})
    finally:
        st.cleanup()
    if gen:
        case["frozen"] = True
    return fails


# ------------------------------------------------------------------ shrinking a failing history
def same_failure(case, label):
    c = json.loads(json.dumps(case))
    c["frozen"] = True
    try:
        fails = run_history(c)
    except EXC:
        return None
    for f in fails:
        if f["label"] == label:
            return f
    return None


def shrink(case, label, budget=60):
    """greedy delta-debugging: drop operations, simplify operands and indices while the same check still fails"""
    best = json.loads(json.dumps(case))
    best["frozen"] = True
    n = 0

    def attempt(c):
        nonlocal best, n
        n += 1
        if n > budget:
            return False
        if same_failure(c, label) is not None:
            best = c
            return True
        return False

    changed = True
    while changed and n <= budget:
        changed = False
        # drop an operation (the last one is the failing one)
        for i in range(len(best["ops"]) - 1):
            c = json.loads(json.dumps(best))
            del c["ops"][i]
            if attempt(c):
                changed = True
                break
        if changed:
            continue
        # truncate after the failing step
        # simplify the initial plan to a shared payload
        if best["plan"] and best["plan"][0] != "shared" and best["assign"]:
            c = json.loads(json.dumps(best))
            c["assign"] = [best["assign"][0]] * len(best["assign"])
            c["plan"] = ["shared", best["assign"][0]]
            if attempt(c):
                changed = True
                continue
        # drop index items of the failing op
        if best["ops"]:
            op = best["ops"][-1]
            if op[0] in ("index", "setitem", "set_at", "setitem_same") and len(op[1]) > 1:
                for j in range(len(op[1])):
                    c = json.loads(json.dumps(best))
                    del c["ops"][-1][1][j]
                    if attempt(c):
                        changed = True
                        break
    return best


# ------------------------------------------------------------------ entry-level probes (from_nontensordata, utils._set_item)
def gen_basic_idx(rng, bs):
    """ints / slices / one 1-d integer index without repeats, no None: a writable index for _set_item"""
    descs, adv = [], False
    for b in bs[: rng.randrange(1, len(bs) + 1)]:
        k = rng.choice(["int", "sl", "sl", "list"] if not adv else ["int", "sl", "sl"])
        if k == "int":
            descs.append(["int", rng.randrange(-b, b)])
        elif k == "sl":
            descs.append(["sl", rng.choice([None, 0, 1]), rng.choice([None, b, -1]), rng.choice([None, 1, 2])])
        else:
            m = rng.randrange(1, b + 1)
            descs.append(["list", rng.sample(range(b), m)])
            adv = True
    return descs


def probe_entry(st, rng, trace_out):
    """direct calls of the two promotion helpers on the current entry; returns failures (label, detail) and appends
    (label, protocol line, expected rep) for the model"""
    from tensordict.utils import _set_item
    fails = []
    td, pos, pl = st.td, st.pos, st.pl
    if type(td).__name__ != "TensorDict" or pos.numel() == 0 or pos.dim() == 0 or st.region:
        return fails
    e = call(lambda: td.get("s"))
    if e[0] != "ok":
        return fails
    e = e[1]
    r0 = rep(e, pl)
    if not rep_ok(r0):
        return fails
    shape = list(pos.shape)
    want = [pl.canon[c] for c in expected_flat(st)]
    if isinstance(e, NonTensorData):
        y = call(lambda: NonTensorStack.from_nontensordata(e))
        if y[0] != "ok":
            fails.append(("from_nontensordata:raises", {"exception": y[1], "entry": r0}))
        else:
            tl = call(lambda: flatten_to(y[1].tolist(), shape))
            got = [json.dumps(canon(o)) for o in tl[1]] if tl[0] == "ok" and tl[1] is not None else None
            if list(y[1].batch_size) != shape or got != want:
                fails.append(("from_nontensordata:content", {"entry": r0, "batch_size": list(y[1].batch_size), "got": got and got[:12]}))
            trace_out.append(("from_nontensordata", sx([Sym("from-ntd"), rep_sx(r0)]), rep(y[1], pl)))
    # NonTensorStack.from_list(nested list).tolist() is the nested list; to_dict of a tensordict holding it gives the payloads
    cids = expected_flat(st)
    if not any(pl.pool[c][0] == "list" for c in set(cids)):        # a list payload IS a nesting level for from_list
        nested_c = nest(list(cids), shape)

        def conv(x):
            return [conv(y_) for y_ in x] if isinstance(x, list) else pl.get(x)
        y = call(lambda: NonTensorStack.from_list(conv(nested_c)))
        if y[0] != "ok":
            fails.append(("from_list:raises", {"exception": y[1], "nested": nested_c}))
        else:
            tl = call(lambda: flatten_to(y[1].tolist(), shape))
            got = [json.dumps(canon(o)) for o in tl[1]] if tl[0] == "ok" and tl[1] is not None else None
            if list(y[1].batch_size) != shape or got != want:
                fails.append(("from_list:content", {"nested": nested_c, "batch_size": list(y[1].batch_size), "got": got and got[:12]}))
            dd = call(lambda: TensorDict({"s": y[1]}, batch_size=shape).to_dict())
            f2 = flatten_to(dd[1].get("s"), shape) if dd[0] == "ok" and isinstance(dd[1], dict) else None
            if f2 is None or [json.dumps(canon(o)) for o in f2] != want:
                fails.append(("from_list:to_dict", {"nested": nested_c, "got": repr(dd[1])[:200]}))
            trace_out.append(("from_list", sx([Sym("from-list"), nested_c]), rep(y[1], pl)))
    # _set_item
    descs = gen_basic_idx(rng, shape)
    idx = py_index(descs, False)
    tgt = call(lambda: pos[idx])
    if tgt[0] != "ok" or tgt[1].numel() == 0:
        return fails
    tshape = list(tgt[1].shape)
    cur_cids = expected_flat(st)
    cid = rng.choice([cur_cids[0], rng.randrange(len(pl.pool)), rng.randrange(len(pl.pool))])
    value = NonTensorData(pl.get(cid), batch_size=tshape)
    dest = e if isinstance(e, NonTensorData) else call(lambda: e.clone())[1]
    rd = rep(dest, pl)
    if has_alias(dest):
        return fails
    ids2 = torch.arange(pos.numel()).reshape(shape)
    mark = torch.zeros(shape, dtype=torch.bool)
    mark[idx] = True
    exp = [pl.canon[cid] if m else w for m, w in zip(mark.reshape(-1).tolist(), want)]
    out = call(lambda: _set_item(dest, idx, value, validated=True, non_blocking=False))
    case = {"entry": rd, "index": descs, "value": ["S", cid, tshape]}
    if out[0] != "ok":
        fails.append(("_set_item:raises", dict(case, exception=out[1])))
        return fails
    tl = call(lambda: flatten_to(out[1].tolist(), shape))
    got = [json.dumps(canon(o)) for o in tl[1]] if tl[0] == "ok" and tl[1] is not None else None
    if got != exp:
        fails.append(("_set_item:content", dict(case, want=exp[:16], got=got and got[:16])))
    trace_out.append(("_set_item", sx([Sym("set-item"), rep_sx(rd), idx_sx(descs), rep_sx(["S", cid, tshape])]), rep(out[1], pl)))
    return fails


# ------------------------------------------------------------------ streams
STREAMS = {
    # name: (allowed ops or None = all, avoid recorded defect regions, number of ops choices)
    "clean": (None, True, [1, 2, 3, 3, 4, 5, 6]),
    "raw": (None, False, [1, 1, 2, 2, 3]),
    "promote": ({"setitem", "set_at", "setitem_same", "index", "unbind", "tostack", "clone", "stack"}, True, [3, 4, 5, 6, 8]),
    "reads": ({"index", "unbind", "clone", "tostack", "pickle", "split", "chunk", "permute", "unsqueeze", "stack", "lazy_stack"}, True, [1, 2, 3]),
    # arbitrary objects with IDENTITY equality (two copies are different objects): oracle only, the model's payload classes
    # are equality classes
    "ident": ({"index", "unbind", "clone", "tostack", "pickle", "split", "chunk", "permute", "unsqueeze", "stack", "lazy_stack",
               "setitem", "set_at", "update", "repeat", "to_dict"}, True, [1, 2, 3, 4]),
}


def run_stream(name, n, seed):
    """n histories of stream [name] from its own PRNG; returns (cases, failures, traces, counters)"""
    import random
    rng = random.Random(f"{seed}/{name}")
    allow, avoid, nopsc = STREAMS[name]
    cases, fails, traces, hist = [], [], [], {}
    for _ in range(n):
        case = new_case(rng, allow=allow, nops=rng.choice(nopsc), avoid=avoid)
        case["stream"] = name
        if name == "ident":
            case["pool"] = "ident"
        tr, pr = [], []
        fs = run_history(case, rng, trace=tr, probe=pr)
        if pr:
            tr.append({"probe_lines": pr, "op": ["probe"], "status": "probe", "before": None, "step": len(case["ops"])})
        cases.append(case)
        for f in fs:
            fails.append((case, f))
        traces.append(tr)
        for t in tr:
            hist["op:" + t["op"][0]] = hist.get("op:" + t["op"][0], 0) + 1
            hist["status:" + t["status"].rstrip("!")] = hist.get("status:" + t["status"].rstrip("!"), 0) + 1
            if t["before"] is not None:
                hist["entry:" + ("shared" if t["before"][0] == "S" else "stack-depth-%d" % rep_depth(t["before"]))] = \
                    hist.get("entry:" + ("shared" if t["before"][0] == "S" else "stack-depth-%d" % rep_depth(t["before"])), 0) + 1
        hist["rank:%d" % len(case["bs"])] = hist.get("rank:%d" % len(case["bs"]), 0) + 1
    return cases, fails, traces, hist


def _worker(args):
    torch.set_num_threads(1)
    return run_stream(*args)


def main(R):
    torch.set_num_threads(1)
    import warnings
    warnings.filterwarnings("ignore")
    R.rule = ("histories over a tensordict {x: position ids, s: non-tensor entry}: batch shapes of rank 0..3 over {1,2,3} (+ some 0 and 4), "
              "payload patterns constant / constant per slice / mostly constant / random / all distinct over a pool of 19 payloads (str, int, "
              "None, list, dict, tuple, bytes, user objects; identical object or equal copy per position), entry built as NonTensorData, "
              "nested torch.stack / lazy_stack / NonTensorStack along every dim, or _from_list; 1..8 operations: C03 indices with at most one "
              "advanced index, C02 shape ops, stack/cat/lazy_stack/unbind, indexed writes (tensordict / NonTensorData values, broadcast), "
              "write-back of the same values, update/update_/copy_, clone, maybe_to_stack, to_dict, pickle, memmap; a stream with identity-equal "
              "user objects (oracle only); distinct by the whole "
              "descriptor; non-trivial = at least one operation was accepted by torch on the proxy and the batch is not empty")
    R.assumptions = ["which positions an operation selects / combines is decided by torch on an integer tensor of position ids (pure torch, no tensordict)",
                     "payload equality is Python ==; the pool has no two distinct payloads that compare equal (no 1 / True / 1.0)",
                     "the histories avoid (stream 'clean') or deliberately enter (stream 'raw') the input regions of the recorded findings"]
    R.trusted = ["torch indexing / shape ops / stack / cat / setitem on an int64 tensor (the object-array proxy)",
                 "Spec/C16_ObjArray.v (index -> source position map) re-validated against torch on every generated index of this run",
                 "Model/C03_Index.gbs (+ Proofs/C03_IndexP.gbs_eq_torch_shape) reused for the batch size of an indexed NonTensorData",
                 "entry-level probes call tensordict.utils._set_item and NonTensorStack.from_nontensordata directly (internal API)"]
    R.step_prove()
    ok = R.step_driver()
    q = R.quick
    plan = [("clean", 1100 if q else 30000), ("raw", 900 if q else 24000), ("promote", 500 if q else 12000), ("reads", 700 if q else 16000),
            ("ident", 300 if q else 6000)]
    jobs = []
    for name, n in plan:
        shards = 1 if q else 16
        for s in range(shards):
            jobs.append((name, n // shards, f"{R.seed}/{R.rng.randrange(1 << 30)}/{s}"))
    if q:
        results = [_worker(j) for j in jobs]
    else:
        import multiprocessing as mp
        with mp.get_context("fork").Pool(16) as pool:
            results = pool.map(_worker, jobs)
    all_traces = []
    for (name, n, _), (cases, fails, traces, hist) in zip(jobs, results):
        for k, v in hist.items():
            R.count(k, v)
        failed_cases = {}
        for case, f in fails:
            failed_cases.setdefault(id(case), []).append(f)
        for ci, (case, tr) in enumerate(zip(cases, traces)):
            applied = sum(1 for t in tr if t["status"] == "ok")
            n_el = int(np.prod(case["bs"])) if case["bs"] else 1
            key = json.dumps([case["bs"], case["assign"], case["plan"], case["ops"]])
            R.case(key, nontrivial=applied >= 1 and n_el > 0,
                   sample={"stream": name, "bs": case["bs"], "plan": case["plan"], "ops": case["ops"][:3]} if ci % 977 == 0 else None)
            R.traces += 1
            R.count("stream:" + name)
            all_traces.append((case, tr))
        for case, f in fails:
            c = {k: case[k] for k in ("pseed", "bs", "assign", "plan", "ops", "stream", "pool") if k in case}
            c["ops"] = c["ops"][: f["step"] + 1] if f["step"] >= 0 else []
            R.oracle_fail(f["label"], c, f["detail"], f["sig"])
    R.extra["stated_not_proved"] = []
    if ok:
        check_model(R, all_traces)
    if R.extra.get("spec_mismatch"):
        raise RuntimeError(f"{R.extra['spec_mismatch']} SPEC-MISMATCH lines (machinery bug: Spec/C16_ObjArray disagrees with torch)")


def model_res(m):
    """parsed (ok x) | raised | out-of-model"""
    if isinstance(m, list) and m and m[0] == "ok":
        return "ok", m[1]
    return m, None


def tree_obs(t):
    return ["one", t] if isinstance(t, int) else ["list", t]


def norm_dim(d, rank_after):
    return d if d >= 0 else d + rank_after


def sop_sx(op):
    """the shape operation as the user spelled it (negative dims, -1 in targets), for the model's `shape-op`"""
    k = op[0]
    if k in ("view", "reshape", "expand", "repeat", "permute"):
        return [Sym(k), [int(v) for v in op[1]]]
    if k == "transpose":
        return [Sym("transpose"), int(op[1]), int(op[2])]
    if k == "squeeze":
        return Sym("squeeze-all") if op[1] is None else [Sym("squeeze"), int(op[1])]
    if k == "unsqueeze":
        return [Sym("unsqueeze"), int(op[1])]
    if k == "flatten":
        return [Sym("flatten"), int(op[1]), int(op[2])]
    if k == "unflatten":
        return [Sym("unflatten"), int(op[1]), [int(v) for v in op[2]]]
    if k == "repeat_interleave":
        return [Sym("repint"), int(op[1]), int(op[2])]
    return None


def model_lines_for(t, case):
    """protocol lines for one trace step: list of (label, line, expected observation, kind of comparison)"""
    out = []
    op, before, after, aux = t["op"], t["before"], t["after"], t["aux"]
    k = op[0]
    ok_before = before is not None and rep_ok(before)
    plain = t["container"] == "TensorDict" and t["container_after"] == "TensorDict"
    in_region = bool(in_region_static(t)) or 0 in t["bs_before"] or (t["obs"] and 0 in t["obs"]["shape"]) or t.get("want_numel") == 0
    if t["status"] == "ok" and after is not None and rep_ok(after) and t["obs"]:
        obs = t["obs"]
        n_el = int(np.prod(obs["shape"])) if obs["shape"] else 1
        if n_el > 0 and not t["region"]:
            # the model's own reading of the representation the code produced
            out.append(("denote", sx([Sym("denote-all"), rep_sx(after)]), obs["want"], "denote"))
            out.append(("tolist", sx([Sym("tolist"), rep_sx(after)]), obs["tolist"], "tree"))
            out.append(("get_non_tensor", sx([Sym("get-non-tensor"), rep_sx(after), NONE_ID]), obs["gnt"], "got"))
    so = sop_sx(op)
    if (so is not None and ok_before and before[0] == "K" and k in ("view", "reshape") and t["container"] == "TensorDict"
            and 0 not in t["bs_before"] and t.get("want_numel") != 0 and t["status"] in ("ok", "raise") and not case.get("pool")):
        # view / reshape of a NonTensorStack (finding C16-i inside the model): raises / payloads lost / self
        if t["status"] == "raise":
            out.append(("shape-op-on-stack", sx([Sym("shape-op"), so, rep_sx(before)]), "raised", "sres"))
        elif after is not None and after[0] == "?":
            out.append(("shape-op-on-stack", sx([Sym("shape-op"), so, rep_sx(before)]), ["lost", list(t["obs"]["shape"])], "sres"))
        elif after is not None and rep_ok(after):
            out.append(("shape-op-on-stack", sx([Sym("shape-op"), so, rep_sx(before)]), after, "sres"))
    if not (ok_before and plain) or t["status"] != "ok" or after is None or not rep_ok(after) or in_region:
        return out
    r_before = len(t["bs_before"])
    if so is not None and before[0] == "S":
        # a NonTensorData: the op as spelled goes through C02's model of the code on a tensordict without entries
        out.append(("shape-op", sx([Sym("shape-op"), so, rep_sx(before)]), after, "sres"))
    if k == "index":
        descs = expand_ellipsis(op[1], r_before)
        if descs:
            out.append(("index", sx([Sym("index"), rep_sx(before), idx_sx(descs)]), after, "rep"))
    elif k == "unbind":
        out.append(("unbind", sx([Sym("select"), op[2], norm_dim(op[1], r_before), rep_sx(before)]), after, "rep"))
    elif k in ("stack", "lazy_stack") and aux.get("operands") and all(rep_ok(o) for o in aux["operands"]):
        if all(c == "TensorDict" for c in aux.get("containers", [])):
            d = op[1] if op[1] >= 0 else op[1] + r_before + 1
            cmd = "stack" if k == "stack" else "lazy-stack"
            out.append((k, sx([Sym(cmd), [rep_sx(o) for o in aux["operands"]], d]), after, "rep"))
    elif k == "clone":
        out.append(("clone", sx([Sym("index"), rep_sx(before), []]), after, "rep"))
    elif k == "tostack":
        out.append(("maybe_to_stack", sx([Sym("to-stack"), rep_sx(before)]), after, "rep"))
        if before[0] == "S":
            out.append(("from_nontensordata", sx([Sym("from-ntd"), rep_sx(before)]), after, "rep"))
    elif k == "set_at" and op[5] == "update_at_" and not op[1] and not op[2] and aux.get("value_exp") is not None:
        # update_at_(td, ()) is update_(td)
        out.append(("update_at_()", sx([Sym("update-in"), rep_sx(before), rep_sx(aux["value_exp"])]), after, "rep"))
    elif k in ("setitem", "set_at") and aux.get("value") is not None and rep_ok(aux["value"]):
        descs = expand_ellipsis(op[1], r_before)
        out.append(("set_at", sx([Sym("set-at"), rep_sx(before), idx_sx(descs), rep_sx(aux["value"]), rep_sx(aux["value_exp"])]), after, "rep"))
    elif k == "setitem_same":
        out.append(("set_at-same", sx([Sym("index"), rep_sx(before), []]), after, "rep"))
    elif k == "update" and op[1] == "update" and aux.get("value") is not None:
        out.append(("update", sx([Sym("index"), rep_sx(aux["value"]), []]), after, "rep"))
    elif k == "update" and op[1] in ("update-inplace", "update_", "copy_") and aux.get("value") is not None and rep_ok(aux["value"]):
        out.append(("update-inplace", sx([Sym("update-in"), rep_sx(before), rep_sx(aux["value"])]), after, "rep"))
    elif before[0] == "S" and k in ("view", "reshape", "flatten", "unflatten"):
        out.append((k, sx([Sym("reshape"), rep_sx(before), list(t["obs"]["shape"])]), after, "rep"))
    elif before[0] == "S" and k == "permute":
        out.append((k, sx([Sym("permute"), rep_sx(before), [p % r_before for p in op[1]]]), after, "rep"))
    elif before[0] == "S" and k == "transpose":
        perm = list(range(r_before))
        a, b = op[1] % r_before, op[2] % r_before
        perm[a], perm[b] = perm[b], perm[a]
        out.append((k, sx([Sym("permute"), rep_sx(before), perm]), after, "rep"))
    elif before[0] == "S" and k == "unsqueeze":
        out.append((k, sx([Sym("unsqueeze"), rep_sx(before), op[1] if op[1] >= 0 else op[1] + r_before + 1]), after, "rep"))
    elif before[0] == "S" and k == "squeeze" and op[1] is not None:
        out.append((k, sx([Sym("squeeze"), rep_sx(before), op[1] % r_before]), after, "rep"))
    elif before[0] == "S" and k == "expand":
        out.append((k, sx([Sym("expand"), rep_sx(before), list(op[1])]), after, "rep"))
    elif k == "cat" and aux.get("operands") and all(rep_ok(o) for o in aux["operands"]) and all(c == "TensorDict" for c in aux.get("containers", [])):
        out.append((k, sx([Sym("cat"), [rep_sx(o) for o in aux["operands"]], op[1] % r_before]), after, "rep"))
        ec = aux.get("entry_cat")
        if ec is not None and (ec[0] != "ok" or rep_ok(ec[1])):
            out.append(("entry-cat", sx([Sym("cat-entries"), [rep_sx(o) for o in aux["operands"]], op[1] % r_before]),
                        ec[1] if ec[0] == "ok" else "raised", "rep"))
    elif k == "to_dict":
        td_obs = t["obs"].get("to_dict")
        if td_obs is not None:
            out.append((k, sx([Sym("to-dict"), rep_sx(before)]), td_obs, "got-or-raise"))
    return out


def in_region_static(t):
    """region flags of THIS step only (the sticky ones of earlier steps taint the oracle's attribution, not the model's input,
    which is the real representation before the step); cat of NonTensorData and to_dict are modelled with their defects"""
    return dict(t.get("region_step", {}))


def spec_lines_for(t):
    """the spec's position map of an index against torch's, on the proxy shape (validation of Spec/C16_ObjArray)"""
    op = t["op"]
    if op[0] not in ("index", "setitem", "set_at", "setitem_same") or t["status"] == "invalid":
        return []
    bs = t["bs_before"]
    descs = expand_ellipsis(op[1], len(bs))
    if not descs or 0 in bs:
        return []
    n = int(np.prod(bs)) if bs else 1
    src = torch.arange(n, dtype=torch.int64).reshape(bs)
    want = call(lambda: src[py_index(op[1], op[2])])
    if want[0] != "ok" or want[1].numel() == 0:
        return []      # (torch checks the values of an integer index lazily: not at all when nothing is selected)
    return [("spec", sx([Sym("src-all"), idx_sx(descs), list(bs)]), [list(want[1].shape), want[1].reshape(-1).tolist(), list(bs)], "spec")]


def check_model(R, all_traces):
    items = []
    seen_spec = set()
    for case, tr in all_traces:
        if case.get("pool") == "ident":
            continue
        for t in tr:
            if "probe_lines" in t:
                for (label, line, want) in t["probe_lines"]:
                    items.append((label, line, want, "rep", case, t))
                continue
            for (label, line, want, kind) in model_lines_for(t, case):
                items.append((label, line, want, kind, case, t))
            for it in spec_lines_for(t):
                if it[1] not in seen_spec:
                    seen_spec.add(it[1])
                    items.append(it + (case, t))
    if not items:
        return
    res = R.model([it[1] for it in items], shards=8 if not R.quick else 4)
    for (label, line, want, kind, case, t), m in zip(items, res):
        R.count("model:" + label)
        status, val = model_res(m)
        c = {"op": t["op"], "step": t["step"], "entry_before": t["before"], "line": line[:2000],
             "case": {k: case[k] for k in ("pseed", "bs", "assign", "plan")}, "ops": case["ops"][: t["step"] + 1]}
        if kind == "spec":
            shape, flat, bs = want
            ok_ = isinstance(m, list) and m and m[0] == "some"
            got_shape = m[1][0] if ok_ else None
            got_flat = None
            if ok_:
                got_flat = [int(np.ravel_multi_index(tuple(x[1]), bs)) if (isinstance(x, list) and x and x[0] == "some" and bs) else
                            (0 if isinstance(x, list) and x and x[0] == "some" else None) for x in m[1][1]]
            if got_shape != shape or got_flat != flat:
                R.extra["spec_mismatch"] = R.extra.get("spec_mismatch", 0) + 1
                if R.extra["spec_mismatch"] <= 5:
                    print(f"SPEC-MISMATCH C16_ObjArray op={json.dumps(t['op'][:3])} bs={bs}: torch {shape} {flat[:12]} spec {got_shape} {str(got_flat)[:80]}")
            continue
        if kind == "denote":
            got = m[1] if isinstance(m, list) and m and m[0] == "some" else None
            got = [x[1] if isinstance(x, list) else None for x in got] if got is not None else None
            if got != want:
                R.mismatch("denote(rep of the entry) vs proxy", c, want, got)
            continue
        if status == "out-of-model":
            R.count("model:out-of-model")
            continue
        # distribution of the correspondence lines this round added (answered by the model, not out-of-model)
        if label == "index" and any(d[0] in ("mask", "npmask") for d in t["op"][1]) and t["before"][0] == "K":
            R.count("model:index-1d-mask-on-stack" + ("-with-other-items" if len(expand_ellipsis(t["op"][1], len(t["bs_before"]))) > 1 else ""))
        if label == "set_at" and any(d[0] == "non" for d in t["op"][1]):
            R.count("model:set_at-with-None")
        if label in ("update-inplace", "update_at_()") and t["before"][0] == "K" and not fully_expanded(t["before"]):
            R.count("model:update-inplace-partly-expanded-stack")
        if kind == "sres":
            if status == "ok":
                got = unsx_rep(val)
            elif m == "reorganised":
                # the model says the lazy stack is reorganised (its content is the oracle's business): the call must neither raise
                # nor lose the payloads
                R.count("model:shape-op-on-stack:reorganised")
                if want == "raised" or (isinstance(want, list) and want and want[0] == "lost"):
                    R.mismatch(label, c, want, "reorganised")
                continue
            elif isinstance(m, list) and m and m[0] == "lost":
                got = ["lost", list(m[1])]
            else:
                got = status
            R.count("model:%s:%s" % (label, t["op"][0]))
            if label == "shape-op-on-stack":
                R.count("model:shape-op-on-stack:" + (got if isinstance(got, str) else "lost" if got[0] == "lost" else "self"))
            if got != want:
                R.mismatch(label, c, want, got)
            continue
        if kind == "rep":
            got = unsx_rep(val) if status == "ok" else status
            if got != want:
                R.mismatch(label, c, want, got)
        elif kind == "tree":
            got = tree_obs(val) if status == "ok" else status
            if got != want:
                R.mismatch(label, c, want, got)
        elif kind == "got":
            got = [val[0], val[1]] if status == "ok" else status
            if isinstance(got, list) and got[0] == "list" and isinstance(got[1], int):
                got = ["one", got[1]]      # rank 0: the nested list IS the payload
            if got != want:
                R.mismatch(label, c, want, got)
        elif kind == "got-or-raise":
            got = [val[0], val[1]] if status == "ok" else "raise"
            if got != want:
                R.mismatch(label, c, want, got)


def replay(body):
    import warnings
    warnings.filterwarnings("ignore")
    torch.set_num_threads(1)
    case = dict(body["case"])
    case["frozen"] = True
    case.setdefault("allow", sorted(ALL_OPS))
    print("case:", json.dumps({k: case[k] for k in ("bs", "assign", "plan")}))
    pool = IDENT_POOL if case.get("pool") == "ident" else POOL
    print("payload pool:", {i: pool[i] for i in sorted(set(case["assign"] or []))})
    tr = []
    fails = run_history(case, trace=tr)
    for t in tr:
        print(f"step {t['step']}: {json.dumps(t['op'])}\n   status {t['status']}\n   entry before {json.dumps(t['before'])}\n   entry after  {json.dumps(t['after'])}")
    print("oracle (object-array proxy):", "no failure" if not fails else "")
    for f in fails:
        print("  FAIL", f["label"], json.dumps(f["detail"])[:600], "\n       signature", json.dumps(f["sig"]))
    if case.get("pool") != "ident":
        from .core import build_driver, run_model
        ok, _ = build_driver("C16")
        if ok:
            for t in tr:
                items = model_lines_for(t, case) if "probe_lines" not in t else []
                if not items:
                    continue
                res = run_model("C16", [it[1] for it in items])
                for (label, line, want, kind), m in zip(items, res):
                    print(f"model step {t['step']} {label}: model {json.dumps(m)[:300]}\n      implementation/proxy {json.dumps(want)[:300]}")
    return 0
