"""C20 — implementation side: abstract cases -> real tensordict objects, the injective hash-combine test function,
canonical observation of results / operands (keys in order, values, metadata, identity classes), and a deterministic
executor standing in for ThreadPoolExecutor.

Abstract trees (JSON):   ["L", z]  |  ["T", z, payload, meta]  |  ["N", z, meta, [[key, tree], ...]]
meta = [batch_size, device ("cpu"/"meta"/None), names (list or None), locked]
Every entry has a unique id z (a multiple of 8; in a lazy stack member i of an entry has id z + i).
The tensor of leaf z under batch shape bs is  z*64 + arange(numel(bs)).reshape(bs + (1,))   (small integers, exact)."""
import concurrent.futures as cf
import contextlib

import torch
from tensordict import TensorDict, NonTensorData, LazyStackedTensorDict, lazy_stack, TensorDictParams, tensorclass
from tensordict.base import _is_leaf_nontensor, is_tensor_collection
from tensordict.utils import is_non_tensor
import tensordict.base as TB
import tensordict._td as TT
import tensordict._lazy as TL

P = (1 << 31) - 1
M1 = 1000003
DFLT = "DFLT"          # the default= object handed to apply (a str: distinguishable from the None used internally)


# ------------------------------------------------------------------ abstract trees
def kind(t):
    return t[0]


def meta_of(t):
    return t[3] if t[0] == "T" else t[2]


def ents(t):
    return t[3]


def numel(bs):
    n = 1
    for b in bs:
        n *= b
    return n


def leaf_tensor(z, bs, dtype=torch.int64):
    return (z * 64 + torch.arange(numel(bs), dtype=torch.int64)).reshape(*bs, 1).to(dtype)


def walk(t, path=()):
    """(path, entry) for the node itself and everything below, pre-order"""
    yield path, t
    if t[0] == "N":
        for k, c in t[3]:
            yield from walk(c, path + (k,))


def tree_is_empty(t):
    return all(e[0] == "N" for _, e in walk(t))


def keyhash(key):
    if key is None:
        return 3
    h = 5
    if isinstance(key, str):
        key = (key,)
    elif len(key) == 1:
        h = 11            # a one-element tuple is not the string (the first level is documented to receive the string)
    for part in key:
        for ch in part:
            h = (h * 131 + ord(ch)) % P
        h = (h * 131 + 47) % P
    return h


def entry_code(kh, c):
    return ((kh * 1000003) % P * 31 + c * 37 + 11) % P


def abs_code(t):
    """the scalar code of an abstract entry seen as an argument of fn (first element for tensors)"""
    if t is None:
        return 7
    if t[0] == "L":
        return t[1] * 64
    if t[0] == "T":
        return 11 + 13 * t[2]
    # order-independent (a dense stack / unbind may re-order the keys of a node that is handed to fn as an argument)
    h = 17
    for k, c in t[3]:
        h = (h + entry_code(keyhash(k), abs_code(c))) % P
    return h


def real_code(x):
    """the code of a real argument of fn: an int64 tensor for tensors, a python int otherwise"""
    if isinstance(x, str) and x == DFLT:
        return 7
    if x is None:
        return 9          # never a legitimate argument: the default object of the harness is DFLT
    if isinstance(x, torch.Tensor):
        return x.detach().to(torch.int64)
    if is_non_tensor(x):
        return 11 + 13 * int(x.data)
    if is_tensor_collection(x):
        h = 17
        for k, v in x.items():
            c = real_code(v)
            if isinstance(c, torch.Tensor):
                c = int(c.reshape(-1)[0])
            h = (h + entry_code(keyhash(k), c)) % P
        return h
    raise TypeError(f"fn received {type(x).__name__}")


def combine(key, codes):
    h = keyhash(key)
    for i, c in enumerate(codes):
        h = (h * M1 + c + i + 1) % P
    return h


def make_fn(named, none_pids, none_codes, log=None, variant="fresh"):
    """fn(key?, item, *others): injective (mod 2^31-1) elementwise hash of the key and the arguments; None for the
    entries chosen by the case (tensor / non-tensor entries by id, nodes by their structural code).
    variant (tensor items only): "fresh" returns a new tensor; "ident" returns its argument untouched; "mutate" writes
    the hash into its argument in place and returns the argument; "mutate_none" writes it and returns None"""
    def fn(*a):
        if named:
            key, item, others = a[0], a[1], a[2:]
        else:
            key, item, others = None, a[0], a[1:]
        if isinstance(item, torch.Tensor):
            tag = int(item.detach().reshape(-1)[0]) // 512
            isnone = tag in none_pids
        elif is_non_tensor(item):
            isnone = int(item.data) in none_pids
        else:
            isnone = real_code(item) in none_codes
        if log is not None:
            log.append(key if not isinstance(key, tuple) else list(key))
        if isnone:
            return None
        if variant == "ident" and isinstance(item, torch.Tensor):
            return item
        codes = [real_code(item)] + [real_code(x) for x in others]
        h = combine(key, codes)
        if isinstance(h, torch.Tensor):
            if isinstance(item, torch.Tensor):
                h = h.to(item.dtype)
                if variant in ("mutate", "mutate_none") and h.shape == item.shape:
                    item.copy_(h)
                    return item if variant == "mutate" else None
            return h.clone()
        bs = tuple(item.batch_size) if hasattr(item, "batch_size") else ()
        return torch.full(bs + (1,), h, dtype=torch.int64)
    return fn


# ------------------------------------------------------------------ building real objects
def dev_of(d):
    return None if d is None else torch.device(d)


class Built:
    """a real object built from an abstract tree + the identity maps of its nodes and leaf storages"""
    def __init__(self):
        self.objs = {}     # id(python object) -> z   (nodes, non-tensor entries)
        self.ptrs = {}     # storage data_ptr -> z    (leaves)
        self.keep = []     # keeps every object alive so that id() / data_ptr() are never reused during a case


def build_td(t, B, dtype=torch.int64, role_offset=0):
    """regular TensorDict for an abstract node (nested nodes are TensorDicts, T entries NonTensorData)"""
    bs, dv, names, locked = t[2]
    src = {}
    for k, c in t[3]:
        src[k] = build_entry(c, bs, B, dtype)
    td = TensorDict._new_unsafe(src, batch_size=torch.Size(bs), device=dev_of(dv), names=list(names) if names is not None else None)
    B.objs[id(td)] = t[1]
    B.keep.append(td)
    return td


def build_entry(c, parent_bs, B, dtype):
    if c[0] == "L":
        x = leaf_tensor(c[1], parent_bs, dtype)
        B.ptrs[x.untyped_storage().data_ptr()] = c[1]
        B.keep.append(x)
        return x
    if c[0] == "T":
        bs, dv, names, locked = c[3]
        nt = NonTensorData(data=c[2], batch_size=torch.Size(bs), device=dev_of(dv), names=list(names) if names is not None else None)
        B.objs[id(nt)] = c[1]
        B.keep.append(nt)
        return nt
    return build_td(c, B, dtype)


def apply_locks(td, t):
    """lock state of the abstract tree (a locked root locks everything below, as lock_() does)"""
    if t[2][3]:
        td.lock_()
    else:
        for k, c in t[3]:
            if c[0] == "N" and c[2][3]:
                sub = td._get_str(k, None)
                sub.lock_()
            elif c[0] == "N":
                apply_locks(td._get_str(k, None), c)


_TC_CACHE = {}


def tc_class(fields):
    fields = tuple(fields)
    if fields not in _TC_CACHE:
        ns = {"__annotations__": {f: "object" for f in fields}}
        for f in fields:
            ns[f] = None
        cls = type("TC_" + "_".join(fields), (), ns)
        _TC_CACHE[fields] = tensorclass(cls)
    return _TC_CACHE[fields]


def build_operand(t, kindname, B, role="self"):
    """real object for an abstract operand under a container kind"""
    if kindname in ("regular", "alias"):
        td = build_td(t, B)
        apply_locks(td, t)
        return td
    if kindname == "params":
        td = build_td(t, B, dtype=torch.float64)
        if role != "self":
            apply_locks(td, t)
            return td
        p = TensorDictParams(td, no_convert=False)
        B.keep.append(p)
        return p
    if kindname == "tc":
        td = build_td(t, B)
        if role != "self":
            apply_locks(td, t)
            return td
        cls = tc_class([k for k, _ in t[3]])
        tc = cls._from_tensordict(td)
        apply_locks(td, t)
        B.keep.append(tc)
        return tc
    if kindname == "sub":
        td = build_td(t, B)
        if role != "self":
            apply_locks(td, t)
            return td
        ik = getattr(B, "sub_index", "int")
        junk = td.apply(lambda x: x * 0 - 1)
        bs = list(t[2][0])
        if ik == "int" or not bs:
            # a parent with one more leading dim of size 2 whose row 0 is the abstract tree
            parent = torch.stack([td, junk], 0).contiguous()
            idx, B.junk_idx = 0, 1
        else:
            # a parent with twice as many rows along dim 0: the even rows are the abstract tree, the odd rows junk; the index
            # picks the even rows as a slice (views) or as a list / integer tensor / boolean mask (gathered copies)
            n = bs[0]
            parent = torch.stack([td, junk], 1).reshape(2 * n, *bs[1:]).contiguous()
            rows = list(range(0, 2 * n, 2))
            idx = {"slice": slice(0, 2 * n, 2), "list": rows, "tensor": torch.tensor(rows),
                   "mask": torch.tensor([i % 2 == 0 for i in range(2 * n)])}[ik]
            B.junk_idx = slice(1, 2 * n, 2)
        # identity maps refer to the parent's storages now
        for (path, e) in walk(t):
            if e[0] == "L":
                x = parent.get(path)
                B.ptrs[x.untyped_storage().data_ptr()] = e[1]
        B.keep.append(parent)
        sub = parent._get_sub_tensordict(idx)
        B.keep.append(sub)
        B.parent = parent
        if t[2][3]:
            parent.lock_()
        return sub
    raise ValueError(kindname)


LAZY_SELF_ID = 7          # the object id of the lazy stack itself (entries have ids 8k + member index)


def build_lazy_other(members, rep, B, sd=0):
    """another operand of a lazy-stack self, given by its slices along self's stack dim sd, in a chosen representation:
    ["lazy", d] a lazy stack along batch dim d (d = sd: like self, the members themselves; d != sd: the same content stacked
    lazily along another dim), ["regular"] a dense TensorDict, ["tc"] a tensorclass.  Whatever the representation, slice i
    along dim sd is member i."""
    if rep[0] == "lazy" and rep[1] == sd:
        return build_lazy(members, B, sd)
    tds = [build_td(m, B) for m in members]
    dense = torch.stack(tds, sd).contiguous()
    for (path, e) in walk(members[0]):
        if e[0] == "L":
            B.ptrs[dense.get(path).untyped_storage().data_ptr()] = e[1]
    B.keep.append(dense)
    locked = members[0][2][3]
    if rep[0] == "regular":
        out = dense
    elif rep[0] == "tc":
        cls = tc_class([k for k, _ in members[0][3]])
        out = cls._from_tensordict(dense)
    else:
        d = rep[1]
        out = LazyStackedTensorDict.lazy_stack(list(dense.unbind(d)), d)
    B.keep.append(out)
    if locked:
        out.lock_()
    return out


def build_lazy(members, B, sd=0, name=None, ident_=None):
    tds = []
    for m in members:
        td = build_td(m, B)
        apply_locks(td, m)
        tds.append(td)
    ls = LazyStackedTensorDict(*tds, stack_dim=sd, stack_dim_name=name)
    if ident_ is not None:
        B.objs[id(ls)] = ident_
    B.keep.append(ls)
    return ls


def build_lazy_out(members, rep, B, sd=0):
    """out= of a call on a lazy stack: "lazy" a lazy stack along sd, "short" one with a member less, "tc" a lazily stacked
    tensorclass (a tensorclass around a lazy stack), "other" a dense TensorDict"""
    if rep == "short":
        members = members[:-1]
    if rep in ("lazy", "short"):
        return build_lazy(members, B, sd)
    tds = []
    for m in members:
        td = build_td(m, B)
        apply_locks(td, m)
        tds.append(td)
    if rep == "other":
        out = torch.stack(tds, sd).contiguous()
    else:
        cls = tc_class([k for k, _ in members[0][3]])
        out = LazyStackedTensorDict.lazy_stack([cls._from_tensordict(td) for td in tds], sd)
    B.keep.append(out)
    return out


# ------------------------------------------------------------------ canonical observation
def meta_obs(td):
    try:
        dv = td.device
    except Exception:  # noqa: BLE001
        dv = "?"
    return [list(td.batch_size), None if dv is None else str(dv).split(":")[0],
            (list(td.names) if td._has_names() else None), bool(td.is_locked)]


def ident(B, x):
    z = B.objs.get(id(x))
    return "new" if z is None else ["o", z]


def sto(B, x):
    try:
        z = B.ptrs.get(x.untyped_storage().data_ptr())
    except Exception:  # noqa: BLE001
        z = None
    return "new" if z is None else ["o", z]


def obs(x, B, seen=None, with_ident=True, light=False):
    """canonical form of a real tensordict-like object; 'cyclic' when a node contains itself.
    light: leaves as (storage, version counter) instead of values — enough to see whether anything was written"""
    if x is None:
        return None
    seen = seen or ()
    if isinstance(x, torch.Tensor):
        if light:
            return ["L", sto(B, x), ["v", x._version, x.data_ptr()]]
        if x.device.type == "meta":
            return ["L", sto(B, x) if with_ident else "-", ["meta", list(x.shape)]]
        return ["L", sto(B, x) if with_ident else "-", x.detach().to(torch.int64).reshape(-1).tolist()]
    if is_non_tensor(x) and not isinstance(x, LazyStackedTensorDict):
        return ["T", ident(B, x) if with_ident else "-", int(x.data), meta_obs(x)]
    if id(x) in seen:
        return "cyclic"
    if isinstance(x, LazyStackedTensorDict):
        # a lazy stack is observed as its members, side by side
        try:
            m = meta_obs(x)
        except Exception:  # noqa: BLE001
            m = ["?", None, None, False]
        return ["N", ident(B, x) if with_ident else "-", m,
                [["#%d" % i, obs(t, B, seen + (id(x),), with_ident, light)] for i, t in enumerate(x.tensordicts)]]
    td = x
    if hasattr(x, "_tensordict") and not isinstance(x, (TensorDict, LazyStackedTensorDict, TensorDictParams)):
        td = x._tensordict          # tensorclass: observed as its tensordict
    if isinstance(x, TensorDictParams):
        td = x._param_td
    if isinstance(td, LazyStackedTensorDict):
        return obs(td, B, seen + (id(x),), with_ident, light)       # a lazily stacked tensorclass: its members
    out = []
    for k in td.keys():
        v = td._get_str(k, None) if hasattr(td, "_get_str") else td.get(k)
        c = obs(v, B, seen + (id(x), id(td)), with_ident, light)
        if c == "cyclic" or (isinstance(c, list) and c and c[0] == "cyclic"):
            return "cyclic"
        out.append([k, c])
    return ["N", (ident(B, x) if ident(B, x) != "new" else ident(B, td)) if with_ident else "-", meta_obs(td), out]


def has_cycle(x):
    return obs_cycle(x, (), 0)


def obs_cycle(x, seen, depth):
    if x is None or isinstance(x, torch.Tensor) or not is_tensor_collection(x):
        return False
    if id(x) in seen or depth > 12:
        return True           # (generated trees are at most 5 deep)
    try:
        if isinstance(x, LazyStackedTensorDict):
            items = [(i, t) for i, t in enumerate(x.tensordicts)]
        else:
            td = x
            if hasattr(x, "_tensordict") and not isinstance(x, (TensorDict, TensorDictParams)):
                td = x._tensordict
            items = [(k, td._get_str(k, None)) for k in list(td.keys())] if hasattr(td, "_get_str") else list(td.items())
    except Exception:  # noqa: BLE001
        return False
    return any(obs_cycle(v, seen + (id(x),), depth + 1) for _, v in items)


def type_name(x):
    if x is None:
        return "None"
    if isinstance(x, TensorDictParams):
        return "params"
    if isinstance(x, LazyStackedTensorDict):
        return "lazy"
    if isinstance(x, TT._SubTensorDict):
        return "sub"
    if isinstance(x, TensorDict):
        return "td"
    if hasattr(x, "_tensordict"):
        return "tc"
    return type(x).__name__


# ------------------------------------------------------------------ deterministic executor
class PermFuture(cf.Future):
    _ex = None

    def result(self, timeout=None):
        if not self.done() and self._ex is not None:
            self._ex.drain()
        return super().result(0)

    def exception(self, timeout=None):
        if not self.done() and self._ex is not None:
            self._ex.drain()
        return super().exception(0)


class PermExecutor:
    """runs the submitted tasks in the harness thread, in the order given by the current permutation of their
    submission indices, when the submitting thread first waits for a result"""
    order = ()
    ran = None

    def __init__(self, max_workers=None, *a, **k):
        self.pending = []
        self.count = 0

    def submit(self, fn, *args, **kwargs):
        fut = PermFuture()
        fut._ex = self
        self.pending.append((self.count, fut, fn, args, kwargs))
        self.count += 1
        return fut

    def drain(self):
        rank = {i: r for r, i in enumerate(PermExecutor.order)}
        while self.pending:
            batch = sorted(self.pending, key=lambda t: (0, rank[t[0]]) if t[0] in rank else (1, t[0]))
            self.pending = []
            for (idx, fut, fn, args, kwargs) in batch:
                if PermExecutor.ran is not None:
                    PermExecutor.ran.append(idx)
                if not fut.set_running_or_notify_cancel():
                    continue
                try:
                    r = fn(*args, **kwargs)
                except BaseException as e:  # noqa: BLE001 -- what a worker does: the exception is stored in the future
                    fut.set_exception(e)
                else:
                    fut.set_result(r)

    def shutdown(self, wait=True, **k):
        if wait:
            self.drain()


_REAL_WAIT = cf.wait


def perm_wait(fs, timeout=None, return_when=cf.ALL_COMPLETED):
    fs = list(fs)
    for f in fs:
        if isinstance(f, PermFuture) and not f.done():
            f._ex.drain()
    return _REAL_WAIT(fs, timeout=0, return_when=return_when)


@contextlib.contextmanager
def scheduled(order):
    old = (TB.ThreadPoolExecutor, TT.ThreadPoolExecutor, TL.ThreadPoolExecutor, TB.wait, TT.wait, PermExecutor.order, PermExecutor.ran)
    TB.ThreadPoolExecutor = TT.ThreadPoolExecutor = TL.ThreadPoolExecutor = PermExecutor
    TB.wait = TT.wait = perm_wait
    PermExecutor.order = tuple(order)
    PermExecutor.ran = []
    try:
        yield PermExecutor.ran
    finally:
        (TB.ThreadPoolExecutor, TT.ThreadPoolExecutor, TL.ThreadPoolExecutor, TB.wait, TT.wait, PermExecutor.order, PermExecutor.ran) = old
