"""entry point of the child processes of the C11 cross-process transport (fork and spawn): installs the rebuilt native
helper before tensordict is imported, then observes what arrives"""
import sys

from . import cext

if "tensordict" not in sys.modules:
    cext.install()


def loop(qin, qout):
    from . import c11
    c11._child_loop(qin, qout)
