"""C04 — mapping semantics and nested-key canonicalisation (DESIGN.md §4 C04).

Three parties per history (a finite sequence of mapping operations on one subject):
  * the implementation (TensorDict / lazy stack / tensordict with a tensorclass node), driven through its public API;
  * the ORACLE: a plain Python nested dict replaying the same history (functions r_*), independent of the model;
  * the MODEL: the extracted Gallina transcription of the code's algorithms (coq/Model/C04_*.v), TensorDict subject only.
After every step the public read API (keys/items/values for all flag combinations, `in`, get, len, is_empty, to_dict)
is compared with the oracle (order-insensitively, what the property states) and with the model (exactly, incl. order).
"""
import copy
import json
import os
import random
import sys
import time

from . import cext
from .core import Sym, sx, run_model as _run_model

PID = "C04"
MISSING = ("<missing>",)
STR_UNIVERSE = ["a", "b", "c", "x", "n", "a.b", "b.c", "a.b.c", "x.a", "a_b", ".", "a.", ""]
SEPS = [".", ".", ".", "_"]


# =========================================================================================================
# keys: canonical paths (tuples of str), spellings (nested tuples), JSON / sexp encodings
# =========================================================================================================
def spell(rng, path, depth=0):
    """a random nested-tuple spelling of a canonical path (same in-order strings, no empty tuple)"""
    path = list(path)
    if len(path) == 1 and rng.random() < (0.55 if depth == 0 else 0.7):
        return path[0]
    items = []
    i = 0
    while i < len(path):
        if depth < 3 and rng.random() < 0.3:
            j = rng.randint(i + 1, len(path))
            items.append(spell(rng, path[i:j], depth + 1) if rng.random() < 0.8 else tuple(path[i:j]))
            i = j
        else:
            items.append(path[i])
            i += 1
    return tuple(items)


def plain(path):
    """the most common spelling: str for length 1, flat tuple otherwise"""
    return path[0] if len(path) == 1 else tuple(path)


def key_json(k):
    if isinstance(k, str):
        return k
    if isinstance(k, tuple):
        return {"t": [key_json(x) for x in k]}
    return {"bad": 1}


def key_unjson(j):
    if isinstance(j, str):
        return j
    if "t" in j:
        return tuple(key_unjson(x) for x in j["t"])
    return 7  # an object that is not a key


def key_sx(k):
    if isinstance(k, str):
        return k
    if isinstance(k, tuple):
        return [Sym("t")] + [key_sx(x) for x in k]
    return [Sym("bad")]


def strings_of(k):
    """in-order strings of a spelling, or None when it is not a well-formed nested key"""
    if isinstance(k, str):
        return [k]
    if isinstance(k, tuple) and len(k) > 0:
        out = []
        for x in k:
            s = strings_of(x)
            if s is None:
                return None
            out += s
        return out
    return None


# =========================================================================================================
# values: ('t', z) tensor leaf, ('s', z) non-tensor leaf, dict = nested node.  JSON: ["t",z] ["s",z] ["n",[[k,v]..]]
# =========================================================================================================
def val_json(v):
    if isinstance(v, dict):
        return ["n", [[k, val_json(w)] for k, w in v.items()]]
    return [v[0], v[1]]


def val_unjson(j):
    if j[0] == "n":
        return {k: val_unjson(w) for k, w in j[1]}
    return (j[0], j[1])


def val_sx(j):
    """sexp of a JSON value"""
    if j[0] == "n":
        return [Sym("n")] + [[k, val_sx(w)] for k, w in j[1]]
    return [Sym(j[0]), j[1]]


def ents_sx(j):
    return [[k, val_sx(w)] for k, w in j[1]]


def unordered(j):
    """JSON value -> order-free python object (dict / tuple)"""
    if j[0] == "n":
        return {k: unordered(w) for k, w in j[1]}
    return (j[0], j[1])


# =========================================================================================================
# ORACLE: the plain nested dict
# =========================================================================================================
class Unspec(Exception):
    """the operation is outside the domain on which a plain nested dict has an unambiguous answer
    (path through a leaf, prefix-related key lists, ...): any behaviour is accepted, the reference is resynchronised"""


class ExpectRaise(Exception):
    """a plain nested dict raises here (missing key ...); the implementation must raise too and change nothing"""


def is_node(v):
    return isinstance(v, dict)


def r_get(d, p):
    cur = d
    for k in p:
        if not is_node(cur):
            raise Unspec("path through a leaf")
        if k not in cur:
            return MISSING
        cur = cur[k]
    return cur


def r_set(d, p, v):
    cur = d
    for k in p[:-1]:
        if k not in cur:
            cur[k] = {}
        cur = cur[k]
        if not is_node(cur):
            raise Unspec("path through a leaf")
    cur[p[-1]] = v


def r_del(d, p):
    cur = d
    for k in p[:-1]:
        if k not in cur:
            raise ExpectRaise("missing")
        cur = cur[k]
        if not is_node(cur):
            raise Unspec("path through a leaf")
    if p[-1] not in cur:
        raise ExpectRaise("missing")
    del cur[p[-1]]


def r_assign(d, p, v):
    """update semantics: nodes merge, everything else is replaced"""
    cur = d
    for k in p[:-1]:
        if k not in cur:
            cur[k] = {}
        cur = cur[k]
        if not is_node(cur):
            raise Unspec("path through a leaf")
    k = p[-1]
    if k in cur and is_node(cur[k]) and is_node(v):
        for k2, v2 in v.items():
            r_assign(cur[k], (k2,), v2)
    else:
        cur[k] = copy.deepcopy(v)


def r_has_leaf(v):
    if is_node(v):
        return any(r_has_leaf(w) for w in v.values())
    return True


def r_filter_empty(d):
    for k in list(d):
        if is_node(d[k]):
            if not r_has_leaf(d[k]):
                del d[k]
            else:
                r_filter_empty(d[k])


def r_view(d, inc, lo, lm, prefix=()):
    """entries listed by keys()/items()/values() (pre-order); lm: 'd' default is_leaf (tensors), 'n' is_leaf_nontensor"""
    out = []
    for k, v in d.items():
        node = is_node(v)
        leaf = (not node) and (v[0] == "t" or lm == "n")
        if (not lo) or leaf:
            out.append((prefix + (k,), v))
        if inc and node:
            out += r_view(v, inc, lo, lm, prefix + (k,))
    return out


def prefix_related(paths):
    ps = [tuple(p) for p in paths]
    for i, p in enumerate(ps):
        for j, q in enumerate(ps):
            if i != j and len(p) <= len(q) and q[:len(p)] == p:
                return True
    return False


def through_leaf(d, p):
    """some strict prefix of p denotes a leaf"""
    cur = d
    for k in p[:-1]:
        if not is_node(cur) or k not in cur:
            return False
        cur = cur[k]
        if not is_node(cur):
            return True
    return False


def through_nontensor(d, p):
    cur = d
    for k in p[:-1]:
        if not is_node(cur) or k not in cur:
            return False
        cur = cur[k]
        if not is_node(cur):
            return cur[0] == "s"
    return False


def r_flatten(d, sep):
    leaves = r_view(d, True, True, "n")
    out = {}
    for p, v in leaves:
        name = sep.join(p)
        if name in out:
            raise ExpectRaise("flattened names collide")
        out[name] = v
    return out


def r_apply(ref, op):
    """replay one operation on the reference.  Returns (new_ref, ret, results) where ret is the returned value
    (MISSING when none is compared) and results the list of out-of-place result dicts (or None).
    Raises Unspec / ExpectRaise.  [ref] itself is never mutated."""
    d = copy.deepcopy(ref)
    name = op["op"]
    P = lambda key: strings_of(key_unjson(key))  # noqa: E731
    if name in ("set", "setitem"):
        p = P(op["key"])
        if p is None:
            raise Unspec("invalid key")
        r_set(d, p, val_unjson(op["val"]))
        return d, MISSING, None
    if name in ("del", "delitem"):
        p = P(op["key"])
        if p is None:
            raise Unspec("invalid key")
        r_del(d, p)
        return d, MISSING, None
    if name == "pop":
        p = P(op["key"])
        if p is None:
            raise Unspec("invalid key")
        v = r_get(d, p)
        if v is MISSING:
            if op["default"] is None:
                raise ExpectRaise("missing")
            return d, ("default", op["default"]), None
        r_del(d, p)
        return d, v, None
    if name == "rename":
        p, q = P(op["old"]), P(op["new"])
        if p is None or q is None:
            raise Unspec("invalid key")
        v = r_get(d, p)
        if v is MISSING:
            raise ExpectRaise("missing")
        if p == q:
            return d, MISSING, None
        if through_leaf(d, q):
            raise Unspec("path through a leaf")
        if op["safe"] and r_get(d, q) is not MISSING:
            raise ExpectRaise("safe rename onto an existing key")
        r_del(d, p)
        r_set(d, q, v)
        return d, MISSING, None
    if name == "update":
        for kj, vj in op["items"]:
            p = P(kj)
            if p is None:
                raise Unspec("invalid key")
            r_assign(d, p, val_unjson(vj))
        return d, MISSING, None
    if name == "setdefault":
        p = P(op["key"])
        if p is None:
            raise Unspec("invalid key")
        v = r_get(d, p)
        if v is MISSING:
            v = val_unjson(op["val"])
            r_set(d, p, v)
        return d, v, None
    if name == "select":
        ps = [P(k) for k in op["keys"]]
        if any(p is None for p in ps):
            raise Unspec("invalid key")
        out = {}
        for p in ps:
            v = r_get(d, p)
            if v is MISSING:
                if op["strict"]:
                    raise ExpectRaise("missing")
                if len(p) > 1 and p[0] in d:
                    raise Unspec("non-strict select of a missing nested key: whether the existing ancestors are kept (empty) is not determined")
                continue
            r_set(out, p, copy.deepcopy(v))
        if op["inplace"]:
            return out, MISSING, None
        return d, MISSING, [out]
    if name == "exclude":
        ps = [P(k) for k in op["keys"]]
        if any(p is None for p in ps):
            raise Unspec("invalid key")
        out = copy.deepcopy(d)
        for p in ps:
            if through_leaf(out, p):
                raise Unspec("path through a leaf")
            try:
                r_del(out, p)
            except ExpectRaise:
                pass
        if op["inplace"]:
            return out, MISSING, None
        return d, MISSING, [out]
    if name == "split":
        sets = [[P(k) for k in ks] for ks in op["sets"]]
        allp = [p for s in sets for p in s]
        if any(p is None for p in allp):
            raise Unspec("invalid key")
        if prefix_related(allp) or len(set(map(tuple, allp))) < len(allp):
            raise Unspec("prefix-related or duplicated keys")
        rest = copy.deepcopy(d)
        outs = []
        for s in sets:
            o = {}
            for p in s:
                v = r_get(rest, p)
                if v is MISSING:
                    if op["strict"]:
                        raise ExpectRaise("missing")
                    if op["default"] is not None:
                        r_set(o, p, ("t", op["default"]))
                    continue
                r_del(rest, p)
                r_set(o, p, v)
            outs.append(o)
        r_filter_empty(rest)
        if op["inplace"]:
            return rest, MISSING, outs + [copy.deepcopy(rest)]
        return d, MISSING, outs + [rest]
    if name == "flatten":
        out = r_flatten(d, op["sep"])
        if op["inplace"]:
            return out, MISSING, None
        return d, MISSING, [out]
    if name == "unflatten":
        sep = op["sep"]
        out = copy.deepcopy(d)
        for k in list(out.keys()):
            if sep in k:
                q = tuple(k.split(sep))
                if through_leaf(out, q) or r_get(out, q) is not MISSING:
                    raise ExpectRaise("unflattened key collides")
                v = out.pop(k)
                r_set(out, q, v)
        if op["inplace"]:
            return out, MISSING, None
        return d, MISSING, [out]
    if name == "clear":
        return {}, MISSING, None
    if name == "filter_empty":
        r_filter_empty(d)
        return d, MISSING, None
    raise AssertionError(name)


ATOMIC = {"set", "setitem", "del", "delitem", "pop", "rename", "setdefault", "clear"}


# =========================================================================================================
# implementation side
# =========================================================================================================
_T = {}


def _imports():
    if not _T:
        cext.install()
        import torch
        import tensordict
        from tensordict import TensorDict, is_leaf_nontensor, lazy_stack, tensorclass
        from tensordict.utils import is_non_tensor
        torch.set_num_threads(1)
        _T.update(torch=torch, tensordict=tensordict, TensorDict=TensorDict, is_leaf_nontensor=is_leaf_nontensor,
                  lazy_stack=lazy_stack, is_non_tensor=is_non_tensor, tensorclass=tensorclass)
    return _T


BS = 2
HISTORY_BUDGET_S = 20   # a history normally takes ~20 ms


SHAPE = [(BS,)]   # shape of the leaves handed to the subject: (2,) for a TensorDict, (2, 2) for a lazy stack of two


def mk_val(v, shape=None):
    T = _imports()
    shape = shape or SHAPE[0]
    if isinstance(v, dict):
        return {k: mk_val(w, shape) for k, w in v.items()}
    if v[0] == "t":
        if isinstance(v[1], list):
            # a value handed to a lazy stack: one number per member along the stack dimension (harness/c04_lazy.py)
            t = T["torch"].tensor(v[1]).reshape((len(v[1]),) + (1,) * (len(shape) - 1))
            return t.expand(shape).clone()
        return T["torch"].full(shape, v[1])
    return f"s{v[1]}"


def mk_node(v, as_td):
    """a fresh value object for a nested node: python dict, or TensorDict"""
    T = _imports()
    if as_td:
        return T["TensorDict"](mk_val(v), batch_size=list(SHAPE[0]))
    return mk_val(v)


def build_subject(subject, init):
    T = _imports()
    if subject == "lazy":
        SHAPE[0] = (2, BS)
        members = [T["TensorDict"](mk_val(init, (BS,)), batch_size=[BS]) for _ in range(2)]
        return T["lazy_stack"](members, 0)
    SHAPE[0] = (BS,)
    td = T["TensorDict"](mk_val(init), batch_size=[BS])
    if subject == "tc":
        # a tensordict held by a tensorclass: operated on through `holder.n`, additionally read through the holder
        if "TC" not in T:
            from tensordict import TensorDict as _TD

            @T["tensorclass"]
            class HolderTC:
                n: _TD
            T["TC"] = HolderTC
        HOLDER[0] = T["TC"](n=td, batch_size=[BS])
        return HOLDER[0].n
    return td


HOLDER = [None]


def oracle_holder(ref, td, probes, fail):
    """tensorclass-held subject: what the tensorclass API shows under the field name is the held tensordict"""
    h = HOLDER[0]
    if h.get("n") is not td:
        h.set("n", td)
    r = call(lambda: sorted(keyl(k)[1:] for k in h.keys(True, True) if keyl(k)[0] == "n"))
    want = sorted(list(p) for p, _ in r_view(ref, True, True, "d"))
    if r[0] != "ok" or r[1] != want:
        fail("holder-keys", {"view": "tensorclass.keys(True, True)"}, {"got": r[1], "want": want}, {"call": "tensorclass.keys", "pattern": "key-set"})
    for (kj, _) in probes:
        p = strings_of(key_unjson(kj))
        if p is None:
            continue
        try:
            v = r_get(ref, p)
        except Unspec:
            continue
        k = ("n", key_unjson(kj))
        c = call(lambda: k in h.keys(True))
        g = call(lambda: h.get(k))
        if c[0] != "ok" or bool(c[1]) != (v is not MISSING):
            fail("holder-contains", {"key": kj}, {"got": c[1], "present": v is not MISSING}, {"call": "tensorclass.keys.__contains__", "pattern": "presence"})
        got = None if g[0] != "ok" else (["none"] if g[1] is None else summ(g[1]))
        want_g = ["none"] if v is MISSING else val_json(v)
        if got is None or not (got == want_g if ["none"] in (got, want_g) else cmp_unordered(got, want_g)):
            fail("holder-get", {"key": kj}, {"got": got if got is not None else g[1], "want": want_g}, {"call": "tensorclass.get", "pattern": "value"})


def exc_enum(e):
    return "KeyError" if isinstance(e, KeyError) else "other"


def leaf_json(v):
    T = _imports()
    if T["is_non_tensor"](v):
        d = getattr(v, "data", None)
        if isinstance(d, str) and d[:1] == "s" and d[1:].lstrip("-").isdigit():
            return ["s", int(d[1:])]
        return ["s", repr(d)]
    if isinstance(v, T["torch"].Tensor):
        f = v.reshape(-1)
        if f.numel() == 0:
            return ["t", "empty"]
        z = int(f[0])
        if not bool((f == z).all()):
            return ["t", "mixed"]
        return ["t", z]
    return ["?", repr(type(v))]


def snap(td, depth=0):
    """structure of the subject read from the raw storage (not through the API under test)"""
    T = _imports()
    out = []
    if depth > 60:
        # histories of the thorough tier legitimately reach 13+ levels (renames into the own subtree, unflatten_keys)
        return ["?", "deeper than 60 levels (cyclic storage?)"]
    if not isinstance(td, T["TensorDict"]) and hasattr(td, "tensordicts"):
        # lazy stack: the storage is the members'; homogeneous by construction, anything else is reported
        ms = [snap(m, depth + 1) for m in td.tensordicts]
        if any(unordered(m) != unordered(ms[0]) for m in ms[1:]):
            return ["?", "members of the lazy stack differ"]
        return ms[0] if ms else ["n", []]
    for k, v in td._tensordict.items():
        if isinstance(v, T["TensorDict"]):
            out.append([k, snap(v, depth + 1)])
        else:
            out.append([k, leaf_json(v)])
    return ["n", out]


def summ(v):
    """summary of a value handed out by the API (get / pop / items / values / results)"""
    T = _imports()
    if isinstance(v, T["TensorDict"]) or hasattr(v, "tensordicts"):
        return snap(v)
    return leaf_json(v)


def keyl(k):
    """canonical form of a key returned by a view; also checks it is canonical (str, or flat tuple of >= 2 str)"""
    if isinstance(k, str):
        return [k]
    if isinstance(k, tuple) and len(k) >= 2 and all(isinstance(x, str) for x in k):
        return list(k)
    return ["<non-canonical>", repr(k)]


def call(f):
    try:
        return ("ok", f())
    except Exception as e:  # noqa: BLE001 -- the exception class enum is the observable
        return ("raise", exc_enum(e), type(e).__name__)


FLAGS = [(inc, lo, so, lm) for inc in (False, True) for lo in (False, True) for so in (False, True) for lm in "dn"]


def view_kwargs(inc, lo, so, lm):
    T = _imports()
    kw = dict(include_nested=inc, leaves_only=lo, sort=so)
    if lm == "n":
        kw["is_leaf"] = T["is_leaf_nontensor"]
    return kw


def observe(td, flags, probes):
    """API observations of one state: views for the flag combinations [flags], membership / get for [probes]"""
    obs = {"views": [], "probes": []}
    for (inc, lo, so, lm) in flags:
        kw = view_kwargs(inc, lo, so, lm)
        ks = call(lambda: [keyl(k) for k in td.keys(**kw)])
        it = call(lambda: [[keyl(k), summ(v)] for k, v in td.items(**kw)])
        vs = call(lambda: [summ(v) for v in td.values(**kw)])
        ln = call(lambda: len(td.keys(**kw)))
        obs["views"].append([ks[1] if ks[0] == "ok" else ["raise", ks[1]], it[1] if it[0] == "ok" else ["raise", it[1]],
                             vs[1] if vs[0] == "ok" else ["raise", vs[1]], ln[1] if ln[0] == "ok" else ["raise", ln[1]]])
    for (kj, (inc, lo, so, lm)) in probes:
        k = key_unjson(kj)
        kw = view_kwargs(inc, lo, so, lm)
        c1 = call(lambda: k in td.keys(**kw))
        c2 = call(lambda: k in td)
        g1 = call(lambda: td.get(k))
        g2 = call(lambda: td.get(k, 77))
        enc = lambda r, f: (f(r[1]) if r[0] == "ok" else ["raise", r[1]])  # noqa: E731
        gsum = lambda v: ["none"] if v is None else (["default"] if isinstance(v, int) and v == 77 else summ(v))  # noqa: E731
        obs["probes"].append([enc(c1, bool), enc(c2, bool), enc(g1, gsum), enc(g2, gsum)])
    e = call(lambda: bool(td.is_empty()))
    obs["is_empty"] = e[1] if e[0] == "ok" else ["raise", e[1]]
    t = call(lambda: todict_json(td.to_dict()))
    obs["to_dict"] = t[1] if t[0] == "ok" else ["raise", t[1]]
    return obs


def todict_json(d):
    out = []
    for k, v in d.items():
        if isinstance(v, dict):
            out.append([k, todict_json(v)])
        elif isinstance(v, str):
            out.append([k, ["s", int(v[1:])] if v[:1] == "s" and v[1:].lstrip("-").isdigit() else ["s", v]])
        else:
            out.append([k, leaf_json(v)])
    return ["n", out]


def run_op(td, op, rng_objs):
    """execute one operation through the public API.  Returns (outcome, ret_json, results(list of td) or None)"""
    T = _imports()
    name = op["op"]
    K = key_unjson

    def value(vj, as_td):
        v = val_unjson(vj)
        if isinstance(v, dict):
            return mk_node(v, as_td)
        return mk_val(v)

    as_td = op.get("as_td", False)
    if name == "set":
        r = call(lambda: td.set(K(op["key"]), value(op["val"], as_td)))
        return r, None, None
    if name == "setitem":
        r = call(lambda: td.__setitem__(K(op["key"]), value(op["val"], as_td)))
        return r, None, None
    if name == "del":
        return call(lambda: td.del_(K(op["key"]))), None, None
    if name == "delitem":
        return call(lambda: td.__delitem__(K(op["key"]))), None, None
    if name == "pop":
        if op["default"] is None:
            r = call(lambda: td.pop(K(op["key"])))
        else:
            r = call(lambda: td.pop(K(op["key"]), op["default"]))
        ret = None
        if r[0] == "ok":
            ret = ["default", r[1]] if isinstance(r[1], int) else summ(r[1])
        return r, ret, None
    if name == "rename":
        return call(lambda: td.rename_key_(K(op["old"]), K(op["new"]), safe=op["safe"])), None, None
    if name == "update":
        def src():
            items = [(K(kj), value(vj, False)) for kj, vj in op["items"]]
            if as_td:
                return T["TensorDict"](dict(items), batch_size=list(SHAPE[0]))
            return dict(items)
        return call(lambda: td.update(src())), None, None
    if name == "setdefault":
        r = call(lambda: td.setdefault(K(op["key"]), value(op["val"], as_td)))
        return r, (summ(r[1]) if r[0] == "ok" else None), None
    if name == "select":
        r = call(lambda: td.select(*[K(k) for k in op["keys"]], inplace=op["inplace"], strict=op["strict"]))
        return r, None, ([r[1]] if r[0] == "ok" and not op["inplace"] else None)
    if name == "exclude":
        r = call(lambda: td.exclude(*[K(k) for k in op["keys"]], inplace=op["inplace"]))
        return r, None, ([r[1]] if r[0] == "ok" and not op["inplace"] else None)
    if name == "split":
        kw = dict(inplace=op["inplace"], strict=op["strict"])
        if op["default"] is not None:
            kw["default"] = T["torch"].full(SHAPE[0], op["default"])
        r = call(lambda: td.split_keys(*[[K(k) for k in ks] for ks in op["sets"]], **kw))
        return r, None, (list(r[1]) if r[0] == "ok" else None)
    if name == "flatten":
        r = call(lambda: td.flatten_keys(op["sep"], inplace=op["inplace"]))
        return r, None, ([r[1]] if r[0] == "ok" and not op["inplace"] else None)
    if name == "unflatten":
        r = call(lambda: td.unflatten_keys(op["sep"], inplace=op["inplace"]))
        return r, None, ([r[1]] if r[0] == "ok" and not op["inplace"] else None)
    if name == "clear":
        return call(lambda: td.clear()), None, None
    if name == "filter_empty":
        return call(lambda: td.filter_empty_()), None, None
    raise AssertionError(name)


# =========================================================================================================
# generators
# =========================================================================================================
TENSOR_ONLY = [False]


def gen_leaf(rng, ctr):
    ctr[0] += 1
    return (("t" if TENSOR_ONLY[0] or rng.random() < 0.8 else "s"), ctr[0])


def gen_value(rng, ctr, depth=0):
    r = rng.random()
    if r < 0.62 or depth >= 2:
        return gen_leaf(rng, ctr)
    if r < 0.72:
        return {}
    out = {}
    for _ in range(rng.randint(1, 3)):
        out[rng.choice(STR_UNIVERSE[:9])] = gen_value(rng, ctr, depth + 1)
    return out


def gen_tree(rng, ctr):
    out = {}
    for _ in range(rng.choice([0, 1, 2, 3, 3, 4, 5])):
        k = rng.choice(STR_UNIVERSE)
        out[k] = gen_value(rng, ctr, 0)
    return out


def all_paths(d, prefix=()):
    out = []
    for k, v in d.items():
        out.append(prefix + (k,))
        if is_node(v):
            out += all_paths(v, prefix + (k,))
    return out


def gen_path(rng, ref, want="any"):
    """a canonical path: mostly existing entries or their neighbours, sometimes fresh; never through a non-tensor"""
    for _ in range(20):
        paths = all_paths(ref)
        r = rng.random()
        if paths and r < (0.75 if want == "existing" else 0.45):
            p = rng.choice(paths)
        elif paths and r < 0.7:
            p = rng.choice(paths) + (rng.choice(STR_UNIVERSE[:8]),)
            if rng.random() < 0.25:
                p = p + (rng.choice(STR_UNIVERSE[:5]),)
        elif paths and r < 0.78:
            p = rng.choice(paths)[:-1] + (rng.choice(STR_UNIVERSE),)
        else:
            p = tuple(rng.choice(STR_UNIVERSE) for _ in range(rng.choice([1, 1, 1, 2, 2, 3])))
        if len(p) <= 5 and not through_nontensor(ref, p):
            return p
    return (rng.choice(STR_UNIVERSE),)


def gen_key(rng, ref, want="any", bad=0.03):
    """a spelled key (JSON form)"""
    p = gen_path(rng, ref, want)
    if rng.random() < bad:
        return key_json(rng.choice([(), 3, (p[0], 1), (p[0], ()), ((),)]))
    return key_json(spell(rng, p))


def nt_paths(v, prefix=()):
    """paths (relative) of the non-tensor leaves of a value"""
    if is_node(v):
        out = []
        for k, w in v.items():
            out += nt_paths(w, prefix + (k,))
        return out
    return [prefix] if v[0] == "s" else []


def avoids_nontensor(ref, op):
    """no key path of [op] passes through a non-tensor leaf of the reference or of a value the op itself brings in
    (NonTensorData keeps a hidden storage that accepts such writes silently: outside the mapping model)"""
    P = lambda key: strings_of(key_unjson(key))  # noqa: E731
    name = op["op"]
    nts = set(nt_paths(ref))
    paths = []
    if name in ("set", "setitem", "setdefault"):
        p = P(op["key"])
        paths.append(p)
        if p:
            nts |= {tuple(p) + q for q in nt_paths(val_unjson(op["val"]))}
    elif name in ("del", "delitem", "pop"):
        paths.append(P(op["key"]))
    elif name == "rename":
        p, q = P(op["old"]), P(op["new"])
        paths += [p, q]
        if p and q:
            try:
                v = r_get(ref, p)
            except Unspec:
                v = MISSING
            if v is not MISSING:
                nts |= {tuple(q) + r for r in nt_paths(v)}
    elif name == "update":
        for kj, vj in op["items"]:
            p = P(kj)
            paths.append(p)
            if p:
                nts |= {tuple(p) + q for q in nt_paths(val_unjson(vj))}
    elif name in ("select", "exclude"):
        paths += [P(k) for k in op["keys"]]
    elif name == "split":
        paths += [P(k) for ks in op["sets"] for k in ks]
    elif name == "unflatten":
        for k, v in ref.items():
            if op["sep"] in k:
                q = tuple(k.split(op["sep"]))
                paths.append(list(q))
                nts |= {q + r for r in nt_paths(v)}
    for p in paths:
        if p is None:
            continue
        for i in range(1, len(p)):
            if tuple(p[:i]) in nts:
                return False
    return True


OPS_W = [("set", 22), ("setitem", 4), ("del", 8), ("delitem", 2), ("pop", 9), ("rename", 14), ("update", 9),
         ("setdefault", 6), ("select", 7), ("exclude", 7), ("split", 5), ("flatten", 5), ("unflatten", 5), ("clear", 1),
         ("filter_empty", 1)]


def op_keys(op):
    ks = [op[f] for f in ("key", "old", "new") if f in op]
    ks += list(op.get("keys", []))
    ks += [k for ks_ in op.get("sets", []) for k in ks_]
    ks += [k for k, _ in op.get("items", [])]
    return ks


def gen_op(rng, ref, ctr):
    for _ in range(50):
        op = gen_op1(rng, ref, ctr)
        if TENSOR_ONLY[0]:
            # lazy stack: values are python dicts / tensors shaped for the stack (no dense TensorDict operands)
            if "as_td" in op:
                op["as_td"] = False
            if op["op"] == "split" and op["inplace"]:
                continue
            # in-place select / exclude / flatten_keys / split_keys on a lazy stack are not drawn (a raise half-way through
            # the members leaves them with different key sets: not determined by the nested dict)
            # unflatten_keys: the result depends on the order in which the root keys are visited, and a lazy stack
            # does not iterate its keys in insertion order: not determined by the nested dict, not drawn
            if (op["op"] in ("flatten", "select", "exclude") and op["inplace"]) or op["op"] == "unflatten":
                continue
            # invalid keys: a raise half-way through the members leaves the stack heterogeneous (outside the property)
            if any(strings_of(key_unjson(k)) is None for k in op_keys(op)):
                continue
        if avoids_nontensor(ref, op):
            return op
    return {"op": "filter_empty"}


def gen_op1(rng, ref, ctr):
    name = rng.choices([n for n, _ in OPS_W], [w for _, w in OPS_W])[0]
    vj = lambda: val_json(gen_value(rng, ctr))  # noqa: E731
    if name in ("set", "setitem"):
        return {"op": name, "key": gen_key(rng, ref, bad=(0.03 if name == "set" else 0.0)), "val": vj(), "as_td": rng.random() < 0.5}
    if name in ("del", "delitem"):
        return {"op": name, "key": gen_key(rng, ref, "existing")}
    if name == "pop":
        return {"op": name, "key": gen_key(rng, ref, "existing"), "default": rng.choice([None, None, 55])}
    if name == "rename":
        old = gen_key(rng, ref, "existing")
        if rng.random() < 0.25:
            # prefix-related pair on purpose
            p = strings_of(key_unjson(old)) or ["a"]
            q = list(p)
            r = rng.random()
            if r < 0.4 and len(q) > 1:
                q = q[:rng.randint(1, len(q) - 1)]
            elif r < 0.8:
                q = q + [rng.choice(STR_UNIVERSE[:6])] + ([rng.choice(STR_UNIVERSE[:6])] if rng.random() < 0.3 else [])
            if through_nontensor(ref, q):
                q = p
            new = key_json(spell(rng, q))
        else:
            new = gen_key(rng, ref)
        return {"op": name, "old": old, "new": new, "safe": rng.random() < 0.3}
    if name == "update":
        items = []
        for _ in range(rng.randint(0, 3)):
            items.append([gen_key(rng, ref, bad=0.0), vj()])
        as_td = all(isinstance(k, str) for k, _ in items) and len({k for k, _ in items}) == len(items) and rng.random() < 0.5
        # python dict input: spelled keys must be distinct objects
        seen, out = set(), []
        for k, v in items:
            kk = json.dumps(k)
            if kk not in seen:
                seen.add(kk)
                out.append([k, v])
        return {"op": name, "items": out, "as_td": as_td}
    if name == "setdefault":
        return {"op": name, "key": gen_key(rng, ref), "val": vj(), "as_td": rng.random() < 0.5}
    if name in ("select", "exclude"):
        ks = [gen_key(rng, ref, "existing") for _ in range(rng.choice([0, 1, 1, 2, 2, 3]))]
        o = {"op": name, "keys": ks, "inplace": rng.random() < 0.5, "cont": rng.random() < 0.5}
        if name == "select":
            o["strict"] = rng.random() < 0.6
        return o
    if name == "split":
        inplace = rng.random() < 0.5
        for _ in range(30):
            sets = [[gen_key(rng, ref, "existing", bad=0.0) for _ in range(rng.choice([0, 1, 1, 2]))] for _ in range(rng.choice([1, 1, 2]))]
            # python builds {key: key for key in key_set}: identical spelled keys of one set collapse
            sets = [[k for i, k in enumerate(ks) if k not in ks[:i]] for ks in sets]
            allp = [strings_of(key_unjson(k)) for ks in sets for k in ks]
            # in-place: the epilogue iterates a python set (hash order): order-independent only for prefix-free key lists
            if not inplace or not prefix_related(allp):
                break
        else:
            sets = [[]]
        strict = rng.random() < 0.6
        return {"op": name, "sets": sets, "inplace": inplace, "strict": strict,
                "default": (None if strict or rng.random() < 0.6 else 66), "cont": rng.choice([None, None, 0, -1])}
    if name in ("flatten", "unflatten"):
        return {"op": name, "sep": rng.choice(SEPS), "inplace": rng.random() < 0.5, "cont": rng.random() < 0.6}
    return {"op": name}


def gen_probes(rng, ref, quick):
    flags = rng.sample(FLAGS, 4 if quick else 8)
    probes = []
    for _ in range(4 if quick else 8):
        inc, lo, _, lm = rng.choice(FLAGS)
        for _ in range(20):
            kj = gen_key(rng, ref, "any", bad=0.04)
            p = strings_of(key_unjson(kj))
            if p is None or not through_nontensor(ref, p):
                break
        else:
            kj = "a"
        probes.append([kj, [inc, lo, False, lm]])
    return [list(f) for f in flags], probes


# =========================================================================================================
# one history: run implementation + oracle
# =========================================================================================================
def cmp_unordered(a, b):
    return unordered(a) == unordered(b)


def oracle_views(ref, obs, flags, probes, fail, ctx):
    """compare the API observations of one state with the reference dict (order-insensitive; sort=True must be sorted)"""
    for (inc, lo, so, lm), (ks, it, vs, ln) in zip(flags, obs["views"]):
        want = r_view(ref, inc, lo, lm)
        want_keys = sorted(list(p) for p, _ in want)
        tag = {"include_nested": inc, "leaves_only": lo, "sort": so, "is_leaf": lm}
        for what, got in (("keys", ks), ("items", it), ("values", vs), ("len", ln)):
            if isinstance(got, list) and got[:1] == ["raise"]:
                pat = "sort-fastpath-empty-root" if (what == "values" and so and not inc and not lo and len(ref) == 0) else "raises"
                fail("view-raises", dict(tag, view=what), {"raised": got}, {"call": what, "pattern": pat})
        if isinstance(ks, list) and ks[:1] != ["raise"]:
            if sorted(ks) != want_keys:
                fail("keys-view", tag, {"got": ks, "want": want_keys}, {"call": "keys", "pattern": "key-set"})
            if so and [".".join(k) for k in ks] != sorted(".".join(k) for k in ks):
                fail("keys-view-sort", tag, {"got": ks}, {"call": "keys", "pattern": "not-sorted"})
        if isinstance(it, list) and it[:1] != ["raise"]:
            g = sorted([k, json.dumps(unordered_key(v), sort_keys=True)] for k, v in it)
            w = sorted([list(p), json.dumps(unordered_key(val_json(v)), sort_keys=True)] for p, v in want)
            if g != w:
                fail("items-view", tag, {"got": it, "want": [[list(p), val_json(v)] for p, v in want]}, {"call": "items", "pattern": "pairs"})
            if so and [".".join(k) for k, _ in it] != sorted(".".join(k) for k, _ in it):
                fail("items-view-sort", tag, {"got": it}, {"call": "items", "pattern": "not-sorted"})
        if isinstance(vs, list) and vs[:1] != ["raise"]:
            g = sorted(json.dumps(unordered_key(v), sort_keys=True) for v in vs)
            w = sorted(json.dumps(unordered_key(val_json(v)), sort_keys=True) for _, v in want)
            if g != w:
                fail("values-view", tag, {"got": vs, "want": [val_json(v) for _, v in want]}, {"call": "values", "pattern": "multiset"})
        if isinstance(ln, int) and ln != len(want):
            fail("len-view", tag, {"got": ln, "want": len(want)}, {"call": "len(keys)", "pattern": "count"})
    for (kj, (inc, lo, so, lm)), (c1, c2, g1, g2) in zip(probes, obs["probes"]):
        p = strings_of(key_unjson(kj))
        if p is None:
            continue  # not a nested key: outside the property
        tag = {"key": kj, "include_nested": inc, "leaves_only": lo, "is_leaf": lm}
        try:
            v = r_get(ref, p)
        except Unspec:
            continue
        listed = tuple(p) in {q for q, _ in r_view(ref, inc, lo, lm)}
        if len(p) > 1 and not inc:
            pass  # documented: nested membership needs include_nested=True (TypeError)
        elif isinstance(c1, bool):
            if c1 != listed:
                pat = "member-not-listed" if c1 else "listed-not-member"
                if c1 and lo and v is not MISSING:
                    pat = "leaves_only-nonleaf-entry"
                fail("contains-view", tag, {"in": c1, "listed_by_iteration": listed},
                     {"call": "keys.__contains__", "site": "_TensorDictKeysView.__contains__", "pattern": pat,
                      "leaves_only": lo, "nested_key": len(p) > 1})
        else:
            fail("contains-view", tag, {"raised": c1}, {"call": "keys.__contains__", "pattern": "raises"})
        if isinstance(c2, bool):
            if c2 != (v is not MISSING):
                fail("contains-td", tag, {"in": c2, "present": v is not MISSING}, {"call": "__contains__", "pattern": "presence"})
        else:
            pat = "empty-string-key-spelled-as-tuple" if (p == [""] and not isinstance(kj, str)) else "raises"
            fail("contains-td", tag, {"raised": c2}, {"call": "__contains__", "pattern": pat})
        for what, g, dflt in (("get", g1, ["none"]), ("get-default", g2, ["default"])):
            want = dflt if v is MISSING else val_json(v)
            if isinstance(g, list) and g[:1] == ["raise"]:
                fail(what, tag, {"raised": g, "want": want}, {"call": "get", "pattern": "raises"})
            elif not (g == want if want in (["none"], ["default"]) or g in (["none"], ["default"]) else cmp_unordered(g, want)):
                fail(what, tag, {"got": g, "want": want}, {"call": "get", "pattern": "value"})
    want_empty = not r_has_leaf(ref)
    if obs["is_empty"] != want_empty:
        fail("is_empty", {}, {"got": obs["is_empty"], "want": want_empty}, {"call": "is_empty", "pattern": "value"})
    td_ = obs["to_dict"]
    if td_[:1] == ["raise"] or not cmp_unordered(td_, val_json(ref)):
        fail("to_dict", {}, {"got": td_, "want": val_json(ref)}, {"call": "to_dict", "pattern": "value"})


def unordered_key(j):
    """JSON value -> canonical JSON-serialisable order-free form"""
    if j[0] == "n":
        return {"n": {k: unordered_key(w) for k, w in j[1]}}
    return [j[0], j[1]]


PROVED_KINDS = {"set", "setitem", "del", "delitem", "pop", "rename", "update", "setdefault", "clear", "filter_empty"}


def theorem_scope(op):
    """which theorem of coq/Props/C04.v speaks about this operation (mirrors abs_op / in_scope / in_scope_remaining)"""
    ks = op_keys(op)
    ps = [strings_of(key_unjson(k)) for k in ks]
    if any(p is None for p in ps):
        return "outside:invalid-key"
    name = op["op"]
    if name in PROVED_KINDS or name in ("flatten", "unflatten") or (name == "split" and not (op["inplace"] and prefix_related(ps))):
        if name == "rename" and op["safe"] and len(ps[0]) < len(ps[1]) and ps[1][:len(ps[0])] == ps[0]:
            return "outside:safe-rename-into-own-subtree"
        return "proved:C04_refine_step"
    if name == "select" and prefix_related(ps):
        return "refuted:D48-region"
    if name in ("exclude", "split") and prefix_related(ps):
        return "outside:prefix-related-keys"
    if name == "select" and not op["strict"]:
        return "outside:non-strict-select"
    return "stated-not-proved:C04_refine_step_remaining_statement"


def op_signature(op, ref):
    """decidable pattern of an operation relative to the reference state (signature of findings)"""
    name = op["op"]
    sig = {"call": name}
    P = lambda key: strings_of(key_unjson(key))  # noqa: E731
    if name == "flatten":
        sig["inplace"] = op["inplace"]
        root_leaf = any(not is_node(v) for v in ref.values())
        leaves = r_view(ref, True, True, "n")
        flat = [op["sep"].join(p) for p, _ in leaves]
        clash = any(f in ref and (is_node(ref[f]) or (f,) != p) for f, (p, _) in zip(flat, leaves))
        if op["inplace"]:
            sig["pattern"] = "flat-name-equals-root-key" if clash else ("root-level-leaf" if root_leaf else "other")
    elif name == "rename":
        p, q = P(op["old"]), P(op["new"])
        if p and q:
            if len(p) < len(q) and q[:len(p)] == p:
                try:
                    v = r_get(ref, p)
                except Unspec:
                    v = MISSING
                sig["pattern"] = "old-strict-prefix-of-new," + ("node" if is_node(v) else "leaf")
            elif len(q) < len(p) and p[:len(q)] == q:
                sig["pattern"] = "new-strict-prefix-of-old"
            else:
                sig["pattern"] = "unrelated"
    elif name in ("select", "exclude", "split", "unflatten"):
        sig["inplace"] = op["inplace"]
        if name == "select":
            ps = [P(k) for k in op["keys"]]
            if all(p is not None for p in ps):
                sig["pattern"] = "key-and-its-subkey" if prefix_related(ps) else "prefix-free"
    elif name == "update":
        ps = [P(k) for k, _ in op["items"]]
        if all(p is not None for p in ps):
            rel = prefix_related(ps) or len({tuple(p) for p in ps}) < len(ps)
            sig["pattern"] = "prefix-related-items" if rel else "independent-items"
    return sig


class HistoryTimeout(BaseException):
    pass


def run_any(args):
    """pool worker: lazy stacks with the model (harness/c04_lazy.py) or the subjects of this file"""
    if str(args[3]).startswith("lazy-"):
        from . import c04_lazy
        return c04_lazy.run_lazy_history(args)
    return run_history(args)


def run_history(args):
    """worker; never raises: an exception escaping the harness's own handling (e.g. RecursionError on a storage the
    implementation made cyclic) is itself reported as an oracle failure of the history"""
    import signal

    def on_alarm(signum, frame):
        # BaseException: must not be swallowed by `except Exception` blocks inside the library; the timer repeats
        raise HistoryTimeout("history exceeded its time budget (non-terminating or pathologically slow call?)")

    try:
        sys.setrecursionlimit(3000)
        # user-CPU time, not wall-clock: a loaded machine must not turn into a verdict (DESIGN 2.6)
        signal.signal(signal.SIGVTALRM, on_alarm)
        signal.setitimer(signal.ITIMER_VIRTUAL, HISTORY_BUDGET_S, 0.5)
        try:
            return run_history1(args)
        finally:
            signal.setitimer(signal.ITIMER_VIRTUAL, 0)
    except BaseException as e:  # noqa: BLE001
        hseed, nops, quick, subject, fixed_ops = args
        case = {"subject": subject, "init": ["n", []], "ops": [], "hseed": hseed, "nops": nops, "regenerate": fixed_ops is None}
        return {"case": case, "steps": [], "hist": {"harness-exception": 1},
                "fails": [("history-not-observable", case, {"exception": type(e).__name__, "text": str(e)[:300]},
                           {"call": "history", "pattern": "exception-escaped:" + type(e).__name__})]}


def run_history1(args):
    """one history: returns a dict with the case, implementation observations per step, oracle failures"""
    hseed, nops, quick, subject, fixed_ops = args
    rng = random.Random(hseed)
    ctr = [0]
    T = _imports()
    TENSOR_ONLY[0] = subject == "lazy"
    if fixed_ops is None:
        init = gen_tree(rng, ctr)
    else:
        init = val_unjson(fixed_ops["init"])
    ref = copy.deepcopy(init)
    td = build_subject(subject, init)
    fails = []
    nfail = {}
    steps = []       # per step: op, flags, probes, impl outcome, ret, state, obs, results
    hist = {}
    case = {"subject": subject, "init": val_json(init), "ops": []}
    n = nops if fixed_ops is None else len(fixed_ops["ops"])
    # observation of the initial state is step 0 (op = None)
    for i in range(n + 1):
        if i == 0:
            op = None
        elif fixed_ops is None:
            op = gen_op(rng, ref, ctr)
        else:
            op = fixed_ops["ops"][i - 1]["op"]
        st = {"op": op}

        def fail(label, tag, detail, sig, _i=i, _op=op):
            if subject != "td":
                sig = dict(sig, subject=subject)
            fk = (label, json.dumps(sig, sort_keys=True))
            nfail[fk] = nfail.get(fk, 0) + 1
            if nfail[fk] > 1:
                return  # one replayable instance per kind and history is kept; the rest is counted
            c = copy.deepcopy(case)
            c["ops"] = c["ops"][:_i]
            for o in c["ops"]:
                o.setdefault("flags", [list(f) for f in FLAGS])
                o.setdefault("probes", [])
            c["failing_step"] = _i
            c["observation"] = tag
            fails.append((label, c, detail, sig))

        if op is not None:
            hist[op["op"]] = hist.get(op["op"], 0) + 1
            sc = "step-scope:" + theorem_scope(op)
            hist[sc] = hist.get(sc, 0) + 1
            case["ops"].append({"op": op})
            # expectation from the reference (before running the implementation)
            try:
                exp = ("ok",) + r_apply(ref, op)
            except Unspec as e:
                exp = ("unspec", str(e))
            except ExpectRaise as e:
                exp = ("raise", str(e))
            hist["expect:" + exp[0]] = hist.get("expect:" + exp[0], 0) + 1
            before = snap(td)
            r, ret, results = run_op(td, op, rng)
            if op.get("thru_nt"):
                if r[0] == "ok":
                    k = key_unjson(op["key"])
                    g = call(lambda: td.get(k))
                    listed = call(lambda: strings_of(k) in [keyl(x) for x in td.keys(True, is_leaf=T["is_leaf_nontensor"])])
                    member = call(lambda: k in td.keys(True))
                    if g[0] == "ok" and g[1] is not None and not (listed[0] == "ok" and listed[1] and member[0] == "ok" and member[1]):
                        fail("hidden-entry", {"op": op}, {"set": "accepted", "get": summ(g[1]), "listed_by_keys": listed[1], "in_keys": member[1]},
                             {"call": "set", "pattern": "path-through-nontensor-leaf"})
                hist["thru-nontensor-probe"] = hist.get("thru-nontensor-probe", 0) + 1
                case["ops"].pop()
                break
            st["outcome"] = "ok" if r[0] == "ok" else r[1]
            st["exc"] = None if r[0] == "ok" else r[2]
            st["ret"] = ret
            st["results"] = [summ(x) for x in results] if results is not None else None
            # which object carries the history on
            cont = op.get("cont")
            new_td = td
            if r[0] == "ok" and results is not None:
                if op["op"] == "split":
                    if cont is not None:
                        new_td = results[cont]
                elif cont and not op.get("inplace"):
                    new_td = results[0]
            after = snap(td)
            st["state"] = after
            sig = op_signature(op, ref)
            if exp[0] == "unspec":
                pass
            elif exp[0] == "raise":
                if r[0] == "ok":
                    fail("expected-raise", {"op": op}, {"reference": exp[1], "implementation": "no exception", "state": after}, dict(sig, pattern2="no-raise"))
                elif op["op"] in ATOMIC or not op.get("inplace", op["op"] in ("update",)):
                    if not cmp_unordered(after, before):
                        fail("raise-changed-state", {"op": op}, {"before": before, "after": after}, dict(sig, pattern2="raise-not-atomic"))
            else:
                _, new_ref, want_ret, want_results = exp
                if r[0] != "ok":
                    if True:
                        fail("unexpected-raise", {"op": op}, {"reference": "succeeds", "implementation": [r[1], r[2]]}, dict(sig, pattern2="raises"))
                else:
                    if not cmp_unordered(after, val_json(new_ref)):
                        fail("state-after-op", {"op": op}, {"got": after, "want": val_json(new_ref)}, dict(sig, pattern2="state"))
                    if want_ret is not MISSING:
                        w = ["default", want_ret[1]] if (isinstance(want_ret, tuple) and want_ret[0] == "default") else val_json(want_ret)
                        if not (ret == w if w[0] == "default" or (ret and ret[0] == "default") else cmp_unordered(ret, w)):
                            fail("return-value", {"op": op}, {"got": ret, "want": w}, dict(sig, pattern2="return"))
                    if want_results is not None:
                        got = st["results"]
                        if len(got) != len(want_results) or not all(cmp_unordered(g, val_json(w)) for g, w in zip(got, want_results)):
                            fail("result-of-op", {"op": op}, {"got": got, "want": [val_json(w) for w in want_results]}, dict(sig, pattern2="result"))
            td = new_td
            # the reference follows the implementation's storage (so that one failure is reported once and the
            # following steps are still meaningful); read from raw storage, never through the API under test
            st["cont_state"] = snap(td)
            ref = val_unjson(st["cont_state"])
            if not isinstance(ref, dict):
                # the storage itself is no longer a nested dict (members of a lazy stack diverged, cyclic storage ...)
                fail("storage-unreadable", {"op": op}, {"storage": st["cont_state"]}, dict(sig, pattern2="storage-unreadable"))
                steps.append(dict(st, flags=[], probes=[], obs={"views": [], "probes": [], "is_empty": True, "to_dict": ["n", []]}))
                break
        else:
            st["state"] = snap(td)
        # observation requests are drawn against the state they will be evaluated on
        if fixed_ops is None:
            flags, probes = gen_probes(rng, ref, quick)
        elif i == 0:
            flags, probes = fixed_ops.get("flags0", [list(f) for f in FLAGS]), fixed_ops.get("probes0", [])
        else:
            flags, probes = fixed_ops["ops"][i - 1]["flags"], fixed_ops["ops"][i - 1]["probes"]
        st["flags"], st["probes"] = flags, probes
        if op is not None:
            case["ops"][-1]["flags"], case["ops"][-1]["probes"] = flags, probes
        obs = observe(td, [tuple(f) for f in flags], [(k, tuple(f)) for k, f in probes])
        st["obs"] = obs
        oracle_views(ref, obs, [tuple(f) for f in flags], [(k, tuple(f)) for k, f in probes], fail, None)
        if subject == "tc":
            oracle_holder(ref, td, [(k, tuple(f)) for k, f in probes], fail)
        steps.append(st)
    for (label, sigj), n in nfail.items():
        hist["oracle-failure:" + label] = hist.get("oracle-failure:" + label, 0) + n
    return {"case": case, "steps": steps, "fails": fails, "hist": hist}


# =========================================================================================================
# model protocol
# =========================================================================================================
def op_sx(op):
    name = op["op"]
    b = lambda x: Sym("t") if x else Sym("f")  # noqa: E731
    o = lambda x: Sym("none") if x is None else [Sym("some"), x]  # noqa: E731
    if name in ("set", "setitem"):
        return [Sym(name), key_sx(key_unjson(op["key"])), val_sx(op["val"])]
    if name in ("del", "delitem"):
        return [Sym(name), key_sx(key_unjson(op["key"]))]
    if name == "pop":
        return [Sym(name), key_sx(key_unjson(op["key"])), o(op["default"])]
    if name == "rename":
        return [Sym(name), key_sx(key_unjson(op["old"])), key_sx(key_unjson(op["new"])), b(op["safe"])]
    if name == "update":
        return [Sym(name), [[key_sx(key_unjson(k)), val_sx(v)] for k, v in op["items"]]]
    if name == "setdefault":
        return [Sym(name), key_sx(key_unjson(op["key"])), val_sx(op["val"])]
    if name == "select":
        return [Sym(name), [key_sx(key_unjson(k)) for k in op["keys"]], b(op["inplace"]), b(op["strict"]), b(bool(op.get("cont")))]
    if name == "exclude":
        return [Sym(name), [key_sx(key_unjson(k)) for k in op["keys"]], b(op["inplace"]), b(bool(op.get("cont")))]
    if name == "split":
        c = op.get("cont")
        return [Sym(name), [[key_sx(key_unjson(k)) for k in ks] for ks in op["sets"]], b(op["inplace"]), b(op["strict"]),
                o(op["default"]), o(None if c is None else (c if c >= 0 else len(op["sets"])))]
    if name in ("flatten", "unflatten"):
        return [Sym(name), op["sep"], b(op["inplace"]), b(bool(op.get("cont")))]
    return [Sym(name)]


def flags_sx(f):
    inc, lo, so, lm = f
    return [Sym("t") if inc else Sym("f"), Sym("t") if lo else Sym("f"), Sym("t") if so else Sym("f"), Sym(lm)]


def history_line(case):
    steps = []
    for i, s in enumerate([{"op": None, "flags": case.get("flags0"), "probes": case.get("probes0")}] + case["ops"]):
        steps.append([op_sx(s["op"]) if s["op"] is not None else [Sym("nop")],
                      [flags_sx(f) for f in s["flags"]],
                      [[key_sx(key_unjson(k)), flags_sx(f)] for k, f in s["probes"]]])
    return sx([Sym("hist"), ents_sx(case["init"]), steps])


def j2m(j):
    """JSON value -> the shape parse_sx gives for the model's printing of the same value"""
    if j[0] == "n":
        return ["n"] + [[k, j2m(w)] for k, w in j[1]]
    return [j[0], j[1]]


def impl_step_as_model(st):
    """the implementation's observations of one step in the model's output shape"""
    out = []
    if st["op"] is None:
        out.append("ok")
        out.append("none")
        out.append("none")
    else:
        out.append("ok" if st["outcome"] == "ok" else ["raise", "key" if st["outcome"] == "KeyError" else "other"])
        r = st["ret"]
        out.append("none" if r is None else ["some", (["default", r[1]] if r[0] == "default" else j2m(r))])
        out.append("none" if st["results"] is None else ["some", [j2m(x)[1:] for x in st["results"]]])
    out.append(j2m(st["state"])[1:])
    out.append(j2m(st.get("cont_state", st["state"]))[1:])
    enc = lambda x: (["raise", "key" if x[1] == "KeyError" else "other"] if isinstance(x, list) and x[:1] == ["raise"] else x)  # noqa: E731
    views = []
    for (ks, it, vs, ln) in st["obs"]["views"]:
        views.append([enc(ks) if ks[:1] == ["raise"] else ks,
                      enc(it) if it[:1] == ["raise"] else [[k, j2m(v)] for k, v in it],
                      enc(vs) if vs[:1] == ["raise"] else [j2m(v) for v in vs],
                      enc(ln) if isinstance(ln, list) else ln])
    out.append(views)
    probes = []
    for (c1, c2, g1, g2) in st["obs"]["probes"]:
        bb = lambda x: ("t" if x else "f") if isinstance(x, bool) else enc(x)  # noqa: E731
        gg = lambda x: enc(x) if x[:1] == ["raise"] else (x if x in (["none"], ["default"]) else ["val", j2m(x)])  # noqa: E731
        probes.append([bb(c1), bb(c2), gg(g1), gg(g2)])
    out.append(probes)
    e = st["obs"]["is_empty"]
    out.append(("t" if e else "f") if isinstance(e, bool) else enc(e))
    t = st["obs"]["to_dict"]
    out.append(enc(t) if t[:1] == ["raise"] else j2m(t)[1:])
    return out


FIELDS = ["outcome", "return", "results", "state", "continued-state", "views", "probes", "is_empty", "to_dict"]


# =========================================================================================================
# main
# =========================================================================================================
def main(R):
    R.rule = ("a case is one history (subject kind + initial tree + operation list with spelled keys + observation requests: "
              "4 (quick) / 8 (thorough) of the 16 include_nested x leaves_only x sort x is_leaf combinations and as many "
              "membership/get probes after every step); distinct by its content; non-trivial when it has >= 3 operations of "
              ">= 2 kinds and at least one nested key. input_distribution counts operations by kind, by what the oracle "
              "expects (expect:*), by the theorem that covers them (step-scope:*) and histories by subject")
    R.assumptions = [
        "leaves are batch-[2] int64 tensors / NonTensorData strings holding distinct small integers (identity of values)",
        "paths through a NON-TENSOR leaf are never generated (NonTensorData keeps a hidden storage; outside the model)",
        "after every step the oracle's reference is re-read from the raw storage (_tensordict), so one divergence is reported once",
        "order of keys is compared with the model only; the oracle compares key sets / pair sets / sortedness",
        "model correspondence: TensorDict subjects, and lazy stacks of 2-3 TensorDict members with tensor leaves (subjects lazy-hom: "
        "same keys in every member, lazy-het: keys of some members only, tensor/node clashes) for every operation except "
        "split_keys and to_dict; the older 'lazy' subject (split_keys drawn) and tensorclass-held tensordicts are oracle-only",
        "lazy-het: the oracle checks the READ API against the nested dict the stack denotes (keys of every member, values = "
        "list of the members' values) in every state and the effect of an operation only when the members have the same keys",
        "lazy stacks: unflatten_keys (its result depends on the key iteration order, which is not insertion order for a "
        "lazy stack) and in-place select / exclude / flatten_keys / split_keys are not drawn",
    ]
    R.trusted = ["harness/c04.py r_* functions: the plain nested-dict replay (oracle)",
                 "harness/cext.py: g++ rebuild of tensordict/csrc from the working tree, loaded as tensordict._C"]
    R.step_prove()
    ok = R.step_driver()
    _imports()
    nh, nops = (1200, 22) if R.quick else (4000, 50)
    jobs = [(R.rng.getrandbits(48), nops if R.rng.random() < 0.8 else R.rng.randint(3, nops), R.quick, "td", None) for _ in range(nh)]
    # corpus first
    cdir = os.path.join(os.path.dirname(os.path.dirname(os.path.abspath(__file__))), "corpus", PID)
    corpus = []
    if os.path.isdir(cdir):
        for f in sorted(os.listdir(cdir)):
            if f.endswith(".json"):
                cj = json.load(open(os.path.join(cdir, f)))
                corpus.append((0, 0, R.quick, cj.get("subject", "td"), cj))
    nl = 150 if R.quick else 800
    jobs += [(R.rng.getrandbits(48), 16, R.quick, "lazy", None) for _ in range(nl)]
    jobs += [(R.rng.getrandbits(48), 16, R.quick, "tc", None) for _ in range(100 if R.quick else 500)]
    # lazy stacks with the MODEL speaking for them (Model/C04_Lazy.v): same-key members and members with keys of their own
    lnops = 14 if R.quick else 30
    ljobs = [(R.rng.getrandbits(48), lnops, R.quick, "lazy-hom", None) for _ in range(140 if R.quick else 700)]
    ljobs += [(R.rng.getrandbits(48), lnops, R.quick, "lazy-het", None) for _ in range(180 if R.quick else 900)]
    # they run first: the time budget below must never cut them off on a loaded machine
    jobs = corpus + ljobs + jobs
    import multiprocessing as mp
    from . import c04_lazy
    ctx = mp.get_context("fork")
    import hashlib
    unobservable, t0, done = 0, time.time(), 0

    def process(batch):
        """register one batch of histories and compare it with the model (then it is dropped: memory)"""
        lines, tds = [], []
        llines, ltds = [], []
        for res in batch:
            case = res["case"]
            ops = [s_["op"]["op"] for s_ in case["ops"]]
            nested = any("t" in json.dumps(s_["op"]) for s_ in case["ops"])
            R.case(hashlib.sha1(json.dumps(case, sort_keys=True).encode()).hexdigest(),
                   nontrivial=len(ops) >= 3 and len(set(ops)) >= 2 and nested,
                   sample={"subject": case.get("subject", "td"), "init": case.get("init", case.get("members")), "ops": [s_["op"] for s_ in case["ops"][:4]]})
            for k, v in res["hist"].items():
                R.count(k, v)
            for (label, c, detail, sig) in res["fails"]:
                R.oracle_fail(label, c, detail, sig)
            R.traces += len(res["steps"])
            R.count("subject:" + case.get("subject", "td"))
            if res["steps"] and case.get("subject", "td") == "td":
                lines.append(history_line(dict(case, flags0=res["steps"][0]["flags"], probes0=res["steps"][0]["probes"])))
                tds.append(res)
            if res["steps"] and str(case.get("subject")).startswith("lazy-"):
                llines.append(c04_lazy.lhistory_line(case))
                ltds.append(res)
        if ok and llines:
            for res, m in zip(ltds, R.model(llines)):
                if not (isinstance(m, list) and len(m) == len(res["steps"])):
                    R.mismatch("lazy-history", res["case"], "n/a", repr(m)[:400])
                    continue
                for i_, (st, ms) in enumerate(zip(res["steps"], m)):
                    if c04_lazy.has_unmodelled(ms):
                        R.count("lz-model:declines(unmodelled)")
                        break
                    im = c04_lazy.impl_lstep_as_model(st)
                    R.count("lz-model:steps-compared")
                    if im != ms:
                        j_ = next((x for x in range(min(len(im), len(ms))) if im[x] != ms[x]), 0)
                        fld = c04_lazy.LFIELDS[j_]
                        c = dict(res["case"], ops=res["case"]["ops"][:i_], failing_step=i_)
                        if len(R.mismatches) < 200:
                            R.mismatch(f"lazy-step:{st['op']['op'] if st['op'] else 'init'}:{fld}", c, repr(im[j_])[:600], repr(ms[j_])[:600])
                        else:
                            R.mismatches.append(("(more)", None, None, None))
                        R.count("mismatch:lazy:" + (st['op']['op'] if st['op'] else 'init') + ":" + fld)
                        break
        if not ok or not lines:
            return
        out = R.model(lines)
        for res, m in zip(tds, out):
            if not (isinstance(m, list) and len(m) == len(res["steps"])):
                R.mismatch("history", res["case"], "n/a", repr(m)[:400])
                continue
            for i_, (st, ms) in enumerate(zip(res["steps"], m)):
                im = impl_step_as_model(st)
                if im != ms:
                    fld = next((FIELDS[j_] for j_ in range(min(len(im), len(ms))) if im[j_] != ms[j_]), "shape")
                    j_ = FIELDS.index(fld) if fld in FIELDS else 0
                    c = dict(res["case"], ops=res["case"]["ops"][:i_], failing_step=i_)
                    if len(R.mismatches) < 200:
                        R.mismatch(f"step:{st['op']['op'] if st['op'] else 'init'}:{fld}", c,
                                   repr(im[j_] if j_ < len(im) else im)[:600], repr(ms[j_] if j_ < len(ms) else ms)[:600])
                    else:
                        R.mismatches.append(("(more)", None, None, None))
                    R.count("mismatch:" + (st['op']['op'] if st['op'] else 'init') + ":" + fld)
                    break

    batch = []
    with ctx.Pool(min(16, os.cpu_count() or 1)) as pool:
        for res in pool.imap(run_any, jobs, chunksize=4):
            batch.append(res)
            done += 1
            unobservable += 1 if not res["steps"] else 0
            if len(batch) >= 300:
                process(batch)
                batch = []
            # histories that cannot even be observed (time budget, escaped exceptions) are failures by themselves;
            # once there are many, the verdict is settled and the remaining budget is not spent on them
            if unobservable >= 24 or (time.time() - t0 > (150 if R.quick else 1500)):
                R.extra["stopped_early"] = f"{done} of {len(jobs)} histories run ({unobservable} not observable)"
                pool.terminate()
                break
    process(batch)


def replay(body):
    _imports()
    case = body["case"]
    if str(case.get("subject")).startswith("lazy-"):
        from . import c04_lazy
        return c04_lazy.replay_lazy(body)
    if case.get("regenerate"):
        # the history could not be recorded (an exception escaped): regenerate it from its seed
        res = run_history((case["hseed"], case["nops"], body.get("tier", "quick") == "quick", case.get("subject", "td"), None))
    else:
        fixed = {"init": case["init"], "ops": case["ops"], "flags0": [list(f) for f in FLAGS], "probes0": []}
        res = run_history((0, 0, True, case.get("subject", "td"), fixed))
    print("implementation, step by step:")
    for st in res["steps"]:
        print("  op:", json.dumps(st["op"]), "->", st.get("outcome"), st.get("exc"), " state:", json.dumps(st["state"]))
    from .core import load_findings
    known = [f for f in load_findings() if f.get("property") == PID and f.get("kind") == "known"]
    print("oracle failures on replay (new ones first):")
    rows = []
    for (label, c, detail, sig) in res["fails"]:
        hit = next((f["id"] for f in known if f.get("signature") and all(sig.get(k) == v for k, v in f["signature"].items())), None)
        rows.append((hit is not None, f"   step {c.get('failing_step')}: {label} {'[known ' + hit + ']' if hit else '[NEW]'} "
                     f"{json.dumps(c.get('observation'))} {json.dumps(detail, default=str)[:600]} {json.dumps(sig)}"))
    seen = set()
    for _, line in sorted(rows, key=lambda r: r[0]):
        k = line.split("{")[0]
        if k in seen and "[known" in line:
            continue
        seen.add(k)
        print(line)
    try:
        line = history_line(dict(res["case"], flags0=res["steps"][0]["flags"], probes0=res["steps"][0]["probes"]))
        m = _run_model(PID, [line])[0]
        for st, ms in zip(res["steps"], m):
            im = impl_step_as_model(st)
            print("  model agrees" if im == ms else f"  model differs: impl {im!r:.500} model {ms!r:.500}")
    except Exception as e:  # noqa: BLE001
        print("model not available:", e)
    return 0
