"""C02 — shape operations act as on a tensor of the batch shape, expanded to the right (DESIGN.md §4 C02).

Three independent comparisons per case (kept apart, BUILDING.md §6):
  (S) Spec/C02_TorchShape (my Gallina statement of what torch does to a shape) vs REAL torch on a proxy tensor of the
      batch shape  -> a disagreement is a SPEC-MISMATCH (machinery bug, exit 2), never a VIOLATION;
  (O) the spec oracle evaluated directly on the implementation: torch applied to an *index proxy* `idx =
      arange(numel(bs)).reshape(bs)`; the result `r = op(idx)` gives the demanded batch size (r.shape) and the demanded
      element map: every entry of trailing shape `feat` must equal `leaf_of(r, feat)` (= the same operation applied to
      the entry's batch dims, feature dims untouched), nested nodes recursively, same key set, names travelling with
      their dims  -> R.oracle_fail;
  (M) extracted model (Model/C02_ShapeOps) vs implementation: outcome class, batch sizes, names, every leaf shape of
      the whole result tree  -> R.mismatch.
Deepening round: (S2) Spec/C02_TorchElem (element maps) vs real torch on arange proxies; (M2) Model/C02_Elem.leaf_calls
(the torch call made on every tensor + its table of source positions) vs the content of the implementation's result
entries; (M3) the stack dim / batch size of lazy results vs C08's transcription of _permute/_transpose/_squeeze/_unsqueeze.
"""
import itertools
import json
import os
import signal
import sys
import time

from . import cext
from .core import Sym, some, sx

PID = "C02"
ALARM_S = 0.2          # a legal split/chunk takes microseconds; split(0) never returns (D4)
ALARM_RETRY_S = 1.0

_T = {}


def _imports():
    if _T:
        return _T
    cext.install()
    import torch
    import tensordict
    from tensordict import LazyStackedTensorDict, TensorDict, tensorclass
    torch.set_num_threads(1)

    @tensorclass
    class TCFlat:
        a: torch.Tensor
        b: torch.Tensor

    @tensorclass
    class TCNest:
        a: torch.Tensor
        n: TensorDict

    @tensorclass
    class TCWide:
        b: torch.Tensor
        c: torch.Tensor

    @tensorclass
    class TCWideNest:
        b: torch.Tensor
        n: TensorDict

    _T.update(TC={"flat": TCFlat, "nest0": TCNest, "nest1": TCNest, "wide": TCWide, "widenest": TCWideNest}, torch=torch, tensordict=tensordict, TensorDict=TensorDict, Lazy=LazyStackedTensorDict,
              TCFlat=TCFlat, TCNest=TCNest, TDBase=tensordict.TensorDictBase)
    return _T


# ------------------------------------------------------------------ tree patterns
# node = (extra batch dims relative to the parent, {key: feature shape (list) | node})
PATTERNS = {
    "flat": ([], {"a": [], "b": [2, 3]}),
    "nest0": ([], {"a": [2], "n": ([], {"x": [], "y": [3]})}),
    "nest1": ([], {"a": [], "n": ([2], {"x": [], "m": ([1], {"z": [3]})})}),
    "empty": ([], {}),
    # every leaf has feature dims: an operation that reaches past the batch dims is not stopped by a rank-n leaf
    "wide": ([], {"b": [2, 3], "c": [3, 2]}),
    "widenest": ([], {"b": [2, 3], "n": ([2], {"x": [3, 2]})}),
    # every entry has ZERO elements beyond the batch dims: torch calls on the entries cannot see a wrong number of
    # batch elements (finding C02-o)
    "zfeat": ([], {"a": [0], "b": [2, 0]}),
}
KEYID = {"a": 1, "b": 2, "n": 3, "x": 4, "y": 5, "m": 6, "z": 7, "c": 8}
NAMES_MODES = ("none", "full", "part")


def names_of(mode, n):
    if mode == "none" or n == 0:
        return None
    if mode == "full":
        return [f"d{i}" for i in range(n)]
    l = [f"d{i}" if i % 2 == 0 else None for i in range(n)]
    return l


def prod(l):
    p = 1
    for x in l:
        p *= x
    return p


def leaf_of(idx, feat, kid):
    """the entry of feature shape [feat] whose batch element with id i holds (i*nf + j)*16 + kid at feature offset j"""
    torch = _T["torch"]
    nf = prod(feat)
    base = idx.reshape(tuple(idx.shape) + (1,) * len(feat)) * nf
    return (base + torch.arange(nf, dtype=torch.long).reshape(feat)) * 16 + kid


def build_td(idx, node, acc=()):
    """a TensorDict of batch idx.shape ++ acc following the pattern [node]"""
    TensorDict = _T["TensorDict"]
    extra, ents = node
    acc = tuple(acc) + tuple(extra)
    d = {}
    for k, v in ents.items():
        if isinstance(v, tuple):
            d[k] = build_td(idx, v, acc)
        else:
            d[k] = leaf_of(idx, list(acc) + list(v), KEYID[k])
    return TensorDict(d, batch_size=tuple(idx.shape) + acc)


def make_input(case, idx=None):
    """the container under test for [case] (td / lazy stack / tensorclass), named / locked as asked"""
    T = _T
    torch = T["torch"]
    bs = case["bs"]
    if idx is None:
        idx = torch.arange(prod(bs), dtype=torch.long).reshape(bs) + case.get("off", 0)
    node = PATTERNS[case["pat"]]
    cont = case["cont"]
    if cont == "lazy":
        k = case["lazy_dim"]
        members = [build_td(i, node) for i in idx.unbind(k)]
        td = T["Lazy"](*members, stack_dim=k)
    else:
        td = build_td(idx, node)
    nm = names_of(case["names"], len(bs))
    if nm is not None:
        td.names = nm
    if cont == "tc":
        td = T["TC"][case["pat"]]._from_tensordict(td)
    if case.get("locked"):
        td.lock_()
    return td


# ------------------------------------------------------------------ running things under an alarm
class Timeout(BaseException):
    pass


def _on_alarm(signum, frame):
    raise Timeout()


def guarded(f, seconds=ALARM_S):
    """('ok', value) | ('raise', class name) | ('timeout', None)"""
    # CPU time of this process (ITIMER_VIRTUAL), not wall time: a loaded machine cannot make a terminating call "time out"
    old = signal.signal(signal.SIGVTALRM, _on_alarm)
    signal.setitimer(signal.ITIMER_VIRTUAL, seconds)
    try:
        try:
            return ("ok", f())
        finally:
            signal.setitimer(signal.ITIMER_VIRTUAL, 0)
    except Timeout:
        return ("timeout", None)
    except Exception as e:  # noqa: BLE001 -- the exception class is the observation
        return ("raise", type(e).__name__)
    finally:
        signal.signal(signal.SIGVTALRM, old)


def call(f):
    try:
        return ("ok", f())
    except Exception as e:  # noqa: BLE001
        return ("raise", type(e).__name__)


# ------------------------------------------------------------------ the operations: torch side and tensordict side
def _mask_of(case):
    torch = _T["torch"]
    a = case["args"]
    m = torch.zeros(prod(a["mshape"]), dtype=torch.bool)
    for i in a["true"]:
        m[i] = True
    return m.reshape(a["mshape"])


def _index_of(case):
    torch = _T["torch"]
    a = case["args"]
    sh = a["ishape"]
    n = prod(sh)
    mod = max(1, a["mod"])
    return ((torch.arange(n, dtype=torch.long) * 7 + 3) % mod).reshape(sh)


def completed_permutation(dims, n):
    """tensordict documents one extension of torch.permute: a permutation of the first k < n dims stands for that
    permutation followed by the identity on the remaining dims (used for its own recursion into nested nodes).
    The reference is torch on the completed permutation; every other argument goes to torch unchanged."""
    k = len(dims)
    if 0 < k < n or (k == 0 and n > 0):
        norm = [d + n if d < 0 else d for d in dims]
        if sorted(norm) == list(range(k)):
            return list(dims) + list(range(k, n))
    return list(dims)


def torch_apply(case, xs):
    """the operation of [case] applied by torch to tensor(s) xs (list for stack/cat, single otherwise)"""
    torch = _T["torch"]
    op, a = case["op"], case["args"]
    x = xs
    if op == "permute":
        dims = completed_permutation(a["dims"], x.dim())
        return x.permute(*dims) if a.get("sp") == "star" and dims else x.permute(tuple(dims))
    if op == "transpose":
        return x.transpose(a["d0"], a["d1"])
    if op == "squeeze":
        return x.squeeze() if a["dim"] is None else x.squeeze(a["dim"])
    if op == "unsqueeze":
        return x.unsqueeze(a["dim"])
    if op == "expand":
        return x.expand(*a["shape"]) if a["shape"] else x.expand(())
    if op == "view":
        return x.view(tuple(a["shape"]))
    if op == "reshape":
        return x.reshape(tuple(a["shape"]))
    if op == "flatten":
        return x.flatten(a["s"], a["e"])
    if op == "unflatten":
        return x.unflatten(a["dim"], tuple(a["sizes"]))
    if op == "repeat":
        return x.repeat(*a["reps"]) if a["reps"] else x.repeat(())
    if op == "repeat_interleave":
        if a["dim"] is not None and x.dim() == 0:
            # tensordict's coded extension (_td.py repeat_interleave: `if self.ndim == 0: return self.unsqueeze(0)...`):
            # a rank-0 batch is repeated as a batch of one element; the reference is torch on the unsqueezed proxy
            return x.unsqueeze(0).repeat_interleave(a["r"], a["dim"])
        return x.repeat_interleave(a["r"]) if a["dim"] is None else x.repeat_interleave(a["r"], a["dim"])
    if op == "unbind":
        return x.unbind(a["dim"])
    if op == "split":
        return x.split(a["size"], a["dim"])
    if op == "chunk":
        return x.chunk(a["chunks"], a["dim"])
    if op == "gather":
        return x.gather(a["dim"], _index_of(case))
    if op == "masked_select":
        return x.masked_select(_mask_of(case))
    if op == "stack":
        return torch.stack(list(x), a["dim"])
    if op == "cat":
        return torch.cat(list(x), a["dim"])
    raise KeyError(op)


def td_apply(case, tds, out=None):
    """the same operation through tensordict's public API"""
    torch = _T["torch"]
    op, a = case["op"], case["args"]
    td = tds
    sp = a.get("sp")
    if sp == "fn" and case.get("nofn"):
        sp = "m"
    if op == "permute":
        if sp == "star":
            return td.permute(*a["dims"])
        if sp == "kw":
            return td.permute(dims=list(a["dims"]))
        if sp == "fn":
            return torch.permute(td, tuple(a["dims"]))
        return td.permute(tuple(a["dims"]))
    if op == "transpose":
        return torch.transpose(td, a["d0"], a["d1"]) if sp == "fn" else td.transpose(a["d0"], a["d1"])
    if op == "squeeze":
        if a["dim"] is None:
            return torch.squeeze(td) if sp == "fn" else td.squeeze()
        return torch.squeeze(td, a["dim"]) if sp == "fn" else td.squeeze(a["dim"])
    if op == "unsqueeze":
        return torch.unsqueeze(td, a["dim"]) if sp == "fn" else td.unsqueeze(a["dim"])
    if op == "expand":
        return td.expand(*a["shape"]) if sp == "star" and a["shape"] else td.expand(tuple(a["shape"]))
    if op == "view":
        if sp == "star" and a["shape"]:
            return td.view(*a["shape"])
        if sp == "kw":
            return td.view(size=tuple(a["shape"]))
        return td.view(tuple(a["shape"]))
    if op == "reshape":
        return td.reshape(*a["shape"]) if sp == "star" and a["shape"] else td.reshape(tuple(a["shape"]))
    if op == "flatten":
        return torch.flatten(td, a["s"], a["e"]) if sp == "fn" else td.flatten(a["s"], a["e"])
    if op == "unflatten":
        return torch.unflatten(td, a["dim"], tuple(a["sizes"])) if sp == "fn" else td.unflatten(a["dim"], tuple(a["sizes"]))
    if op == "repeat":
        return td.repeat(*a["reps"])
    if op == "repeat_interleave":
        return td.repeat_interleave(a["r"]) if a["dim"] is None else td.repeat_interleave(a["r"], dim=a["dim"])
    if op == "unbind":
        return torch.unbind(td, a["dim"]) if sp == "fn" else td.unbind(a["dim"])
    if op == "split":
        return torch.split(td, a["size"], a["dim"]) if sp == "fn" else td.split(a["size"], a["dim"])
    if op == "chunk":
        return td.chunk(a["chunks"], a["dim"])
    if op == "gather":
        return torch.gather(td, a["dim"], _index_of(case)) if sp == "fn" else td.gather(a["dim"], _index_of(case))
    if op == "masked_select":
        return torch.masked_select(td, _mask_of(case)) if sp == "fn" else td.masked_select(_mask_of(case))
    if op == "stack":
        if out is not None:
            return torch.stack(list(td), a["dim"], out=out)
        return _T["TensorDict"].stack(list(td), a["dim"]) if sp == "cls" else torch.stack(list(td), a["dim"])
    if op == "cat":
        if out is not None:
            return torch.cat(list(td), a["dim"], out=out)
        return _T["TensorDict"].cat(list(td), a["dim"]) if sp == "cls" else torch.cat(list(td), a["dim"])
    raise KeyError(op)


# operations whose ELEMENT map is stated in Spec/C02_TorchElem (e_src) and proved to be batch_map (x) id_feat
ELEM_OPS = ("permute", "transpose", "squeeze", "unsqueeze", "expand", "view", "reshape", "flatten", "unflatten", "repeat",
            "repeat_interleave")
ELEM_MAX = 1500


def elem_case(case):
    """the calls whose element table is compared (root call as torch sees it)"""
    op, a = case["op"], case["args"]
    if op not in ELEM_OPS:
        return False
    if op == "permute" and len(a["dims"]) != len(case["bs"]):
        return False
    if op == "repeat_interleave" and (a["dim"] is None or not case["bs"]):
        return False
    return True


def lazy_modelled(case):
    op, a = case["op"], case["args"]
    if op == "permute":
        return len(a["dims"]) == len(case["bs"])
    if op == "squeeze":
        return a["dim"] is not None
    return op in ("transpose", "unsqueeze")


def lazy_line(case):
    bs, k = list(case["bs"]), case["lazy_dim"]
    return sx([Sym("lazy"), Sym(case["op"]), k, bs[:k] + bs[k + 1:], bs[k]] + args_sx_plain(case))


def args_sx_plain(case):
    op, a = case["op"], case["args"]
    if op == "squeeze":
        return [a["dim"]]
    return args_sx(case)


def leaf_tables(res):
    """depth-first (sorted keys) list of [shape, source positions] of the tensors of a result tree: an entry built by
    leaf_of holds (p * 16 + key id) where p is the row-major position in the INPUT entry"""
    T = _T
    if not isinstance(res, T["TDBase"]) and hasattr(res, "_tensordict"):
        res = res._tensordict
    out = []
    for k in sorted(res.keys()):
        v = res.get(k)
        if isinstance(v, T["torch"].Tensor):
            out.append([list(v.shape), (v.flatten() // 16).tolist()])
        else:
            out.extend(leaf_tables(v))
    return out


MULTI_OUT = ("unbind", "split", "chunk")
MULTI_IN = ("stack", "cat")


# ------------------------------------------------------------------ names: which source dim does result dim i carry?
def provenance(case, bs, rshape):
    """for every dim of the (single) result of shape rshape: the source dim it *is* (same axis of the data), or None.
    Written from the meaning of the operation; independent of tensordict's code."""
    op, a = case["op"], case["args"]
    n = len(bs)

    def nd(d, m=None):
        m = n if m is None else m
        return d + m if d < 0 else d
    if op == "permute":
        return [nd(d) for d in completed_permutation(a["dims"], n)]
    if op == "transpose":
        if n == 0:
            return []
        p = list(range(n))
        i, j = nd(a["d0"]), nd(a["d1"])
        p[i], p[j] = p[j], p[i]
        return p
    if op == "squeeze":
        if n == 0:
            return []
        if a["dim"] is None:
            return [i for i in range(n) if bs[i] != 1]
        d = nd(a["dim"])
        return [i for i in range(n) if not (i == d and bs[i] == 1)]
    if op == "unsqueeze":
        d = nd(a["dim"], n + 1)
        p = list(range(n))
        p.insert(d, None)
        return p
    if op == "expand":
        k = len(rshape) - n
        return [None] * k + list(range(n))
    if op == "flatten":
        if n == 0:
            return [None]
        s, e = nd(a["s"]), nd(a["e"])
        if s == e:
            return list(range(n))
        return list(range(s)) + [None] + list(range(e + 1, n))
    if op == "unflatten":
        d = nd(a["dim"])
        k = len(a["sizes"])
        if k == 1:
            return list(range(n))
        return list(range(d)) + [("maybe", d)] * k + list(range(d + 1, n))
    if op in ("repeat",):
        k = len(rshape) - n
        return [None] * k + [("maybe", i) for i in range(n)]
    if op == "repeat_interleave":
        if a["dim"] is None or n == 0:
            return [("maybe", 0)] if n == 1 else [None]
        return [("maybe", i) for i in range(n)]
    if op == "unbind":
        d = nd(a["dim"])
        return [i for i in range(n) if i != d]
    if op in ("split", "chunk", "gather", "cat"):
        return list(range(n))
    if op == "stack":
        d = nd(a["dim"], n + 1)
        p = [("maybe", i) for i in range(n)]
        p.insert(d, None)
        return p
    if op == "masked_select":
        return [None]
    if op in ("view", "reshape"):
        # a dim survives a reshape iff its size, the number of elements before it and after it are unchanged;
        # with size-0/size-1 dims around that is ambiguous: then nothing is demanded beyond "no foreign name"
        if prod(bs) == 0 or 1 in bs or 1 in rshape:
            return None
        out = []
        for i, s_ in enumerate(rshape):
            src = None
            for j, t in enumerate(bs):
                if t == s_ and prod(bs[:j]) == prod(rshape[:i]):
                    src = ("maybe", j)
                    break
            out.append(src)
        return out
    return None


# ------------------------------------------------------------------ observation of a result tree
def snapshot(res):
    """canonical tree of a tensor collection: [bs, names, [[key, leafshape | tree] ...sorted]] (what (M) compares)"""
    T = _T
    if not isinstance(res, T["TDBase"]) and hasattr(res, "_tensordict"):
        res = res._tensordict
    bs = list(res.batch_size)
    nm = res.names if res._has_names() else None
    if nm is not None:
        nm = list(nm)
        if all(x is None for x in nm):
            nm = None
    ents = []
    for k in sorted(res.keys()):
        v = res.get(k)
        if isinstance(v, T["torch"].Tensor):
            ents.append([k, ["leaf", list(v.shape)]])
        else:
            ents.append([k, snapshot(v)])
    return ["node", bs, nm, ents]


def snap_sx(s):
    """the canonical tree as the model prints it"""
    if s[0] == "leaf":
        return [Sym("leaf"), list(s[1])]
    _, bs, nm, ents = s
    return [Sym("node"), list(bs), enc_names(nm), [[k, snap_sx(v)] for k, v in ents]]


def enc_names(nm):
    if nm is None:
        return None
    return [Sym("some"), [Sym("none") if x is None else [Sym("some"), x] for x in nm]]


def parsed_tree(p):
    """model output (parsed sexp) -> same canonical python structure as snapshot()"""
    if p[0] == "leaf":
        return ["leaf", list(p[1])]
    _, bs, nm, ents = p
    if nm == "none":
        names = None
    else:
        names = [None if x == "none" else x[1] for x in nm[1]]
        if all(x is None for x in names):
            names = None
    return ["node", list(bs), names, [[k, parsed_tree(v)] for k, v in ents]]


# ------------------------------------------------------------------ (O) the oracle on one result tree
def check_tree(res, r, node, exp_names, acc=(), path=""):
    """first deviation of the real result [res] from what the property demands, or None.
    r: torch's result on the index proxy (its shape = demanded batch size, its content = demanded element map)."""
    T = _T
    torch = T["torch"]
    if not isinstance(res, T["TDBase"]):
        if hasattr(res, "_tensordict"):
            res = res._tensordict
        else:
            return ("result-type", f"{path or 'root'}: {type(res).__name__}")
    extra, ents = node
    acc = tuple(acc) + tuple(extra)
    want_bs = tuple(r.shape) + acc
    if tuple(res.batch_size) != want_bs:
        return ("batch-size", f"{path or 'root'}: batch_size {list(res.batch_size)} demanded {list(want_bs)}")
    got_keys = sorted(res.keys())
    if got_keys != sorted(ents.keys()):
        return ("key-set", f"{path or 'root'}: keys {got_keys} demanded {sorted(ents.keys())}")
    for k, v in ents.items():
        try:
            val = res.get(k)
        except Exception as e:  # noqa: BLE001
            return ("entry-unreadable", f"{path}{k}: get raised {type(e).__name__}")
        if isinstance(v, tuple):
            sub = check_tree(val, r, v, exp_names, acc, path + k + ".")
            if sub is not None:
                return sub
        else:
            if not isinstance(val, torch.Tensor):
                return ("entry-type", f"{path}{k}: {type(val).__name__}")
            want = leaf_of(r, list(acc) + list(v), KEYID[k])
            if tuple(val.shape) != tuple(want.shape):
                return ("entry-shape", f"{path}{k}: shape {list(val.shape)} demanded {list(want.shape)} "
                                       f"(batch_size {list(res.batch_size)})")
            if not torch.equal(val, want):
                return ("entry-value", f"{path}{k}: values differ from the operation applied to the entry's batch dims")
    # names
    try:
        nm = list(res.names) if res._has_names() else None
    except Exception as e:  # noqa: BLE001
        return ("names-unreadable", f"{path or 'root'}: names raised {type(e).__name__}")
    if nm is not None and len(nm) != len(want_bs):
        return ("names-length", f"{path or 'root'}: {len(nm)} names for {len(want_bs)} dims: {nm}")
    if exp_names is not None:
        want_nm = list(exp_names) + [(None,)] * len(acc)
        got = nm if nm is not None else [None] * len(want_bs)
        for i, (g, w) in enumerate(zip(got, want_nm)):
            if g not in w:
                cls = "names-dropped" if g is None else "names-misplaced"
                return (cls, f"{path or 'root'}: names {got} allowed per dim {[list(x) for x in want_nm]}")
    return None


def expected_names(case, bs, rshape):
    """per result dim: the set of names the property allows there (None = unnamed), or None if nothing can be demanded.
    A dim that *is* a source dim must keep that dim's name; a new dim is unnamed; where tensordict erases names of
    surviving dims (repeat, repeat_interleave, stack, view/reshape) or keeps the name on a piece of a split dim
    (unflatten) both spellings are allowed -- but never a name that belongs to another dim."""
    src = names_of(case["names"], len(bs))
    if src is None:
        return [(None,)] * len(rshape)
    prov = provenance(case, bs, rshape)
    if prov is None or len(prov) != len(rshape):
        return None
    out = []
    for p in prov:
        if p is None:
            out.append((None,))
        elif isinstance(p, tuple):
            out.append((None, src[p[1]]))
        else:
            out.append((src[p],))
    return out


# ------------------------------------------------------------------ one case: torch, implementation, oracle
def operands(case):
    """index proxies (and their batch shapes) of the operand(s) of [case]"""
    torch = _T["torch"]
    if case["op"] in MULTI_IN:
        xs, off = [], 0
        for sh in case["shapes"]:
            xs.append(torch.arange(prod(sh), dtype=torch.long).reshape(sh) + off)
            off += max(1, prod(sh)) + 3
        return xs
    bs = case["bs"]
    return torch.arange(prod(bs), dtype=torch.long).reshape(bs)


def make_operands(case, xs):
    if case["op"] in MULTI_IN and case.get("full_entries"):
        # operands whose ENTRIES all have the shapes of the longest declared batch shape, while the declared batch sizes
        # differ in rank (a batch size may be any prefix of the entries' common leading dims): finding C02-p
        torch = _T["torch"]
        full = max(case["shapes"], key=len)
        tds, off = [], 0
        for sh in case["shapes"]:
            x = torch.arange(prod(full), dtype=torch.long).reshape(full) + off
            off += max(1, prod(full)) + 3
            td = make_input(dict(case, bs=list(full)), idx=x)
            if list(sh) != list(full):
                if td.is_locked:
                    td.unlock_()
                td.batch_size = list(sh)
                if case.get("locked"):
                    td.lock_()
            tds.append(td)
        return tds
    if case["op"] in MULTI_IN:
        tds = []
        for x in xs:
            c = dict(case, bs=list(x.shape))
            tds.append(make_input(c, idx=x))
        return tds
    return make_input(case, idx=xs)


def make_out(case, r):
    """destination for the out= variants: 'ok' = right shape, zero-filled; 'bad' = wrong batch shape"""
    torch = _T["torch"]
    kind = case.get("out")
    if kind is None:
        return None
    if r is None:
        # torch rejects the call: any destination will do; give one shaped like the first operand
        sh = list(case["shapes"][0])
    else:
        sh = list(r.shape)
    if kind.endswith("bad"):
        sh = sh + [2] if len(sh) < 2 else [sh[0] + 1] + sh[1:]
    idx = torch.zeros(sh, dtype=torch.long)
    c = dict(case, bs=sh, locked=False)
    if kind.startswith("lazy"):
        if not sh:
            return None
        ks = [k for k in range(len(sh)) if sh[k] > 0]
        if not ks:
            return None
        c["cont"] = "lazy"
        c["lazy_dim"] = ks[case.get("out_lazy_dim", 0) % len(ks)]
    else:
        c["cont"] = "td"
    o = make_input(c, idx=idx)
    # zero the content (the pattern builder wrote key ids into it)
    return o.apply(lambda t: t * 0) if c["cont"] == "td" else o


def tor_canon(t):
    if t[0] != "ok":
        return "reject"
    r = t[1]
    if isinstance(r, (tuple, list)):
        return ["ok", [list(x.shape) for x in r]]
    return ["ok", list(r.shape)]


def run_case(case):
    """returns dict(tor=canonical torch outcome, impl=canonical implementation observation, fails=[(class, detail)],
    restricted=bool)"""
    T = _imports()
    op = case["op"]
    xs = operands(case)
    tor = call(lambda: torch_apply(case, xs))
    out = {"tor": tor_canon(tor), "fails": [], "restricted": False}
    try:
        inp = make_operands(case, xs)
    except Exception as e:  # noqa: BLE001 -- cannot even build the input: not a case
        out["impl"] = ["unbuildable", type(e).__name__]
        return out
    try:
        out["in_snap"] = [snapshot(t) for t in inp] if op in MULTI_IN else snapshot(inp)
    except Exception as e:  # noqa: BLE001
        out["impl"] = ["unbuildable", type(e).__name__]
        return out
    if op == "permute":
        raw = call(lambda: xs.permute(tuple(case["args"]["dims"])))
        out["tor_raw"] = tor_canon(raw)
    if op == "repeat_interleave" and case["args"]["dim"] is not None and not case["bs"]:
        out["tor_raw"] = tor_canon(call(lambda: xs.repeat_interleave(case["args"]["r"], case["args"]["dim"])))
    dest = None
    if case.get("out"):
        try:
            dest = make_out(case, tor[1] if tor[0] == "ok" else None)
        except Exception as e:  # noqa: BLE001
            out["impl"] = ["unbuildable", type(e).__name__]
            return out
        if dest is None:
            out["impl"] = ["unbuildable", "no-dest"]
            return out
        out["out_snap"] = snapshot(dest)
    wrong_dest = bool(case.get("out")) and case["out"].endswith("bad")
    timed = op in ("split", "chunk")
    res = guarded(lambda: td_apply(case, inp, dest), ALARM_S) if timed else call(lambda: td_apply(case, inp, dest))
    if res[0] == "timeout":
        res = guarded(lambda: td_apply(case, make_operands(case, xs), dest), ALARM_RETRY_S)
    # ---- canonical observation for (M)
    if res[0] == "ok":
        try:
            v = res[1]
            if isinstance(v, (tuple, list)):
                out["impl"] = ["ok", [snapshot(x) for x in v]]
            else:
                out["impl"] = ["ok", snapshot(v)]
        except Exception as e:  # noqa: BLE001
            out["impl"] = ["ok-unobservable", type(e).__name__]
    elif res[0] == "raise":
        out["impl"] = ["raise", res[1]]
    else:
        out["impl"] = ["timeout"]
    # ---- (O)
    legal = tor[0] == "ok" and not wrong_dest
    if case["cont"] == "lazy" and not legal:
        out["restricted"] = True        # lazy sub-domain: only arguments torch accepts are judged
        return out
    if legal and restriction(case) is not None:
        # torch accepts, tensordict's documented contract does not cover this spelling: nothing to compare
        out["restricted"] = True
        return out
    if res[0] == "timeout":
        out["fails"].append(("non-termination", "call did not return within %.1fs of CPU time (and again within %.1fs)" % (ALARM_S, ALARM_RETRY_S)))
        return out
    if not legal:
        if res[0] == "ok":
            coh = "?"
            try:
                coh = coherent(res[1])
            except Exception:  # noqa: BLE001
                pass
            out["fails"].append(("accepts-illegal", f"torch rejects these arguments on a tensor of the batch shape "
                                                    f"({tor[1] if tor[0] != 'ok' else 'wrong out= shape'}); tensordict returned "
                                                    f"{describe(res[1])}; result coherent={coh}"))
        return out
    if res[0] == "raise":
        out["fails"].append(("rejects-legal", f"torch accepts (result {out['tor'][1]}); tensordict raised {res[1]}"))
        return out
    r, v = tor[1], res[1]
    bs = case["bs"] if op not in MULTI_IN else case["shapes"][0]
    node = PATTERNS[case["pat"]]
    if case["cont"] == "lazy" and lazy_modelled(case):
        # (M3) the stack-dim bookkeeping of the lazy result against C08's transcription (C02_lazy_permute speaks about it)
        out["lazy_obs"] = ["ok", int(v.stack_dim), list(v.batch_size)] if isinstance(v, T["Lazy"]) else ["other", type(v).__name__]
    if elem_case(case) and r.numel() <= ELEM_MAX:
        out["tor_flat"] = r.flatten().tolist()
        if case["cont"] in MODELLED_CONT and v is not inp:
            try:
                lt = leaf_tables(v)
                if sum(len(x[1]) for x in lt) <= 4 * ELEM_MAX:
                    out["leaf_tabs"] = lt
            except Exception:  # noqa: BLE001
                pass
    if isinstance(r, (tuple, list)):
        if not isinstance(v, (tuple, list)):
            out["fails"].append(("result-type", f"a sequence of {len(r)} results is demanded, got {type(v).__name__}"))
            return out
        if len(v) != len(r):
            out["fails"].append(("result-count", f"{len(v)} results, torch gives {len(r)} for a tensor of the batch shape"))
            return out
        for i, (ri, vi) in enumerate(zip(r, v)):
            f = check_tree(vi, ri, node, expected_names(case, bs, list(ri.shape)))
            if f is not None:
                out["fails"].append((f[0], f"result[{i}] " + f[1]))
                return out
        return out
    en = expected_names(case, bs, list(r.shape))
    if dest is not None:
        # out=: the destination must hold the result (its names are its own business); so must the returned object
        f = check_tree(dest, r, node, None)
        if f is not None:
            out["fails"].append((f[0], "out= destination: " + f[1]))
            return out
        en = None
    f = check_tree(v, r, node, en)
    if f is not None:
        out["fails"].append(f)
    return out


def coherent(v):
    """every entry's leading dims equal the batch size, recursively (only used to describe an accepted illegal call)"""
    T = _T
    if isinstance(v, (tuple, list)):
        return all(coherent(x) for x in v)
    if not isinstance(v, T["TDBase"]) and hasattr(v, "_tensordict"):
        v = v._tensordict
    n = len(v.batch_size)
    for k in v.keys():
        x = v.get(k)
        if tuple(x.shape[:n]) != tuple(v.batch_size):
            return False
        if not isinstance(x, T["torch"].Tensor) and not coherent(x):
            return False
    return True


def describe(v):
    if isinstance(v, (tuple, list)):
        return "[" + ", ".join(describe(x) for x in v[:6]) + (", ..." if len(v) > 6 else "") + "]"
    try:
        return f"batch_size {list(v.batch_size)}"
    except Exception:  # noqa: BLE001
        return type(v).__name__


# ------------------------------------------------------------------ documented domain restrictions of tensordict
def restriction(case):
    """tensordict documents/enforces a smaller domain than torch for some spellings; rejecting those is not a
    deviation of a *result* from torch.  Decidable from the case; anything else rejected = oracle failure."""
    op, a = case["op"], case["args"]
    bs = case["bs"] if op not in MULTI_IN else case["shapes"][0]
    n = len(bs)

    def nd(d, m=None):
        m = n if m is None else m
        return d + m if d < 0 else d
    if case["cont"] == "lazy" and op == "permute" and len(a["dims"]) != n:
        return "lazy:prefix-permutation"   # the prefix-permutation extension is TensorDict's only
    return RESTRICTIONS.get(op, lambda *_: None)(case, a, bs, n, nd)


RESTRICTIONS = {}


def restrict(op):
    def deco(f):
        RESTRICTIONS[op] = f
        return f
    return deco


# ------------------------------------------------------------------ failure signatures
def signature(case, fclass):
    """(public call, container, failure class, minimal input pattern) -- the pattern is a decidable predicate of the case"""
    op, a = case["op"], case["args"]
    bs = case["bs"] if op not in MULTI_IN else case["shapes"][0]
    n = len(bs)

    def nd(d, m=None):
        m = n if m is None else m
        return d + m if d < 0 else d
    pat = "other"
    f = PATTERN_OF.get(op)
    if f is not None:
        try:
            pat = f(case, a, bs, n, nd, fclass) or "other"
        except Exception:  # noqa: BLE001
            pat = "other"
    sig = {"call": op, "cont": case["cont"], "fail": fclass, "pattern": pat}
    if op in MULTI_IN:
        sig["out"] = (case.get("out") or "none").split("-")[0]
    return sig


PATTERN_OF = {}


def pattern(op):
    def deco(f):
        PATTERN_OF[op] = f
        return f
    return deco


# ------------------------------------------------------------------ generators (one PRNG: R.rng)
def all_batch_shapes(maxrank=4, sizes=(0, 1, 2, 3)):
    out = []
    for n in range(maxrank + 1):
        out.extend(list(t) for t in itertools.product(sizes, repeat=n))
    return out


def compositions(n):
    """all compositions of n into positive parts"""
    if n == 0:
        return [[]]
    out = []
    for first in range(1, n + 1):
        for rest in compositions(n - first):
            out.append([first] + rest)
    return out


def _sample(rng, l, cap):
    if len(l) <= cap:
        return l
    return rng.sample(l, cap)


def gen_args(op, bs, rng, cap):
    """legal and illegal arguments of [op] for a batch shape [bs]; every dim incl. negative and one past each end"""
    n = len(bs)
    dims = list(range(-n - 1, n + 1))          # valid: -n .. n-1
    dims_ins = list(range(-n - 2, n + 2))      # valid: -n-1 .. n
    A = []
    if op == "permute":
        perms = [list(p) for p in itertools.permutations(range(n))]
        for p in perms:
            A.append({"dims": p, "sp": rng.choice(["star", "tuple", "kw", "fn"])})
            if n:
                neg = [d - n if rng.random() < 0.5 else d for d in p]
                if neg != p:
                    A.append({"dims": neg, "sp": rng.choice(["star", "tuple"])})
        if n >= 1:
            A.append({"dims": list(range(n - 1)), "sp": "tuple"})               # too short
            A.append({"dims": list(range(n + 1)), "sp": "tuple"})               # too long
            A.append({"dims": [n] + list(range(1, n)), "sp": "tuple"})          # out of range
            A.append({"dims": [-n - 1] + list(range(1, n)), "sp": "tuple"})
        if n >= 2:
            A.append({"dims": [0] * n, "sp": "tuple"})                          # repeated
            A.append({"dims": [0, -n] + list(range(2, n)), "sp": "tuple"})      # repeated through a negative spelling
            A.append({"dims": list(reversed(range(1, n))), "sp": "tuple"})      # short and not a prefix permutation
            p = list(range(n - 1))
            p[0], p[-1] = p[-1], p[0]
            A.append({"dims": p, "sp": "star"})                                 # short prefix permutation
    elif op == "transpose":
        for d0 in dims:
            for d1 in dims:
                A.append({"d0": d0, "d1": d1, "sp": rng.choice(["m", "m", "fn"])})
    elif op == "squeeze":
        A.append({"dim": None, "sp": rng.choice(["m", "fn"])})
        for d in dims:
            A.append({"dim": d, "sp": rng.choice(["m", "m", "fn"])})
    elif op == "unsqueeze":
        for d in dims_ins:
            A.append({"dim": d, "sp": rng.choice(["m", "m", "fn"])})
    elif op == "expand":
        per = []
        for s in bs:
            o = [s, -1, s + 1]
            if s == 1:
                o += [0, 3]
            if s > 1:
                o += [1]
            per.append(o)
        lead = [[], [2], [0], [1, 3], [-1]]
        combos = []
        for l in lead:
            for t in itertools.product(*per):
                combos.append(list(l) + list(t))
        # single deviations first, then a sample of the product
        base = [c for c in combos if sum(1 for x, y in zip(c[len(c) - n:], bs) if x != y) <= 1]
        rest = [c for c in combos if c not in base]
        for c in _sample(rng, base, cap) + _sample(rng, rest, cap // 2):
            A.append({"shape": c, "sp": rng.choice(["star", "tuple"])})
        if n >= 1:
            A.append({"shape": list(bs[1:]), "sp": "tuple"})   # too short
    elif op in ("view", "reshape"):
        numel = prod(bs)
        targets = [s for s in ALL_BS if prod(s) == numel]
        wrong = [s for s in ALL_BS if prod(s) != numel and len(s) <= 3]
        T = []
        for s in targets:
            T.append(s)
            for i in range(len(s)):
                T.append(s[:i] + [-1] + s[i + 1:])
        T = _sample(rng, T, cap)
        for s in _sample(rng, wrong, max(4, cap // 8)):
            T.append(s)
            if s:
                i = rng.randrange(len(s))
                T.append(s[:i] + [-1] + s[i + 1:])
        T.append([-1, -1])
        T.append([-2] + list(bs[1:]))
        T.append([-1])
        T.append(list(bs))
        for s in T:
            A.append({"shape": list(s), "sp": rng.choice(["star", "tuple", "kw"] if op == "view" else ["star", "tuple"])})
    elif op == "flatten":
        for s in dims:
            for e in dims:
                A.append({"s": s, "e": e, "sp": rng.choice(["m", "m", "fn"])})
    elif op == "unflatten":
        vals = [-1, 0, 1, 2, 3]
        sizes = [[a] for a in vals] + [[a, b] for a in vals for b in vals]
        sizes3 = [[a, b, c] for a in vals for b in vals for c in vals]
        for d in dims:
            dn = d + n if d < 0 else d
            tgt = bs[dn] if 0 <= dn < n else 1
            good = [s for s in sizes + sizes3 if -1 not in s and prod(s) == tgt]
            good += [s for s in sizes + sizes3 if s.count(-1) == 1 and prod([x for x in s if x != -1]) != 0
                     and tgt % prod([x for x in s if x != -1]) == 0]
            bad = [s for s in sizes if s not in good]
            for s in _sample(rng, good, max(4, cap // 4)) + _sample(rng, bad, max(3, cap // 8)):
                A.append({"dim": d, "sizes": s, "sp": rng.choice(["m", "m", "fn"])})
            A.append({"dim": d, "sizes": [], "sp": "m"})
    elif op == "repeat":
        combos = [list(t) for t in itertools.product([0, 1, 2], repeat=n)]
        for c in _sample(rng, combos, cap):
            A.append({"reps": c})
        A.append({"reps": [2] * (n + 1)})
        if n >= 1:
            A.append({"reps": [2] * (n - 1)})
            A.append({"reps": [-1] + [1] * (n - 1)})
            A.append({"reps": [3] + [1] * (n - 1)})
    elif op == "repeat_interleave":
        for r in (0, 1, 2, 3, -1):
            A.append({"r": r, "dim": None})
            for d in dims:
                A.append({"r": r, "dim": d})
    elif op == "unbind":
        for d in dims:
            A.append({"dim": d, "sp": rng.choice(["m", "m", "fn"])})
    elif op == "split":
        for d in dims:
            dn = d + n if d < 0 else d
            sz = bs[dn] if 0 <= dn < n else 2
            for k in range(-1, sz + 2):
                A.append({"size": k, "dim": d, "sp": rng.choice(["m", "m", "fn"])})
            lists = compositions(sz)
            extra = [[0] + c for c in lists[:2]] + [c + [0] for c in lists[:2]] + [[sz + 1], [sz, 1], [sz + 2, 1]]
            if sz >= 1:
                extra += [[sz - 1], [1] * (sz + 1), [sz + 1, -1], [-1, sz + 1], [0] * 2 + [sz], [2, 2] if sz == 3 else [sz, 0, 1]]
            extra += [[]]
            for l in _sample(rng, lists, cap) + extra:
                A.append({"size": list(l), "dim": d, "sp": rng.choice(["m", "m", "fn"])})
    elif op == "chunk":
        for d in dims:
            for c in range(-1, 6):
                A.append({"chunks": c, "dim": d})
    elif op == "gather":
        for d in dims:
            dn = d + n if d < 0 else d
            for k in (0, 1, 2, 4):
                if 0 <= dn < n:
                    sh = list(bs)
                    sh[dn] = k
                    mod = bs[dn]
                else:
                    sh = list(bs) if n else []
                    mod = 1
                A.append({"dim": d, "ishape": sh, "mod": mod, "sp": rng.choice(["m", "fn"])})
            if 0 <= dn < n:
                # other dims smaller (torch-legal), bigger (illegal), rank mismatch (illegal)
                for j in range(n):
                    if j != dn:
                        sh = list(bs)
                        sh[dn] = 2
                        if bs[j] >= 1:
                            sh2 = list(sh)
                            sh2[j] = bs[j] - 1
                            A.append({"dim": d, "ishape": sh2, "mod": bs[dn], "sp": "m"})
                        sh3 = list(sh)
                        sh3[j] = bs[j] + 1
                        A.append({"dim": d, "ishape": sh3, "mod": bs[dn], "sp": "m"})
                A.append({"dim": d, "ishape": list(bs) + [1], "mod": bs[dn], "sp": "m"})
                if n >= 2:
                    A.append({"dim": d, "ishape": list(bs[:-1]), "mod": bs[dn], "sp": "m"})
        # torch.gather returns early for an empty index without validating it: keep empty indices regular
        A = [x for x in A if prod(x["ishape"]) > 0 or (len(x["ishape"]) == n and all(
            x["ishape"][i] <= bs[i] for i in range(n) if i != (x["dim"] + n if x["dim"] < 0 else x["dim"])))]
    elif op == "masked_select":
        numel = prod(bs)
        pats = [[], list(range(numel)), [i for i in range(numel) if i % 2 == 0], [i for i in range(numel) if (i * 5 + 1) % 3 == 0]]
        for t in pats:
            A.append({"mshape": list(bs), "true": t, "sp": rng.choice(["m", "fn"])})
        for j in range(n):
            if bs[j] != 1:
                sh = list(bs)
                sh[j] = 1
                A.append({"mshape": sh, "true": [i for i in range(prod(sh)) if i % 2 == 0], "sp": "m"})   # broadcast (torch-legal)
                sh = list(bs)
                sh[j] = bs[j] + 1
                A.append({"mshape": sh, "true": [i for i in range(prod(sh)) if i % 2 == 0], "sp": "m"})   # mismatch
        if n >= 1:
            A.append({"mshape": list(bs[1:]), "true": [0] if prod(bs[1:]) else [], "sp": "m"})            # lower rank (right-aligned broadcast)
    else:
        raise KeyError(op)
    return A


def gen_multi(op, bs, rng, cap):
    """operand lists (1..4) for stack / cat along every dim, with and without out="""
    n = len(bs)
    C = []
    outs = [None, None, "td-ok", "td-bad", "lazy-ok"]
    if op == "stack":
        for d in range(-n - 2, n + 2):
            for k in (1, 2, 3, 4):
                C.append({"shapes": [list(bs)] * k, "args": {"dim": d, "sp": rng.choice(["fn", "fn", "cls"])}, "out": rng.choice(outs)})
            if n >= 1:
                other = list(bs)
                j = rng.randrange(n)
                other[j] = bs[j] + 1
                C.append({"shapes": [list(bs), other], "args": {"dim": d, "sp": "fn"}, "out": None})
                C.append({"shapes": [list(bs), list(bs[:-1])], "args": {"dim": d, "sp": "fn"}, "out": None})
    else:
        for d in range(-n - 1, n + 1):
            dn = d + n if d < 0 else d
            for k in (1, 2, 3, 4):
                for _ in range(2 if k > 1 else 1):
                    shapes = []
                    for i in range(k):
                        s = list(bs)
                        if 0 <= dn < n and i > 0:
                            s[dn] = rng.choice([0, 1, 2, 3])
                        shapes.append(s)
                    C.append({"shapes": shapes, "args": {"dim": d, "sp": rng.choice(["fn", "fn", "cls"])}, "out": rng.choice(outs)})
            if n >= 2 and 0 <= dn < n:
                other = list(bs)
                j = (dn + 1) % n
                other[j] = bs[j] + 1
                C.append({"shapes": [list(bs), other], "args": {"dim": d, "sp": "fn"}, "out": None})
            if n >= 2:
                C.append({"shapes": [list(bs), list(bs[:-1]) if prod(bs[:-1]) or len(bs) != 2 else list(bs) + [1]],
                          "args": {"dim": d, "sp": "fn"}, "out": None})
    if op == "cat" and n >= 2:
        for d in range(-n, n - 1):
            C.append({"shapes": [list(bs), list(bs[:-1])], "args": {"dim": d, "sp": "fn"}, "out": None, "full_entries": True})
            C.append({"shapes": [list(bs[:-1]), list(bs)], "args": {"dim": d, "sp": "fn"}, "out": None, "full_entries": True})
    if op == "cat":
        # torch.cat skips operands of shape exactly [0] (legacy); outside the property's vocabulary unless it is an
        # ordinary rank-1 concatenation
        C = [c for c in C if not any(s == [0] for s in c["shapes"])
             or (all(len(s) == 1 for s in c["shapes"]) and c["args"]["dim"] in (-1, 0))]
    return _sample(rng, C, cap * 2)


ALL_BS = all_batch_shapes()
LAZY_WEIGHT = 3
UNARY_OPS = ("permute", "transpose", "squeeze", "unsqueeze", "expand", "view", "reshape", "flatten", "unflatten", "repeat",
             "repeat_interleave", "unbind", "split", "chunk", "gather", "masked_select")


LAZY_OPS = ("chunk", "expand", "flatten", "masked_select", "reshape", "squeeze", "unsqueeze", "unbind", "stack", "cat",
            "permute", "gather", "transpose")


def config_for(rng, bs, op, shapes=None):
    """container / nesting / names / lock configuration of a case.
    Lazy stacks take part in a sub-domain only: batch sizes over {2, 3} (a lazy stack degenerates on size-0/1 dims),
    unnamed, the operations of LAZY_OPS, and (run_case) arguments torch accepts; the rest of the lazy-stack
    behaviour belongs to C08 (lazy == dense) and C01 (names)."""
    n = len(bs)
    cont = rng.choice(["td"] * 6 + ["tc"] * 2 + ["lazy"] * LAZY_WEIGHT)
    if cont == "lazy" and (n == 0 or op not in LAZY_OPS
                           or not all(all(x in (2, 3) for x in s_) for s_ in (shapes or [bs]))):
        cont = "td"
    pat = rng.choice(["flat", "flat", "nest0", "nest1", "nest1", "empty", "wide", "widenest", "zfeat"])
    if cont == "tc" and pat in ("empty", "zfeat"):
        pat = "flat"
    c = {"cont": cont, "pat": pat, "names": rng.choice(NAMES_MODES) if cont != "lazy" else "none", "locked": rng.random() < 0.3}
    if cont == "tc" and op not in ("stack", "cat", "split"):
        c["nofn"] = True   # function spellings on a tensorclass only for the overrides the property names
    if cont == "lazy":
        ks = [k for k in range(n) if bs[k] > 0]
        if not ks:
            c["cont"] = "td"
        else:
            c["lazy_dim"] = rng.choice(ks)
    return c


def lazy_stream(rng, quick):
    """every stack dim x every (full) permutation / pair of dims / dim of the lazy sub-domain (batch sizes over {2, 3}):
    the stack-dim arithmetic of _permute / _transpose / _squeeze / _unsqueeze is where a slip hides from involutions"""
    out = []
    for n in (1, 2, 3, 4):
        for bs in itertools.product((2, 3), repeat=n):
            for k in range(n):
                base = {"cont": "lazy", "lazy_dim": k, "names": "none", "locked": False, "bs": list(bs)}
                for p in itertools.permutations(range(n)):
                    dims = [d - n if rng.random() < 0.3 else d for d in p]
                    out.append(dict(base, pat=rng.choice(["flat", "nest1", "wide"]), op="permute", args={"dims": dims, "sp": rng.choice(["star", "tuple", "fn"])}))
                for d0 in range(-n, n):
                    for d1 in range(-n, n):
                        out.append(dict(base, pat=rng.choice(["flat", "nest0"]), op="transpose", args={"d0": d0, "d1": d1, "sp": "m"}))
                for d in range(-n - 1, n + 1):
                    out.append(dict(base, pat="flat", op="unsqueeze", args={"dim": d, "sp": "m"}))
    if not quick:
        return out
    return (_sample(rng, [c for c in out if c["op"] == "permute"], 300) + _sample(rng, [c for c in out if c["op"] == "transpose"], 200)
            + _sample(rng, [c for c in out if c["op"] == "unsqueeze"], 100))


def gen_cases(rng, quick, budget):
    """the grid: every batch shape x every op x the argument lists above, each with a drawn configuration.
    quick: a stratified sample (per op) of [budget] cases; thorough: the whole grid (argument lists capped per bs)."""
    cap = 12 if quick else 40
    per_op = {}
    for op in UNARY_OPS + MULTI_IN:
        L = []
        for bs in ALL_BS:
            if op in MULTI_IN:
                for m in gen_multi(op, bs, rng, cap):
                    cfg = config_for(rng, bs, op, m["shapes"])
                    if m.get("full_entries"):
                        cfg["cont"] = "td"
                        cfg.pop("lazy_dim", None)
                        cfg["names"] = "none"
                        if cfg["pat"] == "empty":
                            cfg["pat"] = "flat"
                    case = dict(cfg, op=op, bs=list(bs), **m)
                    if case["out"] is not None:
                        case["out_lazy_dim"] = rng.randrange(4)
                    L.append(case)
            else:
                for a in gen_args(op, bs, rng, cap):
                    cfg = config_for(rng, bs, op)
                    L.append(dict(cfg, op=op, bs=list(bs), args=a))
        per_op[op] = L
    if quick:
        share = budget // len(per_op)
        out = []
        for op, L in per_op.items():
            # stratify by rank so that rank-4 shapes (256 of 341) do not crowd out the small ones
            by_rank = {}
            for c in L:
                by_rank.setdefault(len(c["bs"]), []).append(c)
            w = {0: 0.06, 1: 0.14, 2: 0.25, 3: 0.30, 4: 0.25}
            for rk, l in by_rank.items():
                out.extend(_sample(rng, l, max(1, int(share * w[rk]))))
        return out + lazy_stream(rng, quick)
    return [c for L in per_op.values() for c in L] + lazy_stream(rng, quick)


# ------------------------------------------------------------------ restrictions (tensordict's documented, narrower domain)
# Each predicate is decidable from the case and describes an explicit guard / documented argument contract of
# tensordict; a call that torch accepts and tensordict rejects OUTSIDE these is an oracle failure (rejects-legal).
@restrict("flatten")
def _r_flatten(case, a, bs, n, nd):
    # base.py flatten: "The end dimension must be strictly greater than the start dim." (torch: start == end is a no-op,
    # rank 0 flattens to [1])
    if n == 0:
        return "rank-0"
    s, e = nd(a["s"]), nd(a["e"])
    if s >= e:
        return "start>=end"
    return None


@restrict("repeat")
def _r_repeat(case, a, bs, n, nd):
    # base.py repeat: "The number of repeat elements must match the number of dimensions of the tensordict."
    return "len(repeats)!=ndim" if len(a["reps"]) != n else None


@restrict("transpose")
def _r_transpose(case, a, bs, n, nd):
    return "rank-0" if n == 0 else None     # torch lets a 0-dim tensor be transposed over dims in [-1, 0]


@restrict("squeeze")
def _r_squeeze(case, a, bs, n, nd):
    return "rank-0" if n == 0 and a["dim"] is not None else None


@restrict("masked_select")
def _r_masked(case, a, bs, n, nd):
    # tensordict's masked_select is boolean indexing by a mask of the batch shape; torch additionally broadcasts
    return "mask-not-batch-shaped" if list(a["mshape"]) != list(bs) else None


@restrict("gather")
def _r_gather(case, a, bs, n, nd):
    # base.py gather docstring: index has the tensordict's number of dims, "with only one dimension differring";
    # _torch_func._gather: "Cannot use torch.gather with an empty index" (len(index) == 0)
    sh = a["ishape"]
    if n == 0:
        return "rank-0"
    if len(sh) == 0 or sh[0] == 0:
        return "empty-index"
    return None


@restrict("split")
def _r_split(case, a, bs, n, nd):
    # _td.py split: "Insufficient number of elements in split_size." (torch returns () for [] on an empty dim)
    return "empty-list" if a["size"] == [] else None


# ------------------------------------------------------------------ minimal input patterns of the failures seen on /repo
def _leafless(case):
    return case["pat"] == "empty"


def _zero_numel_entries(case):
    """every entry has zero elements beyond the batch dims (pattern zfeat): the per-entry torch calls cannot see a
    wrong number of batch elements, nor an index that is out of bounds (finding C02-o)"""
    return case["pat"] == "zfeat"


@pattern("split")
def _p_split(case, a, bs, n, nd, f):
    d = nd(a["dim"])
    if not (0 <= d < n):
        return None
    sz = bs[d]
    k = a["size"]
    if isinstance(k, int):
        if f == "non-termination" and (k < 0 or (k == 0 and sz > 0)):
            return "int<=0"
        return None
    if f == "accepts-illegal":
        if any(x < 0 for x in k):
            return "list-negative-entry"
        if sum(k) > sz:
            return "list-sum>size"
    return None


@pattern("chunk")
def _p_chunk(case, a, bs, n, nd, f):
    d = nd(a["dim"])
    if f == "result-count" and 0 <= d < n and bs[d] == 0 and a["chunks"] > 1:
        return "size-0-dim"
    return None


@pattern("squeeze")
def _p_squeeze(case, a, bs, n, nd, f):
    named = names_of(case["names"], n) is not None
    if a["dim"] is None and not named and f == "rejects-legal" and n >= 1 and all(s == 1 for s in bs) \
            and case["pat"] in ("flat", "nest0", "nest1"):
        return "dim=None,all-dims-1,featureless-entry"
    if a["dim"] is None and named:
        if f == "rejects-legal" and n >= 1 and all(s == 1 for s in bs):
            return "dim=None,names,all-dims-1"
        if f == "names-dropped" and 1 in bs and case["pat"] in ("nest0", "nest1", "widenest"):
            return "dim=None,names,nested-node"
    return None


@pattern("expand")
def _p_expand(case, a, bs, n, nd, f):
    sh = a["shape"]
    if len(sh) >= n and n:
        tail = sh[len(sh) - n:]
        if f == "batch-size" and any(t == -1 and o == 1 for t, o in zip(tail, bs)) \
                and not any(t == -1 and o != 1 for t, o in zip(tail, bs)):
            return "-1-at-singleton-dim"
    if f == "accepts-illegal" and _leafless(case):
        return "leafless"
    return None


def _zero_numel_infer(shape, bs):
    return prod(bs) == 0 and shape.count(-1) == 1 and all(x >= -1 for x in shape)


@pattern("view")
def _p_view(case, a, bs, n, nd, f):
    if f in ("rejects-legal", "batch-size") and _zero_numel_infer(a["shape"], bs):
        return "-1-with-size-0-batch"
    if f == "accepts-illegal" and _leafless(case):
        return "leafless"
    if f == "accepts-illegal" and _zero_numel_entries(case) and all(x >= 0 for x in a["shape"]) and prod(a["shape"]) != prod(bs):
        return "zero-numel-entries,other-numel"
    return None


PATTERN_OF["reshape"] = _p_view


@pattern("repeat_interleave")
def _p_ri(case, a, bs, n, nd, f):
    if a["dim"] is None:
        if f in ("rejects-legal", "batch-size") and prod(bs) == 0 and n >= 2:
            return "-1-with-size-0-batch"          # goes through reshape(-1)
        if f == "accepts-illegal" and _leafless(case):
            return "leafless"
        return None
    if f == "accepts-illegal":
        if a["dim"] >= n and n >= 1:
            return "dim>=rank"
        if _leafless(case):
            return "leafless"
    if f in ("entry-shape", "batch-size") and a["dim"] >= n:
        return "dim>=rank"
    return None


@pattern("flatten")
def _p_flatten(case, a, bs, n, nd, f):
    if f == "accepts-illegal":
        if a["e"] >= n and n >= 1 and not _leafless(case):
            return "end>=rank"
        if _leafless(case):
            return "leafless"
    return None


@pattern("unflatten")
def _p_unflatten(case, a, bs, n, nd, f):
    if f in ("batch-size", "accepts-illegal") and a["sizes"].count(-1) >= 1 and not _leafless(case):
        return "-1-in-sizes"
    if f == "batch-size" and a["sizes"].count(-1) == 1:
        return "-1-in-sizes"
    if f == "accepts-illegal" and _leafless(case):
        return "leafless"
    return None


@pattern("gather")
def _p_gather(case, a, bs, n, nd, f):
    sh = a["ishape"]
    d = nd(a["dim"])
    if f == "accepts-illegal" and _zero_numel_entries(case) and len(sh) == n and 0 <= d < n:
        return "zero-numel-entries"
    if f == "accepts-illegal" and len(sh) < n and not _leafless(case):
        return "index-rank<batch-rank"
    if f == "accepts-illegal" and len(sh) > n and not _leafless(case):
        return "index-rank>batch-rank"
    if f in ("entry-shape", "accepts-illegal") and len(sh) == n and 0 <= d < n and not _leafless(case) \
            and any(sh[i] == 1 and bs[i] != 1 for i in range(n) if i != d):
        return "index-size-1-off-dim"
    if f == "accepts-illegal" and _leafless(case):
        return "leafless"
    return None


@pattern("stack")
def _p_stack(case, a, bs, n, nd, f):
    if f == "accepts-illegal":
        if a["dim"] > n:
            return "dim>rank"
        if a["dim"] < -(n + 1):
            return "dim<-(rank+1)"
        if _leafless(case):
            return "leafless"
    return None


@pattern("cat")
def _p_cat(case, a, bs, n, nd, f):
    if case["cont"] == "lazy" and (case.get("out") or "").startswith("lazy") and f in ("entry-value", "entry-shape", "rejects-legal", "batch-size"):
        return "lazy-operands,out=lazy"
    if f == "accepts-illegal":
        if a["dim"] < -n:
            return "dim<-rank"
        if _leafless(case):
            return "leafless"
        if case.get("full_entries") and any(len(s_) != n for s_ in case["shapes"]) and 0 <= nd(a["dim"]) < min(len(s_) for s_ in case["shapes"]):
            return "operand-batch-ranks-differ,entries-agree"
    return None


def _p_leafless_only(case, a, bs, n, nd, f):
    if f == "accepts-illegal" and _leafless(case):
        return "leafless"
    return None


@pattern("permute")
def _p_permute(case, a, bs, n, nd, f):
    k = len(a["dims"])
    if f == "names-length" and k < n and completed_permutation(a["dims"], n) != list(a["dims"]):
        return "prefix-permutation,names"
    return _p_leafless_only(case, a, bs, n, nd, f)


@pattern("repeat")
def _p_repeat(case, a, bs, n, nd, f):
    if f == "rejects-legal" and n == 0 and a["reps"] == [] and case["pat"] in ("flat", "nest0", "nest1"):
        return "rank-0,no-repeats,featureless-entry"
    return _p_leafless_only(case, a, bs, n, nd, f)


@pattern("transpose")
def _p_transpose(case, a, bs, n, nd, f):
    if case["cont"] == "lazy" and n:
        i, j = sorted((nd(a["d0"]), nd(a["d1"])))
        if case["lazy_dim"] in (i, j) and j - i >= 2 and f in ("batch-size", "entry-value", "entry-shape", "rejects-legal"):
            return "lazy:stack-dim-involved,distance>=2"
    return _p_leafless_only(case, a, bs, n, nd, f)


@pattern("masked_select")
def _p_masked(case, a, bs, n, nd, f):
    if case["cont"] == "lazy" and f == "rejects-legal" and not a["true"] and case["pat"] in ("nest0", "nest1", "widenest"):
        return "lazy:nested-entry,mask-all-false"
    return _p_leafless_only(case, a, bs, n, nd, f)


for _op in ("unsqueeze", "unbind"):
    PATTERN_OF[_op] = _p_leafless_only


# ------------------------------------------------------------------ protocol lines for the extracted spec and model
def _opt(x):
    return some(x)


def args_sx(case):
    op, a = case["op"], case["args"]
    if op == "permute":
        return [list(a["dims"])]
    if op == "transpose":
        return [a["d0"], a["d1"]]
    if op == "squeeze":
        return [_opt(a["dim"])]
    if op == "unsqueeze":
        return [a["dim"]]
    if op in ("expand", "view", "reshape"):
        return [list(a["shape"])]
    if op == "flatten":
        return [a["s"], a["e"]]
    if op == "unflatten":
        return [a["dim"], list(a["sizes"])]
    if op == "repeat":
        return [list(a["reps"])]
    if op == "repeat_interleave":
        return [a["r"], _opt(a["dim"])]
    if op == "unbind":
        return [a["dim"]]
    if op == "split":
        k = a["size"]
        return [[Sym("int"), k] if isinstance(k, int) else [Sym("list"), list(k)], a["dim"]]
    if op == "chunk":
        return [a["chunks"], a["dim"]]
    if op == "gather":
        return [a["dim"], list(a["ishape"])]
    if op in ("stack", "cat"):
        return [a["dim"]]
    raise KeyError(op)


def mask_counts(case):
    """(# True in the mask itself, # True after broadcasting mask and batch shape together) -- None if not broadcastable"""
    torch = _T["torch"]
    m = _mask_of(case)
    own = int(m.sum())
    try:
        sh = torch.broadcast_shapes(tuple(case["bs"]), tuple(m.shape))
        return own, int(m.expand(sh).sum())
    except RuntimeError:
        return own, 0


def spec_line(case):
    op = case["op"]
    sym = Sym("t-" + op.replace("_", "-"))
    if op in MULTI_IN:
        return sx([Sym("spec"), sym, [list(s) for s in case["shapes"]]] + args_sx(case))
    if op == "masked_select":
        own, bc = mask_counts(case)
        return sx([Sym("spec"), sym, list(case["bs"]), list(case["args"]["mshape"]), bc])
    return sx([Sym("spec"), sym, list(case["bs"])] + args_sx(case))


def model_line(case, in_snap, out_snap=None):
    op = case["op"]
    sym = Sym("td-" + op.replace("_", "-"))
    if op in MULTI_IN:
        return sx([Sym("model"), sym, [snap_sx(s) for s in in_snap]] + args_sx(case) + [some(snap_sx(out_snap)) if out_snap else None])
    if op == "masked_select":
        own, bc = mask_counts(case)
        return sx([Sym("model"), sym, snap_sx(in_snap), list(case["args"]["mshape"]), own])
    return sx([Sym("model"), sym, snap_sx(in_snap)] + args_sx(case))


def elem_args_sx(case):
    op, a = case["op"], case["args"]
    if op == "repeat_interleave":
        return [a["r"], a["dim"]]
    return args_sx(case)


def elem_line(case):
    return sx([Sym("elem"), Sym(case["op"].replace("_", "-")), list(case["bs"])] + elem_args_sx(case))


def calls_line(case, in_snap):
    return sx([Sym("calls"), Sym(case["op"].replace("_", "-")), snap_sx(in_snap)] + elem_args_sx(case))


def model_canon(p):
    """parsed model output -> the canonical form of out['impl']"""
    if p == "diverges":
        return ["timeout"]
    if isinstance(p, list) and p and p[0] == "raise":
        return ["raise"]
    if isinstance(p, list) and p and p[0] == "ok":
        return ["ok", parsed_tree(p[1])]
    if isinstance(p, list) and p and p[0] == "oks":
        return ["ok", [parsed_tree(t) for t in p[1]]]
    return ["model-error", p]


def spec_canon(p):
    if p == "reject":
        return "reject"
    if isinstance(p, list) and p and p[0] == "ok":
        return ["ok", list(p[1])]
    if isinstance(p, list) and p and p[0] == "oks":
        return ["ok", [list(x) for x in p[1]]]
    return ["spec-error", p]


MODELLED_CONT = ("td", "tc")


def _worker(chunk):
    _imports()
    out = []
    for i, c in chunk:
        try:
            r = run_case(c)
        except Exception as e:  # noqa: BLE001 -- a crash of the machinery on one case must not kill the run silently
            import traceback
            r = {"crash": traceback.format_exc()[-1500:]}
        out.append((i, r))
    return out


def run_all(cases, procs):
    import multiprocessing as mp
    idx = list(enumerate(cases))
    if procs <= 1 or len(cases) < 200:
        return [r for _, r in _worker(idx)]
    chunks = [idx[k::procs * 4] for k in range(procs * 4)]
    with mp.get_context("fork").Pool(procs) as p:
        res = [x for l in p.map(_worker, chunks) for x in l]
    res.sort(key=lambda t: t[0])
    return [r for _, r in res]


def load_corpus():
    d = os.path.join(os.path.dirname(os.path.dirname(os.path.abspath(__file__))), "corpus", PID)
    out = []
    if os.path.isdir(d):
        for f in sorted(os.listdir(d)):
            if f.endswith(".json"):
                out.append(json.load(open(os.path.join(d, f))))
    return out


def main(R):
    R.rule = ("grid: every batch shape of rank 0..4 over sizes {0,1,2,3} (341) x 18 operations x argument lists (every dim "
              "incl. negative and one past each end, every permutation, every split size 0..n+1 and composition, target "
              "shapes incl. -1, 1..4 operands for stack/cat with/without out=), each case with a drawn configuration "
              "(TensorDict / tensorclass, 6 nesting patterns incl. nested batch longer than the parent, leafless, "
              "feature-only leaves; unnamed / named / partly named; locked or not); quick = stratified sample of the "
              "grid, thorough = the whole grid. A case is distinct by (op, batch shape, arguments, configuration); "
              "non-trivial when the batch rank is >= 1 and the tensordict has at least one entry")
    R.assumptions = ["torch kernels are the referent: what torch returns for an index proxy of the batch shape defines "
                     "the demanded batch size and element map (validated against Spec/C02_TorchShape in this run)",
                     "tensordict's documented narrower domains (flatten start<end, repeat len=ndim, "
                     "masked_select mask of batch shape, gather with an empty first index dim, rank-0 spellings) are outside "
                     "the comparison; permute of a prefix permutation is compared with torch on the completed permutation",
                     "function spellings torch.f(tensorclass) only for stack/cat/split",
                     "lazy stacks: see notes/C02-selftest.md"]
    R.trusted = ["Spec/C02_TorchShape validated against real torch on every generated case of this run (SPEC-MISMATCH = exit 2)",
                 "Spec/PySlice (shared) for the slices taken by split",
                 "harness/c02.py oracle: index-proxy construction of the demanded entries",
                 "Spec/C02_TorchElem (element maps of torch) validated against real torch on every legal generated call of its operations (SPEC-MISMATCH = exit 2)",
                 "Model/C08_Lazy (C08's transcription of the lazy shape ops, read-only) compared with the lazy results' stack dim and batch size in this run"]
    R.step_prove()
    ok = R.step_driver()
    _imports()
    rng = R.rng
    corpus = load_corpus()
    t0 = time.time()
    cases = corpus + gen_cases(rng, R.quick, 26000)
    R.extra["gen_wall_s"] = round(time.time() - t0, 1)
    t0 = time.time()
    results = run_all(cases, 12 if R.quick else 16)
    R.extra["impl_wall_s"] = round(time.time() - t0, 1)
    R.exhaustive = False   # thorough enumerates batch shapes x operations x dims completely, but caps long argument lists (expand, view, unflatten)
    R.extra["grid"] = "quick: stratified sample; thorough: all 341 batch shapes x 18 operations, every dim / permutation / split size, long argument lists capped at 40 per batch shape"
    # ---- spec + model
    spec_lines, model_lines, model_idx = [], [], []
    for i, (c, r) in enumerate(zip(cases, results)):
        if "crash" in r:
            continue
        spec_lines.append(spec_line(c))
    crashed = [(c, r) for c, r in zip(cases, results) if "crash" in r]
    if crashed:
        raise RuntimeError("the harness crashed on a case: " + json.dumps(crashed[0][0]) + "\n" + crashed[0][1]["crash"])
    spec_res = R.model(spec_lines, shards=12) if ok else None
    for i, (c, r) in enumerate(zip(cases, results)):
        if ok and c["cont"] in MODELLED_CONT and r["impl"][0] in ("ok", "raise", "timeout") and "in_snap" in r \
                and modelled(c):
            model_lines.append(model_line(c, r["in_snap"], r.get("out_snap")))
            model_idx.append(i)
    model_res = R.model(model_lines, shards=12) if model_lines else []
    spec_bad = 0
    pending = []
    for i, (c, r) in enumerate(zip(cases, results)):
        op = c["op"]
        key = json.dumps(c, sort_keys=True)
        bs = c["bs"]
        R.case(key, nontrivial=len(bs) >= 1 and c["pat"] != "empty",
               sample={"case": c, "torch": r["tor"], "tensordict": r["impl"][0]} if i % 4001 == 17 else None)
        R.count("op:" + op)
        R.count("container:" + c["cont"])
        R.count("rank:%d" % len(bs))
        R.count("pattern:" + c["pat"])
        R.count("names:" + c["names"])
        R.count("torch:" + ("legal" if r["tor"] != "reject" else "illegal") + "/tensordict:" + r["impl"][0])
        if r.get("restricted"):
            R.count("outside-common-domain(restriction)")
        elif r["tor"] != "reject" and not r["fails"] and c["cont"] in MODELLED_CONT and not c.get("out") \
                and not (op in ("view", "reshape") and -1 in c["args"]["shape"]) \
                and not (op == "repeat_interleave" and (c["args"]["dim"] is None or not bs)):
            # torch-legal, inside tensordict's domain, outside the recorded defects: the hypotheses of the C02_* theorems hold
            R.count("inside-theorem-domain")
            R.count("inside-theorem-domain:" + op)
        if r["impl"][0] == "unbuildable":
            continue
        # (S) my spec of torch against real torch
        if spec_res is not None:
            want = r.get("tor_raw", r["tor"])
            got = spec_canon(spec_res[i])
            if got != want:
                spec_bad += 1
                R.count("spec-mismatch:" + op)
                if R.hist["spec-mismatch:" + op] <= 6:
                    print(f"SPEC-MISMATCH Spec/C02_TorchShape {spec_lines[i]}: torch {want} spec {got}", file=sys.stderr)
        # (O) collected, reported smallest case first (a cheap stand-in for shrinking: the replay written for a new
        # failure is the simplest generated case that shows it)
        for (fclass, detail) in r["fails"]:
            pending.append((complexity(c), i, fclass, detail))
        R.traces += 1
    pending.sort(key=lambda t: (t[0], t[1]))
    for (_, i, fclass, detail) in pending:
        c, r = cases[i], results[i]
        sig = signature(c, fclass)
        R.count("oracle-failure:" + fclass)
        R.oracle_fail("shape-op:" + fclass, c, {"what": detail, "torch": r["tor"], "tensordict": r["impl"]
                      if r["impl"][0] != "ok" else "ok"}, sig)
    # (M)
    for j, i in enumerate(model_idx):
        c, r = cases[i], results[i]
        mo = model_canon(model_res[j])
        io = impl_canon(r["impl"])
        R.count("model-compared")
        if mo != io:
            R.mismatch("td-" + c["op"], c, io, mo)
    # (S2) Spec/C02_TorchElem against real torch: the source position of every result position of the root call;
    # (M2) the torch calls the model says are made on the tensors (Model/C02_Elem.leaf_calls) against the content of the
    #      result entries of the implementation
    if ok:
        el_idx = [i for i, r in enumerate(results) if "tor_flat" in r]
        el_res = R.model([elem_line(cases[i]) for i in el_idx], shards=12) if el_idx else []
        for j, i in enumerate(el_idx):
            R.count("elem-spec-compared")
            got = el_res[j]
            want = results[i]["tor_flat"]
            if not (isinstance(got, list) and got and got[0] == "table" and list(got[1]) == want):
                spec_bad += 1
                R.count("spec-mismatch:elem:" + cases[i]["op"])
                if R.hist["spec-mismatch:elem:" + cases[i]["op"]] <= 6:
                    print(f"SPEC-MISMATCH Spec/C02_TorchElem {elem_line(cases[i])}: torch {want[:40]} spec {str(got)[:200]}", file=sys.stderr)
        cl_idx = [i for i, r in enumerate(results) if "leaf_tabs" in r and not r["fails"] and not r.get("restricted")
                  and modelled(cases[i]) and "in_snap" in r]
        cl_res = R.model([calls_line(cases[i], results[i]["in_snap"]) for i in cl_idx], shards=12) if cl_idx else []
        for j, i in enumerate(cl_idx):
            R.count("leaf-calls-compared")
            got = cl_res[j]
            mo = [[list(x[1]), list(x[2][1])] if isinstance(x[2], list) and x[2] and x[2][0] == "table" else ["none", x]
                  for x in got] if isinstance(got, list) else ["model-error", got]
            io = results[i]["leaf_tabs"]
            R.traces += 1
            if mo != io:
                R.mismatch("td-leaf-calls-" + cases[i]["op"], cases[i], [x[0] for x in io] + [sum(len(x[1]) for x in io)], str(mo)[:400])
    if ok:
        lz_idx = [i for i, r in enumerate(results) if "lazy_obs" in r and not r["fails"]]
        lz_res = R.model([lazy_line(cases[i]) for i in lz_idx], shards=4) if lz_idx else []
        for j, i in enumerate(lz_idx):
            R.count("lazy-stack-dim-compared")
            R.count("lazy-stack-dim-compared:" + cases[i]["op"])
            got = lz_res[j]
            mo = ["ok", got[1], list(got[2])] if isinstance(got, list) and got and got[0] == "ok" else ["model", got]
            R.traces += 1
            if mo != results[i]["lazy_obs"]:
                R.mismatch("lazy-" + cases[i]["op"], cases[i], results[i]["lazy_obs"], mo)
    if spec_bad:
        raise RuntimeError(f"{spec_bad} SPEC-MISMATCH lines: Spec/C02_TorchShape disagrees with torch (machinery bug)")


def complexity(c):
    shapes = c.get("shapes") or [c["bs"]]
    return (len(shapes[0]), sum(sum(s) for s in shapes), len(shapes), {"flat": 0, "wide": 1, "empty": 1, "zfeat": 1, "nest0": 2, "widenest": 3,
            "nest1": 4}[c["pat"]], c["cont"] != "td", c["names"] != "none", bool(c.get("locked")), len(json.dumps(c["args"])))


def impl_canon(impl):
    if impl[0] == "raise":
        return ["raise"]
    return impl


def modelled(case):
    """the part of the API Model/C02_ShapeOps transcribes"""
    if case["op"] == "masked_select" and case["names"] != "none":
        # a mask over fewer dims than the batch makes the constructor adopt names from nested entries (C01's
        # territory): only masks covering every batch dim are modelled on named trees
        ms = list(case["args"]["mshape"])
        while len(ms) > len(case["bs"]) and ms and ms[-1] == 1:
            ms.pop()
        if len(ms) < len(case["bs"]):
            return False
    return case["op"] in MODELLED_OPS and not (case.get("out") or "").startswith("lazy")


MODELLED_OPS = {"permute", "transpose", "squeeze", "unsqueeze", "expand", "view", "reshape", "flatten", "unflatten", "repeat",
                "repeat_interleave", "unbind", "split", "chunk", "gather", "stack", "cat", "masked_select"}


def replay(body):
    _imports()
    case = body.get("case", body)      # a replay file, or a bare case (corpus/C02/*.json)
    print("case:", json.dumps(case))
    print("recorded:", json.dumps(body.get("detail"), default=str)[:600])
    r = run_case(case)
    print("torch on the index proxy:", r["tor"])
    print("tensordict:", json.dumps(r["impl"], default=str)[:1500])
    print("oracle:", r["fails"] if r["fails"] else "holds" + (" (outside the common domain)" if r.get("restricted") else ""))
    for f in r["fails"]:
        print("signature:", signature(case, f[0]))
    from .core import run_model
    try:
        print("spec :", spec_line(case), "->", run_model(PID, [spec_line(case)])[0])
        if "in_snap" in r and case["cont"] in MODELLED_CONT and modelled(case):
            ml = model_line(case, r["in_snap"], r.get("out_snap"))
            print("model:", ml[:300], "->", json.dumps(run_model(PID, [ml])[0])[:1500])
    except Exception as e:  # noqa: BLE001
        print("model not available:", e)
    return 1 if r["fails"] else 0
