"""C06 helpers: building locked subjects from JSON descriptors, walking real tensordict objects without touching any
memoised method, canonical observations (values, shapes, key order, aliasing classes), the unlocked twin, the read fronts."""
import shutil
import tempfile

import torch
from tensordict import LazyStackedTensorDict, NonTensorData, NonTensorStack, TensorDict
from tensordict.base import _NESTED_TENSORS_AS_LISTS, _default_is_leaf, _is_leaf_nontensor, TensorDictBase
from tensordict.utils import _make_cache_key

DT = {"i64": torch.int64, "f32": torch.float32, "f64": torch.float64, "u8": torch.uint8, "i32": torch.int32}
DTN = {v: k for k, v in DT.items()}


# ------------------------------------------------------------------------------------------------- classification
def is_nt(x):
    return isinstance(x, (NonTensorData, NonTensorStack))


def is_node(x):
    return isinstance(x, TensorDictBase) and not is_nt(x)


def is_lazy(x):
    return isinstance(x, LazyStackedTensorDict) and not is_nt(x)


def children(n):
    """ordered (label, child) of a node, read from the storage dict / member list directly (no memoised method)"""
    if is_lazy(n):
        return [(f"#{i}", m) for i, m in enumerate(n.tensordicts)]
    pt = n.__dict__.get("_param_td", None) if hasattr(n, "__dict__") else None
    if pt is not None:
        return children(pt)     # TensorDictParams wraps a TensorDict
    d = getattr(n, "_tensordict", None)
    if isinstance(d, dict):
        return list(d.items())
    src = getattr(n, "_source", None)
    if src is not None:
        return children(src)
    return []


def walk_nodes(n, pre=()):
    out = [(pre, n)]
    for k, v in children(n):
        if is_node(v):
            out.extend(walk_nodes(v, pre + (k,)))
    return out


def walk_leaves(n, pre=()):
    out = []
    for k, v in children(n):
        if is_node(v):
            out.extend(walk_leaves(v, pre + (k,)))
        else:
            out.append((pre + (k,), v))
    return out


def node_at(root, path):
    n = root
    for k in path:
        n = dict(children(n))[k]
    return n


# ------------------------------------------------------------------------------------------------- builders
def tensor_of(bs, d):
    shape = list(bs) + list(d.get("feat", []))
    n = 1
    for s in shape:
        n *= s
    t = (torch.arange(n, dtype=torch.int64) % 7 + d.get("base", 0)).reshape(shape).to(DT[d.get("dtype", "i64")])
    return t


def build(d, bs=None):
    """the real object of a tree descriptor (unlocked)"""
    k = d["kind"]
    if k == "td":
        mybs = list(d["bs"]) if "bs" in d else list(bs)
        src = {}
        for key, e in d["ents"]:
            if e["kind"] == "t":
                src[key] = tensor_of(mybs, e)
            elif e["kind"] == "nt":
                src[key] = NonTensorData(e["data"], batch_size=mybs)
            elif e["kind"] == "nts":
                src[key] = NonTensorStack(*[NonTensorData(s) for s in e["data"]]) if len(mybs) == 1 else NonTensorData(e["data"][0], batch_size=mybs)
            else:
                src[key] = build(e, mybs)
        td = TensorDict(src, batch_size=mybs)
        if d.get("names"):
            td.names = list(d["names"])
        return td
    if k == "lazy":
        mybs = list(d["bs"]) if "bs" in d else list(bs)
        sd = d.get("stack_dim", 0)
        mbs = mybs[:sd] + mybs[sd + 1:]
        ms = [build(m, mbs) for m in d["members"]]
        return LazyStackedTensorDict(*ms, stack_dim=sd)
    raise ValueError(k)


class Subject:
    """a locked subject built from {"root": tree, "lock": how}; scratch directories are removed by close()"""

    def __init__(self, spec):
        self.spec = spec
        self.tmp = []
        self.td = build(spec["root"])
        how = spec.get("lock", "lock_")
        if how == "lock_":
            self.td.lock_()
        elif how == "memmap_":
            self.td.memmap_()
        elif how == "memmap_dir":
            d = tempfile.mkdtemp(prefix="c06-")
            self.tmp.append(d)
            self.td.memmap_(d)
        elif how == "members":
            # a lazy stack whose members were locked one by one: is_locked is derived
            for _, n in walk_nodes(self.td):
                if is_lazy(n):
                    for m in n.tensordicts:
                        m.lock_()
            if not is_lazy(self.td):
                self.td.lock_()
        elif how == "params":
            from tensordict.nn import TensorDictParams
            self.td = TensorDictParams(self.td, lock=True)
        elif how == "share":
            self.td.share_memory_()
        elif how == "none":
            pass
        else:
            raise ValueError(how)

    def close(self):
        for d in self.tmp:
            shutil.rmtree(d, ignore_errors=True)
        self.tmp = []


def rebuild_unlocked(n):
    """an UNLOCKED tensordict with identical content: new container objects, the very same bound leaf objects,
    same batch sizes / names / device — the twin of the property statement"""
    if is_lazy(n):
        ms = [rebuild_unlocked(m) for m in n.tensordicts]
        out = LazyStackedTensorDict(*ms, stack_dim=n.stack_dim)
        nm = n.__dict__.get("_td_dim_name", None)
        if nm is not None:
            out._td_dim_name = nm
        return out
    src = {}
    for k, v in children(n):
        src[k] = rebuild_unlocked(v) if is_node(v) else v
    names = None
    try:
        if n._has_names():
            names = list(n._td_dim_names) if getattr(n, "_td_dim_names", None) is not None else list(n.names)
    except Exception:  # noqa: BLE001
        names = None
    return TensorDict._new_unsafe(source=src, batch_size=torch.Size(n.batch_size), device=n.device, names=names, nested=False)


# ------------------------------------------------------------------------------------------------- canonical values
def _unwrap_batched(t):
    try:
        from torch._C._functorch import get_unwrapped, is_batchedtensor
        lvl = 0
        while is_batchedtensor(t):
            t = get_unwrapped(t)
            lvl += 1
        return t, lvl
    except Exception:  # noqa: BLE001
        return t, 0


class Ctx:
    """aliasing classes relative to an owner tree: which bound entry an object is / shares storage with"""

    def __init__(self, owner):
        self.by_id, self.by_ptr = {}, {}
        if owner is None:
            return
        for p, v in walk_leaves(owner):
            self.by_id.setdefault(id(v), "/".join(p))
            if isinstance(v, torch.Tensor):
                try:
                    if v.numel():
                        self.by_ptr.setdefault(v.untyped_storage().data_ptr(), "/".join(p))
                except Exception:  # noqa: BLE001
                    pass

    def alias(self, x):
        if id(x) in self.by_id:
            return ["is", self.by_id[id(x)]]
        if isinstance(x, torch.Tensor):
            t, _ = _unwrap_batched(x)
            try:
                if t.numel():
                    p = self.by_ptr.get(t.untyped_storage().data_ptr())
                    if p is not None:
                        return ["shares", p]
            except Exception:  # noqa: BLE001
                pass
        return None


class _Budget:
    left = 0


def canon(x, ctx, depth=0):
    """JSON-able canonical form of anything a read returns (bounded: a result that explodes is an observation, not a hang)"""
    if depth == 0:
        _Budget.left = 4000
    _Budget.left -= 1
    if depth > 12 or _Budget.left < 0:
        return "too-deep-or-too-large"
    if isinstance(x, torch.Tensor):
        t, lvl = _unwrap_batched(x)
        try:
            vals = t.detach().reshape(-1).tolist()
        except Exception:  # noqa: BLE001
            vals = "unreadable"
        return ["T", str(t.dtype).replace("torch.", ""), list(x.shape), lvl, vals, ctx.alias(x), bool(x.requires_grad) if lvl == 0 else None]
    if isinstance(x, NonTensorStack):
        try:
            data = x.tolist()
        except Exception as e:  # noqa: BLE001
            data = "raise:" + type(e).__name__
        return ["NS", list(x.batch_size), data, ctx.alias(x)]
    if isinstance(x, NonTensorData):
        return ["ND", list(x.batch_size), repr(x.data), ctx.alias(x)]
    if is_lazy(x):
        return ["LS", x.stack_dim, list(x.batch_size), [canon(m, ctx, depth + 1) for m in x.tensordicts]]
    if isinstance(x, TensorDictBase):
        try:
            names = list(x.names) if x._has_names() else None
        except Exception as e:  # noqa: BLE001
            names = "raise:" + type(e).__name__
        return ["TD", list(x.batch_size), names, str(x.device), [[k, canon(v, ctx, depth + 1)] for k, v in children(x)]]
    if isinstance(x, (list, tuple)):
        return ["L", [canon(v, ctx, depth + 1) for v in x]]
    if isinstance(x, (str, int, bool, float)) or x is None:
        return x
    if isinstance(x, torch.dtype):
        return str(x)
    if isinstance(x, torch.Size):
        return list(x)
    if hasattr(type(x), "__iter__") and not hasattr(x, "_tensordict"):   # key views and other real iterables
        try:
            return ["V", [canon(v, ctx, depth + 1) for v in _bounded(x)]]
        except Exception:  # noqa: BLE001
            pass
    return ["?", type(x).__name__]


def exc_enum(e):
    if isinstance(e, KeyError):
        return "KeyError"
    if isinstance(e, RuntimeError) and "lock" in str(e).lower():
        return "LockError"
    if isinstance(e, (ValueError, RuntimeError, TypeError, IndexError, AttributeError, NotImplementedError)):
        return type(e).__name__
    return "Other:" + type(e).__name__


# ------------------------------------------------------------------------------------------------- read fronts
def _bounded(it, n=5000):
    """a list of what an iterable yields — never more than n items, and never by the __getitem__ protocol of an object that
    is not an iterable (a wrong result type must be an observation, not an endless loop)"""
    import itertools
    if isinstance(it, (list, tuple)):
        return list(it[:n])
    if not hasattr(type(it), "__iter__"):
        return ["not-iterable", type(it).__name__]
    if isinstance(it, TensorDictBase) or is_nt(it) or isinstance(it, torch.Tensor):
        return ["unexpected-result-type", type(it).__name__]
    return list(itertools.islice(iter(it), n))


def _first_tensor_key(td):
    for k, v in children(td):
        if isinstance(v, torch.Tensor):
            return k
    return None


def _lam_tensor_only():
    return lambda cls: issubclass(cls, torch.Tensor)


def _lam_default():
    return lambda cls: _default_is_leaf(cls)


def fronts_for(td):
    """(name, memoised methods it reaches, thunk over a tensordict) — the public (and the memoised private) read API"""
    F = []

    def add(name, meths, f):
        F.append((name, meths, f))
    add("keys()", [], lambda t: _bounded(t.keys()))
    add("keys(T)", ["_nested_keys"], lambda t: _bounded(t.keys(True)))
    add("keys(T,T)", ["_nested_keys"], lambda t: _bounded(t.keys(True, True)))
    add("keys(F,T)", ["_nested_keys"], lambda t: _bounded(t.keys(False, True)))
    add("keys(T,T,nt)", ["_nested_keys"], lambda t: _bounded(t.keys(True, True, is_leaf=_is_leaf_nontensor)))
    add("keys(T,T,sort)", ["_nested_keys"], lambda t: _bounded(t.keys(True, True, sort=True)))
    add("values(T,T)", [], lambda t: _bounded(t.values(True, True)))
    add("items(T,T)", [], lambda t: _bounded(t.items(True, True)))
    add("_values_list()", ["_values_list"], lambda t: t._values_list())
    add("_values_list(T,T)", ["_values_list"], lambda t: t._values_list(True, True))
    add("_values_list(T,T,ntl)", ["_values_list"], lambda t: t._values_list(True, True, is_leaf=_NESTED_TENSORS_AS_LISTS))
    add("_values_list(T,F)", ["_values_list"], lambda t: t._values_list(True, False))
    add("_items_list(T,T)", ["_items_list"], lambda t: t._items_list(True, True))
    add("_items_list()", ["_items_list"], lambda t: t._items_list())
    add("_values_list(sorting)", ["_values_list", "_items_list"],
        lambda t: t._values_list(True, True, sorting_keys=sorted(t.keys(True, True), key=str)))
    add("sorted_keys", ["sorted_keys"], lambda t: t.sorted_keys)
    add("flatten_keys()", ["flatten_keys"], lambda t: t.flatten_keys())
    add("flatten_keys(',')", ["flatten_keys"], lambda t: t.flatten_keys(","))
    add("flatten_keys(sep=)", ["flatten_keys"], lambda t: t.flatten_keys(separator="."))
    add("flatten_keys(nt)", ["flatten_keys"], lambda t: t.flatten_keys(is_leaf=_is_leaf_nontensor))
    add("unflatten_keys('.')", ["unflatten_keys"], lambda t: t.unflatten_keys("."))
    add("unflatten_keys(',')", ["unflatten_keys"], lambda t: t.unflatten_keys(separator=","))
    add("detach", ["detach"], lambda t: t.detach())
    add("dtype", ["_dtype"], lambda t: t.dtype)
    add("depth", ["_depth", "_nested_keys"], lambda t: t.depth)
    add("bytes", ["bytes", "_values_list"], lambda t: t.bytes())
    add("bytes(nodup)", ["bytes", "_values_list"], lambda t: t.bytes(count_duplicates=False))
    add("param_count", ["param_count", "_values_list"], lambda t: t.param_count())
    add("param_count(nodup)", ["param_count", "_values_list"], lambda t: t.param_count(count_duplicates=False))
    add("neg", ["_items_list"], lambda t: t.neg())
    add("add1", ["_items_list"], lambda t: t + 1)
    add("names", ["names"], lambda t: list(t.names) if t._has_names() else None)
    add("batch_size", [], lambda t: list(t.batch_size))
    add("is_locked-free:get-all", ["_get_str"], lambda t: [[k, t.get(k)] for k in sorted(_bounded(t.keys()), key=str)])
    add("is_empty", [], lambda t: t.is_empty())
    if td.batch_dims >= 1 and td.batch_size[0] > 0:
        add("vmap(get)", ["_add_batch_dim"], _vmap_front)
    if is_lazy(td):
        add("_key_list", ["_key_list"], lambda t: t._key_list())
        add("_has_exclusive_keys", ["_has_exclusive_keys"], lambda t: t._has_exclusive_keys)
        add("keys(T,T) lazy", ["_key_list"], lambda t: sorted(t.keys(True, True), key=str))
    return F


def _vmap_front(t):
    k = _first_tensor_key(t) if not is_lazy(t) else None
    if k is None:
        ks = [kk for kk in t.keys() if isinstance(t.get(kk), torch.Tensor)]
        if not ks:
            return "no-tensor-entry"
        k = sorted(ks)[0]
    return torch.vmap(lambda x: x.get(k) * 2)(t)


FRESH_RAISED = []   # (exception enum) — the hook's fresh recomputation raised where the memoised call returns


def run_front(f, td, ctx):
    try:
        return ["ok", canon(f(td), ctx)]
    except Exception as e:  # noqa: BLE001
        from tensordict import utils as U
        chk = U._VERIF_CACHE_CHECKER
        if chk is None:
            return ["raise", exc_enum(e)]
        # with the hook on, a cache hit also runs the method afresh INSIDE the library; an exception of that fresh run
        # propagates to the caller although the memoised call itself returns.  Re-run without the checker: that is
        # what the library does for its users.
        U._VERIF_CACHE_CHECKER = None
        try:
            r = ["ok", canon(f(td), ctx)]
            FRESH_RAISED.append(exc_enum(e))
            return r
        except Exception as e2:  # noqa: BLE001
            return ["raise", exc_enum(e2)]
        finally:
            U._VERIF_CACHE_CHECKER = chk


def observe(td, owner=None, only=None):
    ctx = Ctx(owner if owner is not None else td)
    out = {}
    for name, meths, f in fronts_for(td):
        if only is not None and name not in only:
            continue
        out[name] = run_front(f, td, ctx)
    return out


FRONT_METHODS = None


def front_methods(td):
    return {name: meths for name, meths, _ in fronts_for(td)}


# ------------------------------------------------------------------------------------------------- structure snapshot
def snapshot(root):
    """what the memoised results may depend on, per node path and per leaf path — read without any memoised call"""
    nodes, leaves = {}, {}
    for p, n in walk_nodes(root):
        try:
            # a lazy stack's names are derived from its members' (and memoised): only the members' own names are state
            names = ["<stack-dim>", n.__dict__.get("_td_dim_name")] if is_lazy(n) else (list(n.names) if n._has_names() else None)
        except Exception as e:  # noqa: BLE001
            names = "raise:" + type(e).__name__
        nodes["/".join(p)] = {"bs": list(n.batch_size), "names": names, "dev": str(n.device), "keys": [k for k, _ in children(n)],
                              "flags": [bool(n.__dict__.get("_is_memmap")), bool(n.__dict__.get("_is_shared"))],
                              "cache_id": id(n.__dict__.get("_cache")) if n.__dict__.get("_cache") is not None else None,
                              "locked": bool(n.is_locked), "id": id(n)}
    for p, v in walk_leaves(root):
        ptr = None
        if isinstance(v, torch.Tensor) and v.numel():
            ptr = v.untyped_storage().data_ptr()
        val = None
        if isinstance(v, torch.Tensor) and v.numel() <= 256:
            try:
                val = v.detach().reshape(-1).tolist()
            except Exception:  # noqa: BLE001
                val = None
        leaves["/".join(p)] = {"id": id(v), "ptr": ptr, "type": type(v).__name__,
                               "nt": (v.tolist() if is_nt(v) else None), "val": val, "ntmeta": _nt_meta(v) if is_nt(v) else None}
    return {"nodes": nodes, "leaves": leaves}


def _nt_meta(v, depth=0):
    """names / batch size of a non-tensor entry (a tensor collection of its own), read from the instance dicts only"""
    try:
        inner = v.__dict__.get("_tensordict")
        if inner is not None:
            return [list(inner.batch_size), repr(inner.__dict__.get("_td_dim_names"))]
        if depth < 3:
            return [repr(v.__dict__.get("_td_dim_name")), [_nt_meta(m, depth + 1) for m in v.__dict__.get("tensordicts", [])]]
    except Exception:  # noqa: BLE001
        pass
    return None


def is_prefix(a, b):
    """node path a ('' = root) is b or an ancestor of b"""
    return a == "" or b == a or b.startswith(a + "/")


def cache_keys(root):
    """{node path: {method: [keys]}} of the real _cache dicts"""
    out = {}
    for p, n in walk_nodes(root):
        c = n.__dict__.get("_cache")
        out["/".join(p)] = {m: list(d.keys()) for m, d in c.items() if d} if c else {}
    return out


__all__ = ["Subject", "build", "rebuild_unlocked", "walk_nodes", "walk_leaves", "node_at", "children", "is_node", "is_lazy", "is_nt",
           "canon", "Ctx", "observe", "FRESH_RAISED", "fronts_for", "run_front", "snapshot", "is_prefix", "cache_keys", "exc_enum", "front_methods",
           "_make_cache_key", "DT"]
