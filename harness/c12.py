"""C12 — chunked / multi-process / multi-thread execution = sequential execution (DESIGN.md §4 C12)."""
import functools
import itertools
import json
import os
import subprocess
import sys
import tempfile
import time

import torch
from tensordict import TensorDict
import tensordict.utils as TU

from . import c12_mp as M
from .core import Sym, some, sx, VERIF

PID = "C12"


def call(f):
    try:
        return ("ok", f())
    except Exception as e:  # noqa: BLE001 -- the exception class is the observation
        return ("raise", type(e).__name__)


# =================================================================== 1. the partition: _split_tensordict
class RecTD:
    """duck-typed stand-in for a tensordict: records what _split_tensordict asks of it (exact arguments)"""

    def __init__(self, n, dim):
        self.shape = tuple([2] * dim + [n])
        self.dim = dim
        self.device = None
        self.log = []

    def chunk(self, k, dim=0):
        self.log.append(["chunk", k, dim])
        return ("chunk", k)

    def split(self, k, dim=0):
        self.log.append(["split", k, dim])
        return ("split", k)

    def unbind(self, dim=0):
        self.log.append(["unbind", dim])
        return ("unbind",)

    def __getitem__(self, idx):
        self.log.append(["getitem", idx])
        return idx


def split_args_impl(n, cs, nc, nw, gen, dim=0):
    """what _split_tensordict does with (n, chunksize, num_chunks, num_workers, use_generator): canonical form
    ("chunk", k) | ("split", k) | ("unbind",) | ("gen", [piece ...]) with piece = ["sl", a, b] | ["ix", i]; or ("raise", class)"""
    td = RecTD(n, dim)
    try:
        r = TU._split_tensordict(td, cs, nc, nw, dim, use_generator=gen)
        if gen:
            pieces = []
            for idx in r:
                if len(idx) != dim + 1 or any(i != slice(None) for i in idx[:dim]):
                    return ("other", repr(idx))
                last = idx[-1]
                if isinstance(last, slice):
                    if last.step is not None:
                        return ("other", repr(idx))
                    pieces.append(["sl", last.start, last.stop])
                else:
                    pieces.append(["ix", int(last)])
                if len(pieces) > 4 * n + 8:
                    return ("other", "runaway generator")
            return ("gen", pieces)
        if not td.log or td.log[-1][-1] != dim:
            return ("other", repr(td.log))
        return tuple(td.log[-1][:-1])
    except Exception as e:  # noqa: BLE001
        return ("raise", type(e).__name__)


def spec_sizes(n, cs, nc, nw):
    """the documented partition, from torch's own split/chunk on a tensor of length n (an external referent):
    list of piece sizes, or "rows" for the unbind form (chunksize == 0)"""
    if cs is not None and nc is not None:
        return None
    if cs == 0:
        return "rows"
    if cs is not None:
        return [t.numel() for t in torch.arange(n).split(cs)]
    k = nc if nc is not None else nw
    return [t.numel() for t in torch.arange(n).chunk(k)]


def pieces_of_real(td, d, pieces, unbound):
    """positions along dim d covered by each piece actually produced (from the ids stored in leaf x)"""
    bs = list(td.batch_size)
    stride = M.numel(bs[d + 1:])
    n = bs[d]
    out = []
    for p in pieces:
        x = p.get("x")
        pos = sorted(set(((x.reshape(-1) // stride) % n).tolist())) if x.numel() else []
        exp_shape = bs[:d] + ([] if unbound else [len(pos)]) + bs[d + 1:]
        out.append({"pos": pos, "shape_ok": list(p.batch_size) == exp_shape and list(x.shape) == exp_shape})
    return out


# =================================================================== 2. map / map_iter against the sequential form
def seq_pieces(case):
    """the slices 'in order' the property talks about: (a, b) bounds or row indices, from torch's split/chunk"""
    bs = case["bs"]
    d = case["dim"] % len(bs)
    n = bs[d]
    sizes = spec_sizes(n, case.get("chunksize"), case.get("num_chunks"), case["workers"])
    if sizes is None:
        return None
    if sizes == "rows":
        return [("ix", i) for i in range(n)]
    out, a = [], 0
    for s in sizes:
        out.append(("sl", a, a + s))
        a += s
    return out


def oracle_map(case):
    """apply the function slice by slice, in order, to copies of the slices of the whole; returns the expected
    observation (result / out buffer / input) — independent of tensordict's map, split, chunk, cat"""
    bs = case["bs"]
    d = case["dim"] % len(bs)
    x, w = M.make_leaves(bs)
    fn = M.make_fn(dict(case, delay="none"))
    pieces = seq_pieces(case)
    pre = (slice(None),) * d
    results, xs, ws = [], [], []
    for p in pieces:
        idx = pre + ((slice(p[1], p[2]),) if p[0] == "sl" else (p[1],))
        xi, wi = x[idx].clone(), w[idx].clone()
        tdi = M.td_from(xi, wi, list(xi.shape))
        r = fn(tdi)
        results.append(None if r is None else {"y": r.get("y"), "z": r.get(("n", "z"))})
        xs.append(xi)
        ws.append(wi)
    join = (lambda l: torch.stack(l, d)) if case.get("chunksize") == 0 else (lambda l: torch.cat(l, d))
    exp = {"pieces": pieces}
    # the input after in-place functions
    if xs:
        exp["inp"] = {"x": join(xs), "w": join(ws)}
    else:
        exp["inp"] = {"x": x, "w": w}
    kept = [r for r in results if r is not None]
    exp["ret"] = None if not kept else {"y": join([r["y"] for r in kept]), "z": join([r["z"] for r in kept])}
    exp["items"] = results
    if case.get("out", "none") != "none":
        y = -torch.ones_like(x)
        z = -torch.ones_like(w)
        for p, r in zip(pieces, results):
            if r is None:
                continue
            idx = pre + ((slice(p[1], p[2]),) if p[0] == "sl" else (p[1],))
            y[idx] = r["y"]
            z[idx] = r["z"]
        exp["out"] = {"y": y, "z": z}
    exp["none_before_some"] = any(r is None and any(q is not None for q in results[i + 1:]) for i, r in enumerate(results))
    exp["some_none"] = any(r is None for r in results)
    return exp


def leaf_eq(obs_leaf, t):
    return obs_leaf == [list(t.shape), t.reshape(-1).tolist()]


def judge_map(R, case, obs, exp, where):
    """the oracle proper: compares the observation of the real map with the sequential form; reports failures"""
    bs = case["bs"]
    d = case["dim"] % len(bs)
    n = bs[d]
    outk = case.get("out", "none")
    sig = {"call": "map_iter" if case.get("iter") else "map", "out": outk, "where": where}
    inplace_fn = case["fn"] in ("none_inplace", "mixed_inplace")
    if obs["status"] == "timeout":
        R.oracle_fail("map:timeout", case, {"what": "the run did not finish"}, dict(sig, kind="timeout"))
        return
    if obs["status"] == "harness-error":
        raise RuntimeError("C12 runner: " + obs.get("exc", "?"))
    if obs.get("left_children"):
        R.oracle_fail("map:children-left", case, {"left": obs["left_children"]}, dict(sig, kind="children-left"))
    if obs["status"] == "raise":
        sig2 = dict(sig, kind="raise", exc=obs["exc"], some_none=exp["some_none"])
        R.oracle_fail("map:raises", case, {"exception": obs["exc"]}, sig2)
        return
    detail = None
    if case.get("iter"):
        items = obs["items"]
        if case.get("shuffle"):
            got = sorted(v for it in items if it is not None for v in it["leaves"]["y"][1])
            want = sorted(v for r in exp["items"] if r is not None for v in r["y"].reshape(-1).tolist())
            if got != want:
                detail = {"what": "shuffled map_iter does not cover the rows exactly once", "got": got[:30], "want": want[:30]}
        else:
            if len(items) != len(exp["items"]):
                detail = {"what": "number of yielded items", "got": len(items), "want": len(exp["items"])}
            else:
                for k, (it, r) in enumerate(zip(items, exp["items"])):
                    if (it is None) != (r is None) or (it is not None and not (leaf_eq(it["leaves"]["y"], r["y"]) and leaf_eq(it["leaves"]["n/z"], r["z"]))):
                        detail = {"what": f"item {k}", "got": it, "want": None if r is None else r["y"].reshape(-1).tolist()}
                        break
    elif outk == "none":
        ret = obs["ret"]
        if exp["ret"] is None:
            if ret != "none":
                detail = {"what": "result where every chunk returned None", "got": ret}
        elif ret in ("none", "out") or not (leaf_eq(ret["leaves"]["y"], exp["ret"]["y"]) and leaf_eq(ret["leaves"]["n/z"], exp["ret"]["z"])):
            detail = {"what": "result", "got": ret if isinstance(ret, str) else ret["leaves"]["y"], "want": [list(exp["ret"]["y"].shape), exp["ret"]["y"].reshape(-1).tolist()]}
    else:
        o = obs["out"]["leaves"]
        if not (leaf_eq(o["y"], exp["out"]["y"]) and leaf_eq(o["n/z"], exp["out"]["z"])):
            detail = {"what": "content of out=", "got": o["y"], "want": [list(exp["out"]["y"].shape), exp["out"]["y"].reshape(-1).tolist()]}
            sig = dict(sig, none_before_some=exp["none_before_some"])
    if detail is None and inplace_fn and isinstance(obs["inp"], dict) and (where == "inproc" or case.get("inp") in ("shared", "memmap")):
        i = obs["inp"]["leaves"]
        if not (leaf_eq(i["x"], exp["inp"]["x"]) and leaf_eq(i["n/w"], exp["inp"]["w"])):
            detail = {"what": "input after the in-place function", "got": i["x"], "want": exp["inp"]["x"].reshape(-1).tolist()}
    if detail is not None:
        R.oracle_fail("map:differs-from-sequential", case, detail, dict(sig, kind="content", what=detail["what"].split(" ")[0]))


def gen_map_case(rng, start="inproc"):
    rank = rng.choice([1, 1, 2, 2, 3])
    bs = [rng.choice([1, 2, 3, 4, 5, 6, 7]) for _ in range(rank)]
    dim = rng.randrange(-rank, rank)
    n = bs[dim % rank]
    mode = rng.choice(["cs", "cs", "nc", "nc", "cs0", "default"])
    cs = nc = None
    if mode == "cs":
        cs = rng.randrange(1, n + 2)
    elif mode == "nc":
        nc = rng.randrange(1, n + 2)
    elif mode == "cs0":
        cs = 0
    case = {"bs": bs, "dim": dim, "chunksize": cs, "num_chunks": nc, "workers": rng.choice([1, 2, 2, 3, 4]),
            "gen": rng.random() < 0.5, "out": rng.choice(["none", "none", "regular", "regular", "shared", "memmap"]),
            "inp": rng.choice(["regular", "regular", "shared", "memmap"]),
            "fn": rng.choice(["rows", "rows", "chunk", "chunk", "mixed", "mixed", "none_inplace", "mixed_inplace"]),
            "salt": rng.randrange(0, 1000), "delay": "none", "start": start}
    if start == "inproc" and rng.random() < 0.1:
        # the same content as a lazy stack along dim 0 (tensordict/_lazy.py: split / chunk / unbind / indexing of lazy stacks)
        case["lazy"] = True
        case["inp"] = "regular"
        case["fn"] = rng.choice(["rows", "chunk", "mixed"])
    if rng.random() < 0.2:
        case["iter"] = True
        case["out"] = "none"
        if rng.random() < 0.4:
            case["shuffle"] = True
            case["gen"] = True
            case["order"] = rng.sample(range(n + 2), n + 2)
            case["fn"] = "rows"
    return case


def case_key(case):
    return json.dumps(case, sort_keys=True)


def run_inproc_maps(R, cases):
    observations = []
    for ci, case in enumerate(cases):
        exp = oracle_map(case)
        rec = []
        obs = call(lambda: M.run_map_case(case, record=lambda item: rec.append(item)))
        if obs[0] != "ok":
            raise RuntimeError(f"C12 harness error on {case}: {obs[1]}")
        obs = obs[1]
        R.case(case_key(case), nontrivial=len(exp["pieces"]) > 1, sample=case if ci % 997 == 0 else None)
        R.count("map:" + ("iter" if case.get("iter") else "out=" + case.get("out", "none")))
        R.count("fn:" + case["fn"])
        if case.get("lazy"):
            R.count("map:lazy-stack-input")
        R.count("mode:" + ("chunksize0" if case["chunksize"] == 0 else "chunksize" if case["chunksize"] is not None else
                           "num_chunks" if case["num_chunks"] is not None else "default") + ("+gen" if case["gen"] else ""))
        judge_map(R, case, obs, exp, "inproc")
        observations.append(obs)
        R.traces += 1
    return observations


# =================================================================== 3. correspondence with the extracted model
EXC = {"ValueError": "evalue", "RuntimeError": "eruntime", "ZeroDivisionError": "ezerodiv", "TypeError": "etype"}


def canon_call_model(m):
    """model result of split-call -> the canonical form of split_args_impl"""
    if m[0] == "raise":
        return ("raise", m[1])
    c = m[1]
    if c[0] == "gen":
        return ("gen", [[p[0], p[1], p[2]] if p[0] == "sl" else [p[0], p[1]] for p in c[1]])
    return tuple(c)


def canon_call_impl(o):
    if o[0] == "raise":
        return ("raise", EXC.get(o[1], o[1]))
    return o


def split_grid(quick):
    N = 16 if quick else 40
    for n in range(0, N + 1):
        css = [None] + list(range(0, n + 3))
        ncs = [None] + list(range(1, n + 3))
        for cs in css:
            for nc in ncs:
                if cs is not None and nc is not None and (cs + nc) % 5 != 0:
                    continue  # both given: always the same ValueError; keep a sample
                for nw in ([1, 2, 3, 4] if (cs is None and nc is None) else [2]):
                    for gen in (False, True):
                        yield (n, cs, nc, nw, gen)


def check_split(R):
    """exhaustive small scope: what _split_tensordict asks of the tensordict (exact arguments), the pieces it produces
    on real tensordicts, against the model and against torch's own split / chunk of arange(n)"""
    grid = list(split_grid(R.quick))
    lines = []
    for (n, cs, nc, nw, gen) in grid:
        lines.append(sx([Sym("split-call"), n, some(cs), some(nc), nw, gen, False]))
        lines.append(sx([Sym("pieces"), n, some(cs), some(nc), nw, gen]))
    mod = R.model(lines)
    shapes = [lambda n: ([n], 0), lambda n: ([2, n], 1), lambda n: ([n, 2], -2), lambda n: ([2, n, 2], 1)]
    for gi, (n, cs, nc, nw, gen) in enumerate(grid):
        case = {"op": "split", "n": n, "chunksize": cs, "num_chunks": nc, "workers": nw, "gen": gen}
        R.case(("split", n, cs, nc, nw, gen), nontrivial=n > 1, sample=case if gi % 701 == 3 else None)
        R.count("split:" + ("both" if cs is not None and nc is not None else "chunksize0" if cs == 0 else "chunksize" if cs is not None
                            else "num_chunks" if nc is not None else "default") + ("+gen" if gen else ""))
        impl = canon_call_impl(split_args_impl(n, cs, nc, nw, gen, dim=gi % 3))
        mo = canon_call_model(mod[2 * gi])
        if impl != mo:
            R.mismatch("_split_tensordict:delegation", case, list(impl), list(mo))
        # real tensordicts
        bs, dim = shapes[gi % 4](n) if not R.quick else shapes[gi % 4](n)
        d = dim % len(bs)
        x, w = M.make_leaves(bs)
        td = M.td_from(x, w, bs)
        got = call(lambda: list(TU._split_tensordict(td, cs, nc, nw, d, use_generator=gen)))
        mp = mod[2 * gi + 1]
        if got[0] == "raise":
            iobs = ["raise", EXC.get(got[1], got[1])]
        else:
            pr = pieces_of_real(td, d, got[1], cs == 0)
            iobs = ["ok", [[p["pos"][0], p["pos"][-1] + 1] if p["pos"] else [0, 0] for p in pr]]
            if mp[0] == "ok":
                mo2 = ["ok", mp[1][1]]
            else:
                mo2 = list(mp)
            if iobs != mo2:
                R.mismatch("_split_tensordict:pieces", dict(case, bs=bs, dim=dim), iobs, mo2)
        if got[0] == "raise" and (mp[0] != "raise" or mp[1] != iobs[1]):
            R.mismatch("_split_tensordict:pieces", dict(case, bs=bs, dim=dim), iobs, list(mp))
        # the oracle (n >= 1, arguments inside the property's quantifier)
        sizes = spec_sizes(n, cs, nc, nw) if n >= 1 else None
        if sizes is not None:
            sig = {"call": "_split_tensordict", "gen": gen}
            case2 = dict(case, bs=bs, dim=dim)
            if got[0] == "raise":
                R.oracle_fail("split:raises", case2, {"exception": got[1]}, dict(sig, kind="raise"))
            else:
                want, a = [], 0
                for s_ in ([1] * n if sizes == "rows" else sizes):
                    want.append(list(range(a, a + s_)))
                    a += s_
                if [p["pos"] for p in pr] != want:
                    R.oracle_fail("split:partition", case2, {"got": [p["pos"] for p in pr], "want": want}, dict(sig, kind="partition"))
                elif not all(p["shape_ok"] for p in pr):
                    R.oracle_fail("split:shape", case2, {"got": [list(g.batch_size) for g in got[1]]}, dict(sig, kind="shape"))
        R.traces += 1
    # the model's loops against the closed form and the model's own [tiles] predicate are theorems; here td.split / td.chunk directly
    lines, keys = [], []
    for n in range(0, 8 if R.quick else 16):
        for k in range(1, n + 3):
            lines += [sx([Sym("td-split"), n, k]), sx([Sym("td-chunk"), n, k])]
            keys += [("split", n, k), ("chunk", n, k)]
    mod = R.model(lines)
    for (op, n, k), m in zip(keys, mod):
        x, w = M.make_leaves([n])
        td = M.td_from(x, w, [n])
        got = call(lambda: td.split(k, 0) if op == "split" else td.chunk(k, 0))
        iobs = ["raise", EXC.get(got[1], got[1])] if got[0] == "raise" else ["ok", [[int(p["x"][0]), int(p["x"][-1]) + 1] if p["x"].numel() else [0, 0] for p in got[1]]]
        R.case(("td-" + op, n, k), nontrivial=n > 1)
        if iobs != list(m):
            R.mismatch("TensorDict." + op, {"op": "td-" + op, "n": n, "k": k}, iobs, list(m))
        R.traces += 1


def check_shuffle(R):
    """shuffle=True: the generator yields rows rp[idx]; collectively every row exactly once (any order)"""
    rng = R.rng
    cases = []
    for _ in range(60 if R.quick else 600):
        n = rng.randrange(1, 9)
        mode = rng.choice(["cs", "nc", "cs0", "default"])
        cs = rng.randrange(1, n + 2) if mode == "cs" else 0 if mode == "cs0" else None
        nc = rng.randrange(1, n + 2) if mode == "nc" else None
        cases.append((n, cs, nc, rng.choice([1, 2, 3])))
    obs = []
    for (n, cs, nc, nw) in cases:
        x, w = M.make_leaves([n])
        td = M.td_from(x, w, [n])
        got = call(lambda: [p["x"].reshape(-1).tolist() for p in TU._split_tensordict(td, cs, nc, nw, 0, use_generator=True, shuffle=True)])
        obs.append(got)
    lines = []
    for (n, cs, nc, nw), got in zip(cases, obs):
        rp = [v for p in got[1] for v in p] if got[0] == "ok" else list(range(n))
        lines.append(sx([Sym("shuffle"), rp, some(cs), some(nc), nw]))
    mod = R.model(lines)
    for (n, cs, nc, nw), got, m in zip(cases, obs, mod):
        case = {"op": "shuffle", "n": n, "chunksize": cs, "num_chunks": nc, "workers": nw}
        R.case(("shuffle", n, cs, nc, nw), nontrivial=n > 1)
        R.count("split:shuffle")
        sig = {"call": "_split_tensordict", "shuffle": True}
        if got[0] != "ok":
            R.oracle_fail("shuffle:raises", case, {"exception": got[1]}, dict(sig, kind="raise"))
            continue
        flat = [v for p in got[1] for v in p]
        sizes = spec_sizes(n, cs, nc, nw)
        want_sizes = [1] * n if sizes == "rows" else sizes
        if sorted(flat) != list(range(n)) or [len(p) for p in got[1]] != want_sizes:
            R.oracle_fail("shuffle:cover", case, {"pieces": got[1], "want_sizes": want_sizes}, dict(sig, kind="cover"))
        if m[0] != "ok" or m[1] != got[1]:
            R.mismatch("_split_tensordict:shuffle", case, got[1], m)
        R.traces += 1


def decode_src(case, leaf_y, length):
    """which source row (position along the mapped dim) each position of a result / buffer holds (None: untouched)"""
    bs = case["bs"]
    d = case["dim"] % len(bs)
    n = bs[d]
    stride = M.numel(bs[d + 1:])
    flat = leaf_y[1]
    out = []
    for p in range(length):
        if p * stride >= len(flat):
            out.append("out-of-range")          # a result of an unexpected shape is an observation, never a crash
            continue
        y = flat[p * stride]
        if y == -1:
            out.append(None)
            continue
        xv = y // 1000 if case["fn"] == "chunk" else (y - 1) // 2
        out.append((xv // stride) % n)
    return out


def first_block(bs, d):
    """restrict to the cells whose indices before dim d are 0 (their flat offsets are p * stride + r, r < stride)"""
    return M.numel(bs[d + 1:])


def model_map_line(case):
    bs = case["bs"]
    d = case["dim"] % len(bs)
    n = bs[d]
    stride = M.numel(bs[d + 1:])
    if case["fn"] in ("rows", "chunk"):
        isnone = [False] * n
    elif case["fn"] == "none_inplace":
        isnone = [True] * n
    else:
        isnone = [M.is_none_chunk(a * stride, case.get("salt", 0)) for a in range(n)]
    kind = {"none": "none", "regular": "regular", "shared": "shared", "memmap": "shared"}[case.get("out", "none")]
    return sx([Sym("map"), n, some(case.get("chunksize")), some(case.get("num_chunks")), case["workers"], case.get("gen", False),
               Sym(kind), isnone])


def impl_map_canon(case, obs):
    """the observation of the real map in the model's vocabulary"""
    if obs["status"] == "raise":
        return ["raise", EXC.get(obs["exc"], obs["exc"])]
    bs = case["bs"]
    d = case["dim"] % len(bs)
    enc = lambda l: [["some", q] if q is not None else "none" for q in l]  # noqa: E731
    if case.get("out", "none") == "none":
        if obs["ret"] == "none":
            return ["ok", ["ret-none"]]
        ret = obs["ret"]
        if case.get("chunksize") == 0 or True:
            length = ret["bs"][d] if len(ret["bs"]) > d else 0
        return ["ok", ["ret-cat", enc(decode_src(case, ret["leaves"]["y"], length))]]
    tag = "ret-out" if obs["ret"] == "out" else "ret-none-out" if obs["ret"] == "none" else "ret-other"
    return ["ok", [tag, enc(decode_src(case, obs["out"]["leaves"]["y"], bs[d]))]]


def compare_map_model(R, cases, observations):
    todo = [(c, o) for c, o in zip(cases, observations) if not c.get("iter") and o["status"] in ("ok", "raise")]
    mod = R.model([model_map_line(c) for c, _ in todo])
    for (c, o), m in zip(todo, mod):
        impl = impl_map_canon(c, o)
        mo = m if m[0] == "ok" else list(m)
        if impl != mo:
            R.mismatch("map:reassembly", c, impl, mo)




# =================================================================== 3b. map / map_iter END TO END against Model/C12_Map.v
import contextlib  # noqa: E402
import types  # noqa: E402
import importlib.machinery  # noqa: E402


@contextlib.contextmanager
def stub_tqdm(log):
    """a stand-in for the (absent) tqdm package: records the `total` it is given and yields the items of the iterable"""
    mod = types.ModuleType("tqdm")
    mod.__spec__ = importlib.machinery.ModuleSpec("tqdm", None)

    def tqdm(iterable, total=None, **kw):
        log.append(total)
        return iter(iterable)
    mod.tqdm = tqdm
    old = sys.modules.get("tqdm")
    sys.modules["tqdm"] = mod
    try:
        yield
    finally:
        if old is None:
            sys.modules.pop("tqdm", None)
        else:
            sys.modules["tqdm"] = old


def full_fn(td, spec):
    """the function family of the map-full stream (Extract/D_C12.v::fn_full): rows identified by their position along dim"""
    x = td.get("x")
    if x.numel() == 0:
        return TensorDict({"y": x * 2 + 1}, batch_size=td.batch_size)
    a = (int(x.reshape(-1)[0]) // spec["stride"]) % spec["n"]
    if spec["isnone"][a]:
        return None
    y = x * 2 + 1
    if not spec["unbound"]:
        if spec["kind"] == "first":
            y = y.narrow(spec["d"], 0, 1)
        elif spec["kind"] == "dup":
            y = torch.cat([y, y], spec["d"])
    return TensorDict({"y": y, "n": TensorDict({"z": y + 5}, batch_size=y.shape)}, batch_size=y.shape)


def full_spec(case):
    bs = case["bs"]
    rank = len(bs)
    dim = case["dim"]
    d = dim + rank if dim < 0 else dim
    valid = 0 <= d < rank
    dd = d if valid else 0
    return {"kind": case["fn"], "isnone": case["isnone"], "unbound": case["chunksize"] == 0, "d": dd, "n": max(1, bs[dd]),
            "stride": M.numel(bs[dd + 1:]), "valid": valid}


def gen_full_case(rng):
    rank = rng.choice([1, 1, 2, 2, 3])
    bs = [rng.choice([1, 2, 3]) for _ in range(rank)]
    dtrue = rng.randrange(rank)
    n = rng.choice([0, 1, 2, 3, 3, 4, 5, 5, 6, 7])
    bs[dtrue] = n
    r = rng.random()
    dim = dtrue if r < 0.45 else dtrue - rank if r < 0.93 else rng.choice([rank, -rank - 1, rank + 1])
    mode = rng.choice(["cs", "cs", "cs", "nc", "nc", "cs0", "cs0", "default", "default", "both"] if rng.random() < 0.2 else ["cs", "cs", "nc", "nc", "cs0", "default"])
    cs = nc = None
    if mode in ("cs", "both"):
        cs = rng.randrange(1, n + 3)
    if mode in ("nc", "both"):
        nc = rng.randrange(1, n + 3)
    if mode == "cs0":
        cs = 0
    fnk = rng.choice(["rows", "rows", "mixed", "mixed", "first", "dup"])
    isnone = [rng.random() < 0.35 for _ in range(max(n, 1))] if fnk == "mixed" else [False] * max(n, 1)
    if fnk == "mixed":
        fnk = rng.choice(["rows", "rows", "rows", "first", "dup"])
    case = {"op": "mapfull", "bs": bs, "dim": dim, "chunksize": cs, "num_chunks": nc, "workers": rng.choice([1, 2, 2, 3, 4]),
            "gen": rng.random() < 0.5, "pbar": rng.random() < 0.3, "out": rng.choice(["none", "none", "regular", "regular", "shared", "shared"]),
            "odelta": 0, "fn": fnk, "isnone": isnone}
    if case["out"] != "none" and rng.random() < 0.12:
        case["odelta"] = rng.choice([-1, 1])
    if case["out"] == "shared" and rng.random() < 0.08:
        case["out"] = "memmap"
    if rng.random() < 0.25:
        case["iter"] = True
        case["out"] = "none"
        case["odelta"] = 0
        if rng.random() < 0.5:
            case["shuffle"] = True
            case["gen"] = rng.random() < 0.92
            case["order"] = rng.sample(range(n + 3), n + 3)
    return case


def pos_along(t, d, spec, length=None):
    """for every position along dim d of a result leaf: the source row it holds (None: -1 = untouched)"""
    if t.dim() <= d:
        return "rank"
    m = t.movedim(d, 0)
    k = m.shape[0]
    if m.numel() == 0:
        return [] if k == 0 else "empty"
    flat = m.reshape(k, -1)[:, 0].tolist()
    return [None if v == -1 else (((v - 1) // 2) // spec["stride"]) % spec["n"] for v in flat]


def run_full_case(case):
    spec = full_spec(case)
    bs = case["bs"]
    x, w = M.make_leaves(bs)
    td = TensorDict({"x": x}, batch_size=bs)
    rec = []
    fn = functools.partial(full_fn, spec=spec)
    outk = case["out"]
    out = None
    tmp = None
    obs = {}
    try:
        if outk != "none":
            obs_shape = list(bs)
            obs_shape[spec["d"]] = max(0, obs_shape[spec["d"]] + case["odelta"])
            y = -torch.ones(obs_shape, dtype=torch.int64)
            out = TensorDict({"y": y, "n": TensorDict({"z": y.clone()}, batch_size=obs_shape)}, batch_size=obs_shape)
            if outk == "shared":
                out.share_memory_()
            elif outk == "memmap":
                tmp = tempfile.mkdtemp(prefix="c12-f-", dir=M.SCRATCH)
                out.memmap_(tmp)
        pool = M.InProcPool(case["workers"], order=case.get("order"), record=lambda item: rec.append(item))
        kw = {"dim": case["dim"], "chunksize": case["chunksize"], "num_chunks": case["num_chunks"], "pool": pool,
              "index_with_generator": case["gen"], "pbar": case["pbar"]}
        totals = []
        with stub_tqdm(totals):
            try:
                if case.get("iter"):
                    items = list(td.map_iter(fn, shuffle=bool(case.get("shuffle")), **kw))
                    obs["items"] = [None if it is None else
                                    ([(((int(it.get("y").reshape(-1)[0]) - 1) // 2) // spec["stride"]) % spec["n"]] if spec["unbound"]
                                     else pos_along(it.get("y"), spec["d"], spec)) for it in items]
                    obs["raw_items"] = [None if it is None else [list(it.batch_size), it.get("y").reshape(-1).tolist()] for it in items]
                else:
                    r = td.map(fn, out=out, **kw) if out is not None else td.map(fn, **kw)
                    obs["ret"] = "out" if (out is not None and r is out) else "none" if r is None else "td"
                    if obs["ret"] == "td":
                        obs["ret_pos"] = pos_along(r.get("y"), spec["d"], spec)
                        obs["ret_raw"] = [list(r.batch_size), r.get("y").reshape(-1).tolist()]
                obs["status"] = "ok"
            except Exception as e:  # noqa: BLE001
                obs["status"] = "raise"
                obs["exc"] = type(e).__name__
        obs["totals"] = totals
        if out is not None:
            obs["out_pos"] = pos_along(out.get("y"), spec["d"], spec) if spec["valid"] else None
            obs["out_raw"] = out.get("y").reshape(-1).tolist()
        # the chunks handed to the function, in submission order (shuffle: the consecutive pieces of the random permutation)
        chunks = []
        for it in rec:
            item = it[0] if isinstance(it, tuple) else it
            xx = item.get("x")
            if xx.numel() == 0:
                chunks.append([])
            elif spec["unbound"]:
                chunks.append([(int(xx.reshape(-1)[0]) // spec["stride"]) % spec["n"]])
            else:
                chunks.append([((v // spec["stride"]) % spec["n"]) for v in xx.movedim(spec["d"], 0).reshape(xx.shape[spec["d"]], -1)[:, 0].tolist()])
        obs["chunks"] = chunks
        return obs
    finally:
        if tmp is not None:
            import shutil
            shutil.rmtree(tmp, ignore_errors=True)


EXC_FULL = dict(EXC, IndexError="eindex")


def full_model_line(case, obs):
    bs = case["bs"]
    spec = full_spec(case)
    nrows = bs[spec["d"]] if spec["valid"] else 0
    common = [list(bs), case["dim"], some(case["chunksize"]), some(case["num_chunks"]), case["workers"], case["gen"], case["pbar"]]
    if case.get("iter"):
        rp, pi = [], []
        if case.get("shuffle"):
            rp = [v for c in obs["chunks"] for v in c]
            k = len(obs["chunks"])
            order = [i for i in case.get("order", []) if i < k]
            pi = order + [i for i in range(k) if i not in order]
        return sx([Sym("map-iter")] + common + [bool(case.get("shuffle")), case["fn"], list(case["isnone"]), nrows, rp, pi])
    oshape = list(bs)
    if spec["valid"]:
        oshape[spec["d"]] = max(0, oshape[spec["d"]] + case["odelta"])
    kind = {"none": "none", "regular": "regular", "shared": "shared", "memmap": "shared"}[case["out"]]
    nout = oshape[spec["d"]] if (spec["valid"] and case["out"] != "none") else 0
    return sx([Sym("map-full")] + common + [Sym(kind), oshape, case["fn"], list(case["isnone"]), nrows, nout])


def full_impl_canon(case, obs):
    """the observation in the model's vocabulary: [result, pbar total]"""
    enc = lambda l: [["some", q] if q is not None else "none" for q in l]  # noqa: E731
    tot = "none" if not obs["totals"] else ["some", "none" if obs["totals"][0] is None else ["some", obs["totals"][0]]]
    if case.get("iter"):
        if obs["status"] == "raise":
            return ["raise", EXC_FULL.get(obs["exc"], obs["exc"])]
        return ["ok", ["none" if it is None else ["some", enc(it)] for it in obs["items"]]]
    if obs["status"] == "raise":
        res = ["raise", EXC_FULL.get(obs["exc"], obs["exc"])]
    elif case["out"] == "none":
        res = ["ok", ["ret-none"]] if obs["ret"] == "none" else ["ok", ["ret-cat", enc(obs["ret_pos"])]]
    else:
        res = ["ok", ["ret-out" if obs["ret"] == "out" else "ret-none-out" if obs["ret"] == "none" else "ret-other", enc(obs["out_pos"])]]
    return [res, tot]


def oracle_full(case):
    """the sequential form, computed with torch only: the function applied to the slices of the documented partition, in order;
    returns None when the case is outside the property's quantifier (invalid dim / arguments, empty dim, out= of another size)"""
    spec = full_spec(case)
    bs = case["bs"]
    if not spec["valid"] or bs[spec["d"]] == 0 or case["odelta"] != 0:
        return None
    d, n = spec["d"], bs[spec["d"]]
    sizes = spec_sizes(n, case["chunksize"], case["num_chunks"], case["workers"])
    if sizes is None or (case.get("shuffle") and not case["gen"]):
        return None
    x, _ = M.make_leaves(bs)
    pre = (slice(None),) * d
    idxs, a = [], 0
    for s_ in ([1] * n if sizes == "rows" else sizes):
        idxs.append(pre + ((a,) if sizes == "rows" else (slice(a, a + s_),)))
        a += s_
    results = []
    for idx in idxs:
        xi = x[idx].clone()
        r = full_fn(TensorDict({"x": xi}, batch_size=xi.shape), spec)
        results.append(None if r is None else r.get("y"))
    exp = {"items": results}
    kept = [r for r in results if r is not None]
    exp["ret"] = None if not kept else (torch.stack(kept, d) if case["chunksize"] == 0 else torch.cat(kept, d))
    if case["out"] != "none":
        y = -torch.ones_like(x)
        try:
            for idx, r in zip(idxs, results):
                if r is not None:
                    y[idx] = r
            exp["out"] = y
        except RuntimeError:
            exp["out"] = "raise"
    return exp


def judge_full(R, case, obs):
    exp = oracle_full(case)
    if exp is None:
        return
    sig = {"call": "map_iter" if case.get("iter") else "map", "out": case["out"], "stream": "mapfull"}
    if obs["status"] == "raise":
        if exp.get("out") == "raise":
            return
        R.oracle_fail("mapfull:raises", case, {"exception": obs["exc"]}, dict(sig, kind="raise", exc=obs["exc"]))
        return
    detail = None
    if case.get("iter"):
        got = obs["raw_items"]
        want = [None if r is None else [list(r.shape), r.reshape(-1).tolist()] for r in exp["items"]]
        if case.get("shuffle"):
            g = sorted(v for it in got if it is not None for v in it[1])
            w_ = sorted(v for it in want if it is not None for v in it[1])
            if g != w_ and case["fn"] in ("rows", "dup") and all(not q for q in case["isnone"]):
                detail = {"what": "shuffled map_iter does not cover the rows exactly once", "got": g[:40], "want": w_[:40]}
            elif len(got) != len(want):
                detail = {"what": "number of yielded items", "got": len(got), "want": len(want)}
        elif got != want:
            detail = {"what": "yielded items", "got": got[:8], "want": want[:8]}
    elif case["out"] == "none":
        if exp["ret"] is None:
            if obs["ret"] != "none":
                detail = {"what": "result where every chunk returned None", "got": obs["ret"]}
        elif obs["ret"] != "td" or obs["ret_raw"] != [list(exp["ret"].shape), exp["ret"].reshape(-1).tolist()]:
            detail = {"what": "result", "got": obs.get("ret_raw", obs["ret"]), "want": [list(exp["ret"].shape), exp["ret"].reshape(-1).tolist()]}
    else:
        if isinstance(exp["out"], str):
            detail = {"what": "no exception where writing the result into its slice raises", "got": obs["out_raw"]}
        elif obs["out_raw"] != exp["out"].reshape(-1).tolist():
            detail = {"what": "content of out=", "got": obs["out_raw"], "want": exp["out"].reshape(-1).tolist()}
    if detail is not None:
        R.oracle_fail("mapfull:differs-from-sequential", case, detail, dict(sig, kind="content", what=detail["what"].split(" ")[0]))


def check_map_full(R):
    """map / map_iter with every parameter (dim incl. negative / invalid, empty dim, chunksize 0, num_chunks, both, pbar, generator,
    out= regular / shared / memmap of the same or another length, None results, results of another size along dim, shuffle with a
    chosen completion order) against Model/C12_Map.v, and against the sequential form computed with torch"""
    rng = R.rng
    ncases = int(os.environ.get("C12_NFULL", 5000 if R.quick else 80000))
    cases = [gen_full_case(rng) for _ in range(ncases)]
    obs = []
    for ci, case in enumerate(cases):
        o = call(lambda: run_full_case(case))
        if o[0] != "ok":
            raise RuntimeError(f"C12 harness error on {case}: {o[1]}")
        o = o[1]
        obs.append(o)
        spec = full_spec(case)
        n = case["bs"][spec["d"]] if spec["valid"] else -1
        R.case(case_key(case), nontrivial=n > 1, sample=case if ci % 1499 == 0 else None)
        R.count("mapfull:" + ("iter+shuffle" if case.get("shuffle") else "iter" if case.get("iter") else "out=" + case["out"]))
        R.count("mapfull:dim=" + ("invalid" if not spec["valid"] else "0" if spec["d"] == 0 else "negative" if case["dim"] < 0 else "positive"))
        R.count("mapfull:fn=" + case["fn"] + ("+none" if any(case["isnone"]) else ""))
        if n == 0:
            R.count("mapfull:empty-dim")
        if case["pbar"]:
            R.count("mapfull:pbar")
        if case["odelta"]:
            R.count("mapfull:out-of-another-length")
        if case["chunksize"] is not None and case["num_chunks"] is not None:
            R.count("mapfull:both-chunksize-and-num_chunks")
        R.count("mapfull:status=" + o["status"])
        judge_full(R, case, o)
        R.traces += 1
    mod = R.model([full_model_line(c, o) for c, o in zip(cases, obs)])
    for c, o, m in zip(cases, obs, mod):
        impl = full_impl_canon(c, o)
        if c.get("iter"):
            mo = list(m) if m[0] == "raise" else m
        else:
            mo = [list(m[0]) if m[0][0] == "raise" else m[0], m[1][1] if m[1][0] == "ok" else "none"]
            if impl[0][0] == "raise" or mo[0][0] == "raise":
                # the progress bar is compared on the runs that return
                impl, mo = impl[0], mo[0]
        if impl != mo:
            R.mismatch("map-full:" + ("iter" if c.get("iter") else "map"), c, impl, mo)
    R.extra["map_full_model_comparisons"] = len(cases)


# =================================================================== 4. thread pools under a deterministic executor
from tensordict import is_tensor_collection, LazyStackedTensorDict  # noqa: E402
from . import c12_thr as T  # noqa: E402
import tensordict._td as TT_mod  # noqa: E402

BS = [3]


def gen_tree(rng, nleaves, depth=3):
    """nested spec [[key, leaf_id] | [key, [children]]] with exactly nleaves leaves (ids 1..nleaves in key order);
    every key name is used once in the whole tree"""
    counter = [0]
    pool = ["a", "b", "c", "d", "e", "f", "g", "h", "n", "m", "p", "q", "r", "s", "t", "u", "v", "w", "y", "z"]
    rng.shuffle(pool)
    fresh = iter(pool + [f"k{i}" for i in range(100)])

    def node(k, dep):
        width = max(1, k + rng.choice([0, 0, 1]))
        out = []
        remaining = k
        for i in range(width):
            last = i == width - 1
            if remaining == 0:
                if rng.random() < 0.5:
                    out.append([next(fresh), []])       # an empty nested tensordict
                continue
            if dep > 0 and rng.random() < 0.45:
                sub = remaining if last else rng.randrange(0, remaining + 1)
                name = next(fresh)
                out.append([name, node(sub, dep - 1)])
                remaining -= sub
            else:
                counter[0] += 1
                out.append([next(fresh), counter[0]])
                remaining -= 1
        while remaining > 0:
            counter[0] += 1
            out.append([next(fresh), counter[0]])
            remaining -= 1
        return out
    return node(nleaves, depth)


def all_paths(spec, prefix=()):
    out = []
    for k, v in spec:
        out.append(list(prefix + (k,)))
        if isinstance(v, list):
            out += all_paths(v, prefix + (k,))
    return out


def leaf_tensor(lid, off=0):
    return torch.arange(6, dtype=torch.int64).reshape(BS + [2]) + lid * 1000 + off


def build_tree(spec, off=0, drop=(), prefix=()):
    """drop: paths (lists of keys) left out"""
    d = {}
    for k, v in spec:
        if list(prefix + (k,)) in drop:
            continue
        if isinstance(v, list):
            d[k] = build_tree(v, off, drop, prefix + (k,))
        else:
            d[k] = leaf_tensor(v, off)
    return TensorDict(d, batch_size=BS)


def tree_leaves(spec):
    out = []
    for k, v in spec:
        out += tree_leaves(v) if isinstance(v, list) else [v]
    return out


def has_node(spec):
    return any(isinstance(v, list) for _, v in spec)


def all_none_subtree(spec, noneset, root=True):
    """a non-empty (sub)tree in which fn returns None for every leaf"""
    leaves = tree_leaves(spec)
    here = bool(spec) and all(l in noneset for l in leaves)
    return here or any(all_none_subtree(v, noneset, False) for _, v in spec if isinstance(v, list))


def nonnone_nested(spec, noneset, fe):
    """a nested node whose rebuild returns a tensordict (not None)"""
    for _, v in spec:
        if isinstance(v, list):
            if not (fe is True and all(l in noneset for l in tree_leaves(v))):
                return True
    return False


def obs_tree(x, seen=None):
    seen = seen or set()
    if x is None:
        return None
    if not is_tensor_collection(x):
        return x.reshape(-1).tolist()
    if id(x) in seen:
        return "CYCLE"
    seen = seen | {id(x)}
    return {"bs": list(x.batch_size), "names": list(x.names) if x._has_names() else None, "locked": bool(x.is_locked),
            "keys": sorted((k, obs_tree(v, seen)) for k, v in x.items())}


def obs_ordered(x, seen=None, ptr_ids=None):
    """insertion-ordered structure; every leaf: the identity class of its storage (the model's leaf id of the tensor that
    existed before the call, 0 for a tensor created by the call) and its first element (the model's vocabulary)"""
    seen = seen or set()
    if not is_tensor_collection(x):
        return ["leaf", (ptr_ids or {}).get(x.data_ptr(), 0), int(x.reshape(-1)[0])]
    if id(x) in seen:
        return "CYCLE"
    seen = seen | {id(x)}
    return ["node", [[k, obs_ordered(v, seen, ptr_ids)] for k, v in x.items()]]


def has_cycle(o):
    return o == "CYCLE" or (isinstance(o, list) and any(has_cycle(c) for c in o))


def spec_sx(spec, off=0, drop=(), prefix=(), idbase=0):
    out = []
    for k, v in spec:
        if list(prefix + (k,)) in drop:
            continue
        if isinstance(v, list):
            out.append([Sym(k), [Sym("node"), spec_sx(v, off, drop, prefix + (k,), idbase)]])
        else:
            out.append([Sym(k), [Sym("leaf"), idbase + v, v * 1000 + off]])
    return out


def apply_model_lines(case, ran):
    spec = case["spec"]
    drop = case.get("drop", [])
    others = [spec_sx(spec, 500, drop if case["others"] == "missing" else (), idbase=2000)] if case["others"] != "none" else []
    out = some(spec_sx(spec, -7, idbase=1000)) if case["out"] else None
    fe = case["filter_empty"]
    op = [case["named"], case["nested_keys"], case["inplace"], Sym("none") if fe is None else fe, case["default"], case["con"], case["cwd"]]
    base = [spec_sx(spec), others, out, op, list(case["noneset"])]
    if ran is None:
        return sx([Sym("st-apply")] + base)
    return sx([Sym("mt-apply")] + base + [list(ran)])


def apply_impl_canon(o):
    if o["status"] == "raise":
        return ["raise", {"KeyError": "ekey"}.get(o["exc"], o["exc"])]
    if o["ret"] == "none":
        return ["ret", "none"]
    if has_cycle(o["ordered"]):
        return ["cyclic"]
    return ["ret", o["ordered"][1]]


def key_hash(key):
    key = (key,) if isinstance(key, str) else tuple(key)
    return sum(len(k) for k in key) * 7 + 1000000 * len(key)


def make_apply_fn(case):
    noneset = set(case["noneset"])
    named = case["named"]

    def fn(*args):
        if named:
            key, x, *oth = args
        else:
            x, *oth = args
        if is_tensor_collection(x):   # call_on_nested: the function itself recurses (single-threaded)
            return x.apply(lambda v: v + 1)
        lid = int(x.reshape(-1)[0]) // 1000
        if lid in noneset:
            return None
        r = (x.double() + 0.5) if case.get("fnkind") == "todouble" else x + 1
        for o in oth:
            r = r + (100 if o is None else 7 if is_tensor_collection(o) else o)
        if named:
            r = r + key_hash(key)
        return r
    return fn


def gen_apply_case(rng, nleaves):
    spec = gen_tree(rng, nleaves)
    leaves = tree_leaves(spec)
    nk = rng.choice(["none", "none", "some", "some", "all"])
    noneset = [] if nk == "none" else leaves if nk == "all" else [l for l in leaves if rng.random() < 0.4]
    case = {"op": "apply", "spec": spec, "noneset": noneset, "named": rng.random() < 0.4, "nested_keys": rng.random() < 0.5,
            "inplace": False, "out": False, "filter_empty": rng.choice([False, False, True, True, None]),
            "checked": rng.random() < 0.5, "others": "none", "default": False, "con": rng.random() < 0.1,
            "names": False, "cwd": rng.random() < 0.15, "lazy": False}
    r = rng.random()
    if r < 0.3:
        case["inplace"] = True
    elif r < 0.42:
        case["out"] = True
    case["threads"] = rng.choice([1, 2, 2, 4])
    # observers of in-place semantics: a function that changes the dtype, leaves in shared memory
    case["fnkind"] = "todouble" if rng.random() < 0.15 else "inc"
    case["shared"] = rng.random() < 0.15
    r = rng.random()
    if r < 0.25:
        case["others"] = "full"
    elif r < 0.37:
        case["others"] = "missing"
        case["default"] = True
        cands = all_paths(spec)
        if rng.random() < 0.6:
            cands = [c for c in cands if len(c) == 1]     # only root-level entries are missing from the other operand
        case["drop"] = [c for c in cands if rng.random() < 0.35] or cands[:1]
    if rng.random() < 0.08:
        case["names"] = True
    return case


def apply_signature(case):
    spec, noneset, fe = case["spec"], set(case["noneset"]), case["filter_empty"]
    drop = case.get("drop", [])

    def has_children(path):
        node = spec
        for k in path:
            node = dict((kk, vv) for kk, vv in node)[k]
        return isinstance(node, list) and len(node) > 0
    # a key below the root level is missing from the other operand (also when its ancestor is missing)
    below = case["default"] and any(len(p) >= 2 or has_children(p) for p in drop)
    return {"call": "_multithread_apply_nest",
            "out_with_nested_result": bool(case["out"] and not case["con"] and nonnone_nested(spec, noneset, fe)),
            "default_below_root": bool(below and not case["con"]),
            "filter_empty_none_all_none_subtree": bool(fe is None and (
                all_none_subtree(spec, noneset) if not case["con"]
                # call_on_nested: every root entry is a task; the function returns a tensordict for nested entries
                else (len(spec) > 0 and all((not isinstance(v, list)) and v in noneset for _, v in spec)))),
            "names_with_nested": bool(case["names"] and has_node(spec) and not case["con"])}


def leaf_handles(td):
    return {("/".join(k) if isinstance(k, tuple) else k): v for k, v in td.items(True, True)} if td is not None else {}


def state_after(td, pre, view):
    """what an observer holding handles taken BEFORE the call sees afterwards: per leaf of the tensordict that existed
    before, is it still the same object / the same storage, does the old handle (and a view of the tensordict taken before)
    see the new content, dtype, shared-ness.  Identity is reported as equivalence with the pre-call handles, never as addresses."""
    out = {}
    for key, old in pre.items():
        new = td.get(tuple(key.split("/")), None)
        if new is None or is_tensor_collection(new):
            out[key] = {"present": False, "old_handle": old.reshape(-1).tolist()}
            continue
        e = {"present": True, "same_object": new is old, "same_storage": new.data_ptr() == old.data_ptr(),
             "dtype": str(new.dtype), "shared": bool(new.is_shared()), "old_handle": old.reshape(-1).tolist(),
             "old_handle_dtype": str(old.dtype)}
        if view is not None:
            v = view.get(tuple(key.split("/")), None)
            e["view_sees"] = None if v is None else v.reshape(-1).tolist() == new[1:].reshape(-1).tolist()
        out[key] = e
    return out


def id_classes(r, pre_self, pre_out):
    """each leaf of the returned tensordict: the pre-existing leaf whose storage it is, or 'new'"""
    if r is None or not is_tensor_collection(r):
        return None
    ptr = {}
    for lab, pre in (("self", pre_self), ("out", pre_out)):
        for key, old in pre.items():
            ptr.setdefault(old.data_ptr(), lab + ":" + key)
    return {k: ptr.get(v.data_ptr(), "new") for k, v in leaf_handles(r).items()}


def run_apply(case, sched):
    """sched None: the single-threaded form; else (order, eager)"""
    spec = case["spec"]
    if case["lazy"]:
        td = LazyStackedTensorDict(*[build_tree(spec, off=i * 10) for i in range(2)], stack_dim=0)
    else:
        td = build_tree(spec)
    drop = case.get("drop", [])
    others = []
    if case["others"] != "none":
        others = [build_tree(spec, off=500, drop=drop if case["others"] == "missing" else ())]
    out = build_tree(spec, off=-7) if case["out"] else None
    track = not case["lazy"]
    if case.get("shared") and track:
        td.share_memory_()
    pre_self = leaf_handles(td) if track else {}
    pre_out = leaf_handles(out) if track else {}
    view = td[1:] if track else None
    # the model's leaf id of every pre-existing tensor (read before the call: an in-place apply changes the content)
    leaf_ids = {(0, key): int(old.reshape(-1)[0]) // 1000 for key, old in pre_self.items()}
    leaf_ids.update({(1000, key): (int(old.reshape(-1)[0]) + 7) // 1000 for key, old in pre_out.items()})
    fn = make_apply_fn(case)
    kw = {"inplace": case["inplace"], "out": out, "filter_empty": case["filter_empty"], "checked": case["checked"],
          "named": case["named"], "nested_keys": case["nested_keys"], "call_on_nested": case["con"]}
    if case["default"]:
        kw["default"] = None
    if case["names"]:
        kw["names"] = ["t"]
    cwd = (lambda r: r if (r is None or is_tensor_collection(r)) else r + 10) if case["cwd"] else None
    o = {}
    try:
        if sched is None:
            f2 = fn if cwd is None else (lambda *a: cwd(fn(*a)))
            r = td._fast_apply(f2, *others, **kw)
            o["ran"] = None
        else:
            with T.scheduled(*sched) as s:
                if cwd is None:
                    r = td._fast_apply(fn, *others, num_threads=case.get("threads", 2), **kw)
                else:
                    r = td._multithread_apply_nest(fn, *others, num_threads=case.get("threads", 2), call_when_done=cwd, **kw)
            o["ran"] = list(s.ran)
            o["never_run"] = s.never_run
        o["status"] = "ok"
        o["ret"] = "self" if r is td else "out" if (out is not None and r is out) else "none" if r is None else "new"
        o["result"] = obs_tree(r)
        ptr_ids = {}
        for base, pre, off in ((0, pre_self, 0), (1000, pre_out, 7)):
            for key, old in pre.items():
                ptr_ids.setdefault(old.data_ptr(), base + leaf_ids[(base, key)])
        o["ordered"] = None if r is None else obs_ordered(r, None, ptr_ids)
        if track:
            o["ids"] = id_classes(r, pre_self, pre_out)
    except Exception as e:  # noqa: BLE001
        o["status"] = "raise"
        o["exc"] = type(e).__name__
        if sched is not None:
            o["ran"] = list(s.ran)
    o["self"] = obs_tree(td)
    o["out"] = obs_tree(out)
    if track and o["status"] == "ok":
        # the STATE after the call as seen through handles / a view taken before it
        o["state_self"] = state_after(td, pre_self, view)
        o["state_out"] = state_after(out, pre_out, None) if out is not None else None
    return o


def strip(o):
    if o["status"] == "raise":
        return {"status": "raise"}      # both forms reject: which exception class / partial effects are not compared
    return {k: v for k, v in o.items() if k not in ("ran", "never_run", "ordered")}


def check_apply(R):
    rng = R.rng
    ncases = int(os.environ.get("C12_NAPPLY", 800 if R.quick else 12000))
    mlines, mobs, mcap = [], [], (30000 if R.quick else 400000)
    for ci in range(ncases):
        nleaves = rng.choice([1, 2, 2, 3, 3, 4, 4, 5, 5, 6, 7, 8]) if ci % 4 else rng.choice([3, 4, 5])
        case = gen_apply_case(rng, nleaves)
        if rng.random() < 0.1:
            case["lazy"] = True
            case["out"] = False
            case["names"] = False
        st = run_apply(case, None)
        sig = apply_signature(case)
        in_model = not case["lazy"] and not case["names"] and case["fnkind"] == "inc"
        if in_model:
            mlines.append(apply_model_lines(case, None))
            mobs.append((case, None, apply_impl_canon(st)))
        ntasks = len(case["spec"]) if case["con"] else nleaves * (2 if case["lazy"] else 1)
        scheds = T.schedules(ntasks, rng, exhaustive_upto=5)
        R.count("apply:leaves=%d" % nleaves)
        R.count("apply:num_threads=%d" % case["threads"])
        R.count("apply:checked=%s" % case["checked"])
        if case["inplace"]:
            R.count("apply:inplace,checked=%s" % case["checked"])
        if case["fnkind"] == "todouble":
            R.count("apply:dtype-changing-fn")
        for k in ("inplace", "out", "con", "cwd", "lazy", "names", "default", "shared"):
            if case[k]:
                R.count("apply:" + k)
        R.count("apply:filter_empty=%s" % case["filter_empty"])
        R.case(case_key(case), nontrivial=nleaves > 1, sample=case if ci % 211 == 0 else None)
        results = {}
        for (order, eager) in scheds:
            mt = run_apply(case, (order, eager))
            R.traces += 1
            results[json.dumps(strip(mt), sort_keys=True)] = (order, eager)
            if in_model and len(mlines) < mcap:
                mlines.append(apply_model_lines(case, mt.get("ran", [])))
                mobs.append((case, {"order": order, "eager": eager, "completion": mt.get("ran", [])}, apply_impl_canon(mt)))
            if strip(mt) != strip(st):
                c2 = dict(case, schedule={"order": order, "eager": eager})
                what = "status" if mt["status"] != st["status"] else next(k for k in ("ret", "result", "self", "out", "ids", "state_self", "state_out") if mt.get(k) != st.get(k))
                R.oracle_fail("mt-apply:differs-from-single-thread", c2,
                              {"what": what, "single": st.get(what, st.get("exc")), "multi": mt.get(what, mt.get("exc"))},
                              dict(sig, kind="differs"))
                break
            if mt.get("never_run"):
                R.oracle_fail("mt-apply:task-never-awaited", dict(case, schedule={"order": order, "eager": eager}), {"n": mt["never_run"]},
                              dict(sig, kind="never-run"))
                break
        if len(results) > 1:
            # the result depends on the completion order (whatever the single-threaded form says)
            (o1, e1), (o2, e2) = list(results.values())[:2]
            R.oracle_fail("mt-apply:order-dependent", dict(case, schedule={"order": o1, "eager": e1}, schedule2={"order": o2, "eager": e2}),
                          {"distinct_outcomes": len(results)}, {"call": "_multithread_apply_nest", "kind": "order-dependent"})
        R.extra["schedules_run"] = R.extra.get("schedules_run", 0) + len(scheds)
    mod = R.model(mlines)
    for (case, sched, impl), m in zip(mobs, mod):
        if impl != m:
            R.mismatch("apply:" + ("single-thread" if sched is None else "multithread"), dict(case, schedule=sched), impl, m)
    R.extra["apply_model_comparisons"] = len(mlines)




# ------------------------------------------------------------------- the METADATA of the result of apply (Model/C12_Meta.v)
def meta_of(x):
    """nested tensordicts only, in key order: [bs, names, device, locked, kids]"""
    if x is None:
        return None
    nm = list(x.names) if x._has_names() else None
    if nm is not None and all(q is None for q in nm):
        nm = None
    return [list(x.batch_size), nm, None if x.device is None else str(x.device), bool(x.is_locked),
            [[k, meta_of(v)] for k, v in x.items() if is_tensor_collection(v)]]


DEVS = {"cpu": 0}


def meta_sx(m):
    bs, nm, dv, lk, kids = m
    return [Sym("mnode"), bs, some(nm), some(None if dv is None else DEVS[dv]), lk, [[Sym(k), meta_sx(v)] for k, v in kids]]


def meta_from_model(m):
    if m[0] != "ok":
        return ["raise"]

    def conv(t):
        _, bs, nm, dv, lk, kids = t
        return [bs, None if nm == "none" else nm[1], None if dv == "none" else {v: k for k, v in DEVS.items()}[dv[1]], lk == "t",
                [[k, conv(v)] for k, v in kids]]
    return ["ok", conv(m[1])]


def gen_meta_case(rng):
    nleaves = rng.choice([1, 2, 3, 3, 4, 5])
    spec = gen_tree(rng, nleaves, depth=3)
    case = {"op": "applymeta", "spec": spec, "self_names": rng.random() < 0.35, "self_dev": rng.choice([None, None, "cpu"]),
            "bs": rng.choice([None, None, None, [3], [3, 2], []]), "dev": rng.choice(["nodefault", "nodefault", "cpu"]),
            "names": "nodefault", "inplace": rng.random() < 0.15, "checked": rng.random() < 0.5, "out": None,
            "threads": rng.choice([1, 2, 4]), "bs_size": rng.random() < 0.7, "dev_obj": rng.random() < 0.7}
    rank = 1 if case["bs"] is None else len(case["bs"])
    r = rng.random()
    if r < 0.3 and rank > 0:
        case["names"] = ["t", "u"][:rank]
    elif r < 0.4:
        case["names"] = None
    if not case["inplace"] and rng.random() < 0.35:
        paths = [p_ for p_ in all_paths(spec) if isinstance(dict_at(spec, p_), list)]
        case["out"] = {"dev": rng.choice([None, None, "cpu"]), "names": rng.random() < 0.3, "locked": rng.random() < 0.06,
                       "drop": [p_ for p_ in paths if rng.random() < 0.25], "bs2": False}
        if not case["out"]["names"] and case["checked"] and rng.random() < 0.15:
            # (unchecked, _validate_value would also re-batch the nested results and name them partially: outside the model)
            case["out"]["bs2"] = True
    return case


def dict_at(spec, path):
    node = spec
    for k in path:
        node = dict((kk, vv) for kk, vv in node)[k]
    return node


def run_meta(case, sched):
    spec = case["spec"]
    td = build_tree(spec)
    if case["self_dev"]:
        td = td.to(case["self_dev"])
    if case["self_names"]:
        td.names = ["a"]
    out = None
    if case["out"] is not None:
        oc = case["out"]
        out = build_tree(spec, off=-7, drop=oc["drop"])
        if oc["bs2"]:
            out.batch_size = [3, 2]
        if oc["dev"]:
            out = out.to(oc["dev"])
        if oc["names"]:
            out.names = ["o", "p"][:out.batch_dims]
        if oc["locked"]:
            out.lock_()
    pre = {"self": meta_of(td), "out": meta_of(out)}
    kw = {"inplace": case["inplace"], "out": out, "checked": case["checked"], "filter_empty": False}
    if case["bs"] is not None:
        kw["batch_size"] = torch.Size(case["bs"]) if case.get("bs_size") else list(case["bs"])
    if case["dev"] != "nodefault":
        kw["device"] = torch.device(case["dev"]) if case.get("dev_obj") else case["dev"]
    if case["names"] != "nodefault":
        kw["names"] = case["names"]
    fn = lambda x: x + 1  # noqa: E731
    o = {"pre": pre}
    try:
        if sched is None:
            r = td._fast_apply(fn, **kw)
        else:
            with T.scheduled(*sched):
                r = td._fast_apply(fn, num_threads=case["threads"], **kw)
        o["status"] = "ok"
        o["ret"] = "self" if r is td else "out" if (out is not None and r is out) else "none" if r is None else "new"
        o["meta"] = meta_of(r)
        o["values"] = obs_tree(r)
    except Exception as e:  # noqa: BLE001
        o["status"] = "raise"
        o["exc"] = type(e).__name__
    return o


def meta_model_line(case, form, pre):
    nm = case["names"]
    return sx([Sym("apply-meta"), Sym(form), meta_sx(pre["self"]), some(meta_sx(pre["out"])) if pre["out"] is not None else None,
               some(case["bs"]), bool(case.get("bs_size")), None if case["dev"] == "nodefault" else some(some(DEVS[case["dev"]])), bool(case.get("dev_obj")),
               None if nm == "nodefault" else [Sym("some"), Sym("none") if nm is None else [Sym("some"), nm]], case["inplace"], case["checked"]])


def check_apply_meta(R):
    """names= / batch_size= / device= overrides, out= with its own metadata (other device, locked, another batch size, entries missing),
    inplace, checked on / off: the metadata of every nested tensordict of the result, single-threaded vs thread pool under several
    schedules, and both against Model/C12_Meta.v"""
    rng = R.rng
    ncases = int(os.environ.get("C12_NMETA", 500 if R.quick else 8000))
    lines, wants = [], []
    for ci in range(ncases):
        case = gen_meta_case(rng)
        st = run_meta(case, None)
        ntasks = len(tree_leaves(case["spec"]))
        scheds = [(list(range(ntasks)), []), (list(range(ntasks - 1, -1, -1)), []), (rng.sample(range(ntasks), ntasks), []), ([], list(range(ntasks + 2)))]
        R.case(case_key(case), nontrivial=has_node(case["spec"]), sample=case if ci % 173 == 0 else None)
        for k in ("inplace", "checked", "self_names"):
            if case[k]:
                R.count("applymeta:" + k)
        R.count("applymeta:batch_size=" + str(case["bs"]))
        R.count("applymeta:device=" + case["dev"])
        R.count("applymeta:names=" + ("nodefault" if case["names"] == "nodefault" else "None" if case["names"] is None else "given"))
        R.count("applymeta:out=" + ("none" if case["out"] is None else "given" + ("+locked" if case["out"]["locked"] else "") +
                                    ("+entries-missing" if case["out"]["drop"] else "") + ("+other-batch-size" if case["out"]["bs2"] else "")))
        R.count("applymeta:status=" + st["status"])
        lines.append(meta_model_line(case, "st", st["pre"]))
        wants.append((case, None, ["raise"] if st["status"] == "raise" else ["ok", st["meta"]]))
        sig = {"call": "_multithread_apply_nest", "stream": "applymeta", "names": case["names"] != "nodefault", "batch_size": case["bs"] is not None,
               "device": case["dev"] != "nodefault", "out": case["out"] is not None}
        for si, sched in enumerate(scheds):
            mt = run_meta(case, sched)
            R.traces += 1
            if si == 0:
                lines.append(meta_model_line(case, "mt", mt["pre"]))
                wants.append((case, {"order": sched[0], "eager": sched[1]}, ["raise"] if mt["status"] == "raise" else ["ok", mt["meta"]]))
            a = {k: v for k, v in mt.items() if k not in ("exc", "pre")}
            b = {k: v for k, v in st.items() if k not in ("exc", "pre")}
            if a != b:
                what = next(k for k in ("status", "ret", "meta", "values") if a.get(k) != b.get(k))
                R.oracle_fail("mt-apply-meta:differs-from-single-thread", dict(case, schedule={"order": sched[0], "eager": sched[1]}),
                              {"what": what, "single": st.get(what, st.get("exc")), "multi": mt.get(what, mt.get("exc"))}, dict(sig, kind="differs", what=what))
                break
    mod = R.model(lines)
    for (case, sched, want), m in zip(wants, mod):
        got = meta_from_model(m)
        if got != want:
            R.mismatch("apply-meta:" + ("single-thread" if sched is None else "multithread"), dict(case, schedule=sched), want, got)
    R.extra["apply_meta_model_comparisons"] = len(lines)


# ------------------------------------------------------------------- writers: memmap_ / memmap / memmap_like / consolidate
def files_of(prefix):
    out = []
    for r, _, fs in os.walk(prefix):
        for f in fs:
            pth = os.path.join(r, f)
            out.append([os.path.relpath(pth, prefix), os.path.getsize(pth) if not f.endswith(".json") else -1])
    return sorted(out)


def obs_written(r, td, prefix):
    o = {"ret": "self" if r is td else "new", "tree": obs_tree(r), "src": obs_tree(td),
         "key_order": [list(k) if isinstance(k, tuple) else [k] for k in r.keys(True, True)],
         "kinds": sorted((("/".join(k) if isinstance(k, tuple) else k), type(v).__name__) for k, v in r.items(True, True)),
         "is_memmap": bool(r.is_memmap())}
    if prefix is not None:
        o["files"] = files_of(prefix)
        try:
            o["loaded"] = obs_tree(TensorDict.load_memmap(prefix))
        except Exception as e:  # noqa: BLE001
            o["loaded"] = "raise " + type(e).__name__
    return o


def run_writer(case, sched):
    spec = case["spec"]
    td = build_tree(spec)
    op = case["writer"]
    tmp = tempfile.mkdtemp(prefix="c12-w-", dir=M.SCRATCH) if case["prefix"] or op == "consolidate-file" else None
    nt = 0 if sched is None else case["threads"]
    if op.startswith("consolidate") and sched is None:
        nt = case.get("single_threads", 0)
    o = {}
    inject = set(case.get("inject") or [])
    real_populate = TT_mod._populate_memmap

    def failing_populate(*a, **k):
        if k.get("key") in inject:
            raise OSError("injected:" + str(k.get("key")))
        return real_populate(*a, **k)
    try:
        if inject:
            TT_mod._populate_memmap = failing_populate
        if case.get("preexisting") and tmp is not None:
            build_tree(spec).memmap_(tmp)
        try:
            with T.scheduled(*(sched or ((), ()))) as s:
                if op == "memmap_":
                    r = td.memmap_(tmp, num_threads=nt, existsok=not case.get("preexisting"))
                elif op == "memmap":
                    r = td.memmap(tmp, num_threads=nt, existsok=not case.get("preexisting"))
                elif op == "memmap_like":
                    r = td.memmap_like(tmp, num_threads=nt, existsok=not case.get("preexisting"))
                elif op == "consolidate":
                    r = td.consolidate(num_threads=nt)
                elif op == "consolidate-file":
                    r = td.consolidate(os.path.join(tmp, "store.bin"), num_threads=nt)
                elif op == "to-consolidated":
                    # public path into the multithreaded apply: a consolidated tensordict (device None) cast in place
                    td = td.consolidate()
                    r = td.to("cpu", num_threads=nt, inplace=True)
            o["status"] = "ok"
            o["never_run"] = s.never_run
            o["nran"] = len(s.ran)
            o["ran"] = list(s.ran)
            o["root_keys"] = list(r.keys())
            if op == "to-consolidated":
                o.update({"ret": "self" if r is td else "new", "tree": obs_tree(r), "devices": sorted({str(r.device)} | {str(v.device) for v in r.values(True, True)}),
                          "key_order": [list(k) if isinstance(k, tuple) else [k] for k in r.keys(True, True)]})
            elif op.startswith("consolidate"):
                try:
                    o["storage"] = r._consolidated["storage"][: 48 * len(tree_leaves(spec))].view(torch.int64).tolist()
                except Exception as e:  # noqa: BLE001
                    o["storage"] = "raise " + type(e).__name__
            if op == "to-consolidated":
                pass
            elif op.startswith("consolidate"):
                o.update({"ret": "new", "tree": obs_tree(r), "src": obs_tree(td),
                          "key_order": [list(k) if isinstance(k, tuple) else [k] for k in r.keys(True, True)],
                          "one_storage": len({v.untyped_storage().data_ptr() for v in r.values(True, True)}) <= 1,
                          "offsets": [v.storage_offset() * v.element_size() for v in r.values(True, True)],
                          "consolidated": bool(r.is_consolidated())})
            else:
                o.update(obs_written(r, td, tmp))
                if op == "memmap_like":
                    # content is unspecified (empty_like); only structure
                    o["tree"] = None
                    o["loaded"] = None
        except Exception as e:  # noqa: BLE001
            o["status"] = "raise"
            o["exc"] = type(e).__name__
            o["failed_key"] = str(e).split(":", 1)[1] if str(e).startswith("injected:") else None
            if sched is not None:
                o["ran"] = list(s.ran)
        return o
    finally:
        TT_mod._populate_memmap = real_populate
        if tmp is not None:
            import shutil
            shutil.rmtree(tmp, ignore_errors=True)


def strip_w(o):
    if o["status"] == "raise":
        return {"status": "raise"}
    return {k: v for k, v in o.items() if k not in ("never_run", "nran", "key_order", "ran", "root_keys", "storage")}


def memmap_submissions(spec, with_meta, path=()):
    """the writer tasks _memmap_ submits, in submission order: ("leaf", path) / ("meta", path)"""
    subs = []
    for k, v in spec:
        if isinstance(v, list):
            subs += memmap_submissions(v, with_meta, path + (k,))
        else:
            subs.append(("leaf", path + (k,)))
    if with_meta:
        subs.append(("meta", path))
    return subs


def writer_model_line(case, sched, obs):
    """the sequence of writes into the ROOT destination dict implied by the schedule, for the model's run_writes:
    the main thread attaches a nested node when it has walked it; an eager task writes when submitted; the pending
    tasks write, in completion order, when the main thread waits.  consolidate: the assign tasks in completion order."""
    spec, op = case["spec"], case["writer"]
    order, eager = sched
    if op.startswith("consolidate"):
        n = len(tree_leaves(spec))
        lids = tree_leaves(spec)                              # the flat (depth-first) order of the entries
        chunks = [[lid * 1000 + j for j in range(6)] for lid in lids]
        ws = [[6 * i, chunks[i]] for i in obs["ran"] if i < n]
        return sx([Sym("run-assign"), ws, [0] * (6 * n)]), ("assign", obs["storage"])
    with_meta = bool(case["prefix"])
    subs = memmap_submissions(spec, with_meta)
    idx_of = {s_: i for i, s_ in enumerate(subs)}
    timed = []
    count = 0
    for k, v in spec:
        if isinstance(v, list):
            count += len(memmap_submissions(v, with_meta))
            timed.append((count - 0.5, [k], 0))
        else:
            i = idx_of[("leaf", (k,))]
            count += 1
            if i in eager:
                timed.append((i, [k], v))
    for pos, i in enumerate(obs["ran"]):
        if i not in eager and i < len(subs) and subs[i][0] == "leaf" and len(subs[i][1]) == 1:
            leaf_id = dict((kk, vv) for kk, vv in spec)[subs[i][1][0]]
            timed.append((10 ** 6 + pos, [subs[i][1][0]], leaf_id))
    timed.sort(key=lambda t: t[0])
    ops = [[p_, v] for _, p_, v in timed]
    d0 = [[[k], -1] for k, _ in spec] if op == "memmap_" else []
    return sx([Sym("run-writes"), ops, d0]), ("keys", obs["root_keys"])


def check_writers(R):
    rng = R.rng
    ncases = int(os.environ.get("C12_NWRITERS", 300 if R.quick else 6000))
    wlines, wobs = [], []
    flines, fobs = [], []
    for ci in range(ncases):
        nleaves = rng.choice([1, 2, 3, 3, 4, 4, 5, 6])
        spec = gen_tree(rng, nleaves, depth=2)
        op = rng.choice(["memmap_", "memmap_", "memmap", "memmap_like", "consolidate", "consolidate", "consolidate-file", "to-consolidated"])
        case = {"op": "writer", "writer": op, "spec": spec, "prefix": rng.random() < 0.6, "threads": rng.choice([2, 3]),
                "single_threads": rng.choice([0, 1]), "preexisting": False}
        if op in ("memmap_", "memmap") and rng.random() < 0.12:
            case["prefix"] = True
            case["preexisting"] = True      # existsok=False on existing files: the single-threaded form raises
        if op in ("memmap_", "memmap", "memmap_like") and not case["preexisting"] and rng.random() < 0.2:
            # fault injection: the writer task of one or two leaves raises (in every form: _populate_memmap is what the tasks run)
            keys = [p_[-1] for p_ in all_paths(spec) if not isinstance(dict_at(spec, p_), list)]
            case["inject"] = rng.sample(keys, min(len(keys), rng.choice([1, 1, 2])))
            R.count("writer:injected-task-failure")
        st = run_writer(case, None)
        ntasks = nleaves + (len([p for p in all_paths(spec) if True]) - nleaves + 1 if case["prefix"] and not op.startswith("consolidate") else 0)
        scheds = T.schedules(ntasks, rng, exhaustive_upto=4 if R.quick else 5, nrandom=4)
        R.count("writer:" + op + ("+prefix" if case["prefix"] and not op.startswith("consolidate") else ""))
        R.case(case_key(case), nontrivial=nleaves > 1, sample=case if ci % 97 == 0 else None)
        sig = {"call": op.split("-")[0], "single_thread_raises": st["status"] == "raise"}
        outcomes = {}
        for (order, eager) in scheds:
            mt = run_writer(case, (order, eager))
            R.traces += 1
            outcomes[json.dumps(strip_w(mt), sort_keys=True)] = (order, eager)
            if mt["status"] == "ok" and st["status"] == "ok" and mt["key_order"] != st["key_order"]:
                R.count("writer:key-order-differs-from-single-thread (not judged)")
            if case.get("inject") and len(flines) < 4000:
                subs = [p_ for kind_, p_ in memmap_submissions(spec, bool(case["prefix"])) if kind_ == "leaf"]
                lid = {tuple(p_): dict_at(spec, p_) for p_ in all_paths(spec) if not isinstance(dict_at(spec, p_), list)}
                tasks = [[list(p_), [Sym("fail"), i] if p_[-1] in case["inject"] else [Sym("ok"), lid[tuple(p_)]]] for i, p_ in enumerate(subs)]
                allsubs = memmap_submissions(spec, bool(case["prefix"]))
                leafpos = {j: [q for q in allsubs[:j + 1] if q[0] == "leaf"].__len__() - 1 for j, q in enumerate(allsubs) if q[0] == "leaf"}
                ran = [leafpos[j] for j in mt.get("ran", []) if j in leafpos]
                comp = [tasks[i] for i in ran] + [t_ for i, t_ in enumerate(tasks) if i not in ran]
                flines.append(sx([Sym("run-writes-f"), tasks, comp]))
                want_key = lambda o_: None if o_["status"] != "raise" else o_.get("failed_key")  # noqa: E731
                fobs.append((dict(case, schedule={"order": order, "eager": eager}), [p_[-1] for p_ in subs], want_key(st), want_key(mt), st["status"], mt["status"]))
            if mt["status"] == "ok" and op != "to-consolidated" and not case.get("preexisting") and not case.get("inject") and len(wlines) < (4000 if R.quick else 40000) and (not op.startswith("consolidate") or isinstance(mt.get("storage"), list)):
                line, want = writer_model_line(case, (order, eager), mt)
                wlines.append(line)
                wobs.append((dict(case, schedule={"order": order, "eager": eager}), want))
            if strip_w(mt) != strip_w(st):
                what = "status" if mt["status"] != st["status"] else next(k for k in strip_w(mt) if strip_w(mt)[k] != strip_w(st).get(k))
                R.oracle_fail("mt-writer:differs-from-single-thread", dict(case, schedule={"order": order, "eager": eager}),
                              {"what": what, "single": st.get(what, st.get("exc")), "multi": mt.get(what, mt.get("exc"))}, dict(sig, kind="differs"))
                break
            if mt.get("never_run"):
                R.oracle_fail("mt-writer:task-never-awaited", dict(case, schedule={"order": order, "eager": eager}), {"n": mt["never_run"]},
                              dict(sig, kind="never-run"))
                break
        if len(outcomes) > 1:
            (o1, e1), (o2, e2) = list(outcomes.values())[:2]
            R.oracle_fail("mt-writer:order-dependent", dict(case, schedule={"order": o1, "eager": e1}, schedule2={"order": o2, "eager": e2}),
                          {"distinct_outcomes": len(outcomes)}, {"call": op.split("-")[0], "kind": "order-dependent"})
        R.extra["schedules_run"] = R.extra.get("schedules_run", 0) + len(scheds)
    mod = R.model(wlines)
    for (case, (kind, want)), m in zip(wobs, mod):
        if kind == "keys":
            got = [p_[0] for p_, _ in m]
            if got != want:
                R.mismatch("writer:root-key-order", case, want, got)
        elif m != want:
            R.mismatch("consolidate:storage", case, want, m)
    R.extra["writer_model_comparisons"] = len(wlines)
    # a failing writer task: which failure surfaces, in both forms (Model/C12_Sched.v: run_writes_st / run_writes_mt)
    for (case, keys, kst, kmt, sst, smt), m in zip(fobs, R.model(flines)):
        dec = lambda w: ["raise", keys[w[1]]] if w[0] == "raised" else ["ok"]  # noqa: E731
        impl = [["raise", kst] if sst == "raise" else ["ok"], ["raise", kmt] if smt == "raise" else ["ok"]]
        mo = [dec(m[0]), dec(m[1])]
        if impl != mo:
            R.mismatch("writer:task-failure", case, impl, mo)
    R.extra["writer_failure_model_comparisons"] = len(flines)




# =================================================================== 5. real process pools (fork / spawn), in a subprocess
def gen_real_cases(rng, n_fork, n_spawn):
    cases = []
    # a fixed backbone: every out kind x generator on/off x function kind at least once, with delays that perturb completion
    backbone = []
    for out in ("none", "regular", "shared", "memmap"):
        for gen in (False, True):
            for fn in ("rows", "chunk", "mixed"):
                backbone.append((out, gen, fn))
    rng.shuffle(backbone)
    for k in range(n_fork + n_spawn):
        c = gen_map_case(rng, start="fork" if k < n_fork else "spawn")
        c.pop("order", None)
        if k < len(backbone) and k < n_fork:
            c["out"], c["gen"], c["fn"] = backbone[k]
            c.pop("iter", None)
            c.pop("shuffle", None)
        c["workers"] = 2 if k % 5 else rng.choice([1, 3, 4])
        c["delay"] = rng.choice(["reverse", "reverse", "random", "none"])
        if c["fn"] in ("none_inplace", "mixed_inplace"):
            c["inp"] = rng.choice(["shared", "memmap"])
        if c.get("shuffle"):
            c["delay"] = "random"
        c["timeout"] = 300 if c["start"] == "spawn" else 60
        cases.append(c)
    return cases


class RealRunner:
    """runs cases with real multiprocessing pools in `python -m harness.c12_mp` (own session; killed as a group)"""

    def __init__(self, cases, budget):
        self.cases = cases
        self.dir = tempfile.mkdtemp(prefix="c12-mp-", dir=M.SCRATCH)
        self.inp = os.path.join(self.dir, "in.json")
        self.out = os.path.join(self.dir, "out.json")
        json.dump(cases, open(self.inp, "w"))
        self.budget = budget
        self.t0 = time.time()
        self.log = open(os.path.join(self.dir, "log.txt"), "w")
        self.proc = subprocess.Popen([sys.executable, "-m", "harness.c12_mp", self.inp, self.out], cwd=VERIF, stdout=self.log,
                                     stderr=subprocess.STDOUT, start_new_session=True)

    def collect(self):
        import shutil
        import signal
        left = self.budget - (time.time() - self.t0)
        try:
            self.proc.wait(timeout=max(1, left))
            timed_out = False
        except subprocess.TimeoutExpired:
            timed_out = True
        try:
            os.killpg(self.proc.pid, signal.SIGKILL)      # whatever is left of the group (workers of a stuck pool)
        except (ProcessLookupError, PermissionError):
            pass
        try:
            self.proc.wait(timeout=10)
        except subprocess.TimeoutExpired:
            pass
        res = json.load(open(self.out)) if os.path.exists(self.out) else []
        self.log.close()
        tail = open(os.path.join(self.dir, "log.txt")).read()[-1500:]
        rc = self.proc.returncode
        shutil.rmtree(self.dir, ignore_errors=True)
        return res, timed_out, rc, tail


def judge_real(R, runner, label):
    res, timed_out, rc, tail = runner.collect()
    cases = runner.cases
    if len(res) < len(cases) and not timed_out and rc not in (0, None):
        raise RuntimeError(f"C12 real-pool runner died (rc={rc}) after {len(res)}/{len(cases)} cases:\n{tail}")
    done_cases, done_obs = [], []
    for case, obs in zip(cases, res):
        exp = oracle_map(case)
        R.case(case_key(case), nontrivial=len(exp["pieces"]) > 1, sample=case if len(done_cases) == 0 else None)
        R.count("real:" + case["start"])
        R.count("real:out=" + case.get("out", "none") + ("+iter" if case.get("iter") else ""))
        R.count("real:delay=" + case["delay"])
        judge_map(R, case, obs, exp, case["start"])
        done_cases.append(case)
        done_obs.append(obs)
        R.traces += 1
    if len(res) < len(cases):
        # the wall-clock budget of this tier ended first (busy machine): the remaining cases are NOT judged (a hang of one
        # case is detected inside the runner by its own, much longer, per-case alarm and reported as status "timeout")
        R.count("real:not-run-within-budget", len(cases) - len(res))
    compare_map_model(R, done_cases, done_obs)
    R.extra["real_pool_runs_" + label] = len(res)




def main(R):
    torch.set_num_threads(1)
    rng = R.rng
    R.rule = ("(1) _split_tensordict exhaustively for n <= %d x chunksize in {None,0..n+2} x num_chunks in {None,1..n+2} x workers 1..4 x "
              "generator on/off on a recording stand-in (exact delegated arguments) and on real tensordicts of 4 batch layouts; shuffle mode; "
              "(2) map / map_iter on random batch shapes (rank 1..3, dims 1..7, any dim incl. negative), chunksize / num_chunks / default / "
              "chunksize 0, 1..4 workers, generator on/off, out= none/regular/shared/memmap, input regular/shared/memmap, functions returning "
              "tensordicts / None in place / mixed / chunk-dependent values, through an in-process pool and through real fork and spawn pools "
              "with per-chunk delays; (3) _multithread_apply_nest / _fast_apply(num_threads) over random nested trees (1..8 leaves) and the "
              "option lattice (inplace, out, filter_empty, named, nested_keys, others/default, call_on_nested, names, call_when_done, lazy stacks, "
              "checked in {True, False}, num_threads in {0 | 1, 2, 4}, a dtype-changing function, leaves in shared memory); compared are the returned "
              "tensordict AND the state left behind: identity classes (object / storage) of the leaves of self and out before vs after, the values "
              "seen through handles and a view taken before the call, dtype, shared-ness; "
              "memmap_/memmap/memmap_like/consolidate writers, each under every task permutation (apply: <= 5 tasks; writers: <= 4 tasks in quick, <= 5 in thorough) plus eager "
              "and random schedules; (4) map / map_iter END TO END against Model/C12_Map.v: batch rank 1..3, the mapped dim of size 0..7 at any position, "
              "dim positive / negative / out of range, chunksize (0 included) / num_chunks / both / default, 1..4 workers, generator, pbar (a stand-in tqdm "
              "records the total), out= none / regular / shared / memmap of the same or another length, functions returning the chunk, None, one row "
              "(another batch size along dim; broadcast by update_) or the chunk twice, map_iter with shuffle under a chosen completion order; "
              "(5) the METADATA of apply's result (batch size, names, device, lock of every nested tensordict) under batch_size= / device= / names= "
              "overrides (torch.Size / list, torch.device / str), out= with its own metadata (locked, another device / batch size, entries missing), "
              "inplace, checked on / off: single-threaded vs thread pool under 4 schedules, both against Model/C12_Meta.v; (6) writer tasks that FAIL "
              "(fault injection into _populate_memmap for one or two leaves): which failure surfaces, in both forms, against the model; "
              "distinct by full case; non-trivial = more than one chunk / leaf") % (16 if R.quick else 40)
    R.assumptions = ["multiprocessing.Pool.imap yields results in submission order (trusted; exercised for real with delays that invert completion order)",
                     "the mapped / applied functions are pure functions of their argument (plus in-place writes to their own chunk)",
                     "thread schedules are explored as (eager set, permutation of the pending tasks) run to completion in the harness thread: "
                     "real preemption inside a task is not explored",
                     "n = 0 (empty mapped dim), a dim out of range, both chunksize and num_chunks, out= of another length are compared with the model only "
                     "(theorems C12_map_full_empty_dim / _dim); the oracle speaks for n >= 1 and well-formed calls",
                     "apply metadata model: all nodes of a result have the same number of batch dims, dim names are all-or-nothing per node, fn never "
                     "returns None (which entries survive is Model/C12_Sched.v's business); leaf devices are not modelled"]
    R.trusted = ["multiprocessing.Pool.imap ordering; concurrent.futures semantics (a future's result is what its task returned)",
                 "torch.split / torch.chunk sizes on arange(n) as the referent for the documented partition (evaluated in this run)",
                 "slicing / cat / stack / unbind along a dim act on the list of that dim's slices as take / concat / identity (Model/C12_Map.v's view of "
                 "a tensordict along the mapped dim); tqdm yields the items of the iterable it wraps"]
    R.step_prove()
    if not R.step_driver():
        return
    n_fork, n_spawn = (40, 2) if R.quick else (800, 40)
    real_cases = gen_real_cases(rng, n_fork, n_spawn)
    spawn_runner = RealRunner([c for c in real_cases if c["start"] == "spawn"], budget=150 if R.quick else 900)
    fork_runner = RealRunner([c for c in real_cases if c["start"] == "fork"], budget=120 if R.quick else 900)
    tm = {}
    try:
        t = time.time()
        check_split(R)
        check_shuffle(R)
        tm["split_s"] = round(time.time() - t, 1)
        t = time.time()
        cases = [gen_map_case(rng) for _ in range(6000 if R.quick else 120000)]
        observations = run_inproc_maps(R, cases)
        compare_map_model(R, cases, observations)
        tm["inproc_maps_s"] = round(time.time() - t, 1)
        t = time.time()
        check_map_full(R)
        tm["map_full_s"] = round(time.time() - t, 1)
        t = time.time()
        check_apply(R)
        tm["apply_s"] = round(time.time() - t, 1)
        t = time.time()
        check_apply_meta(R)
        tm["apply_meta_s"] = round(time.time() - t, 1)
        t = time.time()
        check_writers(R)
        tm["writers_s"] = round(time.time() - t, 1)
    finally:
        t = time.time()
        judge_real(R, fork_runner, "fork")
        judge_real(R, spawn_runner, "spawn")
        tm["waiting_for_real_pools_s"] = round(time.time() - t, 1)
        R.extra["section_wall"] = tm
    R.exhaustive = False


def replay(body):
    """re-executes one recorded case against the implementation, the oracle and the extracted model"""
    from .core import build_driver, run_model
    torch.set_num_threads(1)
    if body.get("kind") == "no-failing-input-found":
        print(json.dumps(body["no_longer_checks"], indent=1, default=str)[:6000])
        print("(no concrete failing input was recorded: the entries above name the theorem / correspondence that no longer checks)")
        return 0
    build_driver(PID)
    case = body["case"]
    op = case.get("op", "map")
    print("case:", json.dumps(case))
    if op == "map":
        exp = oracle_map(case)
        if case.get("start") in ("fork", "spawn"):
            runner = RealRunner([case], budget=120)
            res, timed_out, rc, tail = runner.collect()
            obs = res[0] if res else {"status": "timeout"}
        else:
            obs = M.run_map_case(case)
        print("implementation:", json.dumps(obs, default=str)[:3000])
        print("sequential form: pieces", exp["pieces"], "result", None if exp["ret"] is None else exp["ret"]["y"].reshape(-1).tolist(),
              "out", exp["out"]["y"].reshape(-1).tolist() if "out" in exp else None)
        if not case.get("iter"):
            print("model:", run_model(PID, [model_map_line(case)]))
            if obs["status"] in ("ok", "raise"):
                print("implementation in the model's vocabulary:", impl_map_canon(case, obs))
    elif op == "mapfull":
        obs = run_full_case(case)
        exp = oracle_full(case)
        print("implementation:", json.dumps({k: v for k, v in obs.items() if k not in ("chunks",)}, default=str)[:3000])
        print("chunks handed to the function (positions along dim):", obs["chunks"])
        if exp is not None:
            print("sequential form: items", [None if r is None else r.reshape(-1).tolist() for r in exp["items"]],
                  "result", None if exp["ret"] is None else [list(exp["ret"].shape), exp["ret"].reshape(-1).tolist()],
                  "out", exp["out"] if isinstance(exp.get("out"), str) or exp.get("out") is None else exp["out"].reshape(-1).tolist())
        else:
            print("sequential form: outside the property's quantifier (invalid dim / arguments, empty dim, out= of another length)")
        print("model:", run_model(PID, [full_model_line(case, obs)]))
        print("implementation in the model's vocabulary:", full_impl_canon(case, obs))
    elif op == "split":
        n, cs, nc, nw, gen = case["n"], case["chunksize"], case["num_chunks"], case["workers"], case["gen"]
        print("implementation delegates to:", split_args_impl(n, cs, nc, nw, gen))
        if "bs" in case:
            x, w = M.make_leaves(case["bs"])
            td = M.td_from(x, w, case["bs"])
            d = case["dim"] % len(case["bs"])
            got = call(lambda: list(TU._split_tensordict(td, cs, nc, nw, d, use_generator=gen)))
            print("pieces on a real tensordict:", got[1] if got[0] == "raise" else [p["pos"] for p in pieces_of_real(td, d, got[1], cs == 0)])
        print("torch referent sizes:", spec_sizes(n, cs, nc, nw))
        print("model:", run_model(PID, [sx([Sym("split-call"), n, some(cs), some(nc), nw, gen, False]), sx([Sym("pieces"), n, some(cs), some(nc), nw, gen])]))
    elif op in ("td-split", "td-chunk"):
        print("model:", run_model(PID, [sx([Sym(op), case["n"], case["k"]])]))
    elif op == "shuffle":
        x, w = M.make_leaves([case["n"]])
        td = M.td_from(x, w, [case["n"]])
        got = call(lambda: [p["x"].reshape(-1).tolist() for p in TU._split_tensordict(td, case["chunksize"], case["num_chunks"], case["workers"], 0,
                                                                                      use_generator=True, shuffle=True)])
        print("pieces of a fresh shuffled run:", got[1], "; sizes wanted:", spec_sizes(case["n"], case["chunksize"], case["num_chunks"], case["workers"]))
        if got[0] == "ok":
            print("model on that permutation:", run_model(PID, [sx([Sym("shuffle"), [v for p in got[1] for v in p], some(case["chunksize"]), some(case["num_chunks"]), case["workers"]])]))
    elif op == "apply":
        sched = case.get("schedule") or {"order": [], "eager": []}
        st = run_apply(case, None)
        mt = run_apply(case, (sched["order"], sched["eager"]))
        print("single-threaded:", json.dumps(strip(st), default=str)[:2500])
        print("multithreaded under the schedule:", json.dumps(strip(mt), default=str)[:2500])
        for k in ("ids", "state_self", "state_out"):
            if st.get(k) != mt.get(k):
                print(f"{k} (identity classes / what handles taken before the call see): single-threaded", json.dumps(st.get(k), default=str)[:1500])
                print(f"{k}: multithreaded", json.dumps(mt.get(k), default=str)[:1500])
        if not case["lazy"] and not case["names"]:
            print("model:", run_model(PID, [apply_model_lines(case, None), apply_model_lines(case, mt.get("ran", []))]))
        print("signature:", apply_signature(case))
    elif op == "applymeta":
        sched = case.get("schedule") or {"order": [], "eager": []}
        st = run_meta(case, None)
        mt = run_meta(case, (sched["order"], sched["eager"]))
        print("operands' metadata [batch size, names, device, locked, nested]:", json.dumps(st["pre"]))
        print("single-threaded:", json.dumps({k: v for k, v in st.items() if k != "pre"}, default=str)[:2500])
        print("multithreaded under the schedule:", json.dumps({k: v for k, v in mt.items() if k != "pre"}, default=str)[:2500])
        print("model (single-threaded, multithreaded):", run_model(PID, [meta_model_line(case, "st", st["pre"]), meta_model_line(case, "mt", mt["pre"])]))
    elif op == "writer":
        sched = case.get("schedule") or {"order": [], "eager": []}
        st = run_writer(case, None)
        mt = run_writer(case, (sched["order"], sched["eager"]))
        print("single-threaded:", json.dumps(strip_w(st), default=str)[:2500])
        print("multithreaded under the schedule:", json.dumps(strip_w(mt), default=str)[:2500], "root keys", mt.get("root_keys"))
    print("recorded detail:", json.dumps(body.get("detail"), default=str)[:1500])
    return 0
