"""C04 — lazy stacks as subjects of the history generator, with the MODEL (coq/Model/C04_Lazy.v) speaking for them.

A subject is a LazyStackedTensorDict of n = 2 or 3 plain TensorDict members:
  * 'hom'   : the members have the same keys at every level (insertion order possibly different, leaf values different);
  * 'het'   : keys present in some members only (at the root and in nested nodes), occasionally a tensor / node clash.
Three parties again: the implementation, the ORACLE (the nested dict the stack denotes: keys = intersection of the
members' keys, value at a leaf = the list of the members' values; r_* functions of harness/c04.py replay the history
on it) and the extracted MODEL, compared field by field after every step.
"""
import copy
import json
import random
import sys

from . import c04
from .core import Sym, sx

BS = 2


# ------------------------------------------------------------------------------------------------- JSON shapes
def lift_val(j, n):
    """value of an operation: every leaf z becomes the list of the members' shares [z, z+1000, ...]"""
    if j[0] == "n":
        return ["n", [[k, lift_val(w, n)] for k, w in j[1]]]
    return [j[0], [j[1] + 1000 * i for i in range(n)]]


def lift_op(op, n):
    op = copy.deepcopy(op)
    if "val" in op:
        op["val"] = lift_val(op["val"], n)
    if "items" in op:
        op["items"] = [[k, lift_val(v, n)] for k, v in op["items"]]
    return op


def denote(ms):
    """the nested dict a stack of member snapshots denotes, root keys sorted (the order a lazy stack lists them);
    None where a common key holds a tensor in one member and a node in another"""
    out = []
    m0 = dict((k, v) for k, v in ms[0][1])
    others = [dict((k, v) for k, v in m[1]) for m in ms[1:]]
    for k in sorted(m0):
        if not all(k in o for o in others):
            continue
        vs = [m0[k]] + [o[k] for o in others]
        kinds = {v[0] for v in vs}
        if kinds == {"n"}:
            d = denote(vs)
            if d is None:
                return None
            out.append([k, d])
        elif "n" in kinds:
            return None
        else:
            out.append([k, ["t", [v[1] for v in vs]]])
    return ["n", out]


def homogeneous(ms):
    return all(c04.unordered(shape_of(m)) == c04.unordered(shape_of(ms[0])) for m in ms[1:])


def shape_of(j):
    if j[0] == "n":
        return ["n", [[k, shape_of(w)] for k, w in j[1]]]
    return ["t", 0]


def d401_condition(ms):
    """iterating keys(include_nested=True) reaches a key of the first member under which, scanning the members in
    order, a nested node is met before the (first) member that lacks the key"""
    alls = [dict((k, v) for k, v in m[1]) for m in ms]
    for k, _ in ms[0][1]:
        vs = [a.get(k) for a in alls]
        first = next((v for v in vs if v is None or v[0] == "n"), "leaves")
        if first == "leaves" or first is None:
            continue
        if any(v is None for v in vs):
            return True
        if all(v[0] == "n" for v in vs) and d401_condition(vs):
            return True
    return False


def leaf_paths(j, prefix=()):
    out = set()
    for k, v in j[1]:
        if v[0] == "n":
            out |= leaf_paths(v, prefix + (k,))
        else:
            out.add(prefix + (k,))
    return out


# ------------------------------------------------------------------------------------------------- implementation
def l_snap(ls):
    return [c04.snap(m) for m in ls.tensordicts]


def stacked_leaf(v):
    """a stacked tensor (n, BS): the list of the members' numbers"""
    T = c04._imports()
    if isinstance(v, T["torch"].Tensor) and v.ndim >= 1:
        rows = []
        for r in v:
            f = r.reshape(-1)
            if f.numel() == 0 or not bool((f == f[0]).all()):
                return ["t", "mixed"]
            rows.append(int(f[0]))
        return ["t", rows]
    return ["?", repr(type(v))]


def l_summ(v):
    if hasattr(v, "tensordicts"):
        return ["stack"] + l_snap(v)
    T = c04._imports()
    if isinstance(v, T["TensorDict"]):
        return ["td", c04.snap(v)]
    return stacked_leaf(v)


def l_observe(td, flags, probes):
    call, keyl = c04.call, c04.keyl
    obs = {"views": [], "probes": []}
    r_ = lambda r, f=lambda x: x: (f(r[1]) if r[0] == "ok" else ["raise", r[1]])  # noqa: E731
    for (inc, lo, so, lm) in flags:
        kw = c04.view_kwargs(inc, lo, so, lm)
        ks = call(lambda: [keyl(k) for k in td.keys(**kw)])
        it = call(lambda: [[keyl(k), l_summ(v)] for k, v in td.items(**kw)])
        vs = call(lambda: [l_summ(v) for v in td.values(**kw)])
        ln = call(lambda: len(td.keys(**kw)))
        obs["views"].append([r_(ks), r_(it), r_(vs), r_(ln)])
    for (kj, (inc, lo, so, lm)) in probes:
        k = c04.key_unjson(kj)
        kw = c04.view_kwargs(inc, lo, so, lm)
        c1 = call(lambda: k in td.keys(**kw))
        c2 = call(lambda: k in td)
        g1 = call(lambda: td.get(k))
        g2 = call(lambda: td.get(k, 77))
        gsum = lambda v: ["none"] if v is None else (["default"] if isinstance(v, int) and v == 77 else l_summ(v))  # noqa: E731
        obs["probes"].append([r_(c1, bool), r_(c2, bool), r_(g1, gsum), r_(g2, gsum)])
    obs["is_empty"] = r_(call(lambda: bool(td.is_empty())))
    obs["to_dict"] = r_(call(lambda: todict_json(td.to_dict())))
    return obs


def todict_json(d):
    out = []
    for k, v in d.items():
        out.append([k, todict_json(v) if isinstance(v, dict) else stacked_leaf(v)])
    return ["n", out]


# ------------------------------------------------------------------------------------------------- generators
def relabel(v, ctr):
    if isinstance(v, dict):
        return {k: relabel(w, ctr) for k, w in v.items()}
    ctr[0] += 1
    return ("t", ctr[0])


def shuffled(rng, v):
    if isinstance(v, dict):
        ks = list(v)
        rng.shuffle(ks)
        return {k: shuffled(rng, v[k]) for k in ks}
    return v


def mutate(rng, v, ctr, depth=0):
    """a member that differs from v in its key sets"""
    out = {}
    for k, w in v.items():
        r = rng.random()
        if r < 0.18:
            continue                                    # the key is missing here
        if r < 0.22 and depth < 2:
            out[k] = c04.gen_value(rng, ctr, depth + 1)  # anything (possibly of the other kind)
        elif isinstance(w, dict) and r < 0.7:
            out[k] = mutate(rng, w, ctr, depth + 1)
        else:
            out[k] = w
    for _ in range(rng.choice([0, 0, 1, 1, 2])):
        out[rng.choice(c04.STR_UNIVERSE[:9])] = c04.gen_value(rng, ctr, depth + 1)
    return out


def gen_members(rng, ctr, kind):
    n = rng.choice([2, 2, 2, 3])
    m0 = c04.gen_tree(rng, ctr)
    ms = [m0]
    for _ in range(n - 1):
        if kind == "hom":
            m = copy.deepcopy(m0)
            if rng.random() < 0.5:
                m = shuffled(rng, m)
        else:
            m = mutate(rng, m0, ctr)
            if rng.random() < 0.4:
                m = shuffled(rng, m)
        ms.append(relabel(m, ctr))
    if kind == "het" and rng.random() < 0.5:
        rng.shuffle(ms)
    return ms


LAZY_OPS_W = [("set", 22), ("setitem", 4), ("del", 9), ("delitem", 2), ("pop", 9), ("rename", 12), ("update", 9),
              ("setdefault", 6), ("select", 7), ("exclude", 7), ("flatten", 5), ("unflatten", 5), ("clear", 1),
              ("filter_empty", 3)]


def gen_lop(rng, ref, ctr, n):
    saved = c04.OPS_W[:]
    try:
        c04.OPS_W[:] = LAZY_OPS_W
        op = c04.gen_op1(rng, ref, ctr)
    finally:
        c04.OPS_W[:] = saved
    if "as_td" in op:
        op["as_td"] = False
    return lift_op(op, n)


# ------------------------------------------------------------------------------------------------- one history
def build(members_json, n):
    T = c04._imports()
    c04.SHAPE[0] = (n, BS)
    tds = [T["TensorDict"](c04.mk_val(c04.val_unjson(m), (BS,)), batch_size=[BS]) for m in members_json]
    return T["lazy_stack"](tds, 0)


def run_lazy_history(args):
    import signal

    def on_alarm(signum, frame):
        raise c04.HistoryTimeout("history exceeded its time budget")

    try:
        sys.setrecursionlimit(3000)
        signal.signal(signal.SIGVTALRM, on_alarm)
        signal.setitimer(signal.ITIMER_VIRTUAL, c04.HISTORY_BUDGET_S, 0.5)
        try:
            return run_lazy_history1(args)
        finally:
            signal.setitimer(signal.ITIMER_VIRTUAL, 0)
    except BaseException as e:  # noqa: BLE001
        hseed, nops, quick, subject, fixed = args
        case = {"subject": subject, "members": [], "ops": [], "hseed": hseed, "nops": nops, "regenerate": fixed is None}
        return {"case": case, "steps": [], "hist": {"harness-exception": 1},
                "fails": [("history-not-observable", case, {"exception": type(e).__name__, "text": str(e)[:300]},
                           {"call": "history", "pattern": "exception-escaped:" + type(e).__name__, "subject": "lazy"})]}


def run_lazy_history1(args):
    hseed, nops, quick, subject, fixed = args
    kind = "het" if subject.endswith("het") else "hom"
    rng = random.Random(hseed)
    ctr = [0]
    c04.TENSOR_ONLY[0] = True
    if fixed is None:
        members = [c04.val_json(m) for m in gen_members(rng, ctr, kind)]
    else:
        members = fixed["members"]
    n = len(members)
    td = build(members, n)
    case = {"subject": subject, "members": members, "ops": []}
    fails, nfail, steps, hist = [], {}, [], {}
    nsteps = nops if fixed is None else len(fixed["ops"])
    for i in range(nsteps + 1):
        cur = l_snap(td)
        den = denote(cur)
        hom = homogeneous(cur)
        if i == 0:
            op = None
        elif fixed is None:
            # keys are drawn against what the stack denotes or against one member (so that hidden keys are hit too)
            base = rng.choice([den] + cur) if den is not None else rng.choice(cur)
            ref_gen = strip(c04.val_unjson(base))
            op = gen_lop(rng, ref_gen, ctr, n)
        else:
            op = fixed["ops"][i - 1]["op"]
        st = {"op": op}

        def fail(label, tag, detail, sig, _i=i):
            sig = dict(sig, subject="lazy", members=kind)
            fk = (label, json.dumps(sig, sort_keys=True))
            nfail[fk] = nfail.get(fk, 0) + 1
            if nfail[fk] > 1:
                return
            c = copy.deepcopy(case)
            c["ops"] = c["ops"][:_i]
            for o in c["ops"]:
                o.setdefault("flags", [list(f) for f in c04.FLAGS])
                o.setdefault("probes", [])
            c["failing_step"] = _i
            c["observation"] = tag
            fails.append((label, c, detail, sig))

        if op is not None:
            hist["lz:" + op["op"]] = hist.get("lz:" + op["op"], 0) + 1
            hist["lz-before:" + ("hom" if hom else ("het" if den is not None else "kind-clash"))] = \
                hist.get("lz-before:" + ("hom" if hom else ("het" if den is not None else "kind-clash")), 0) + 1
            case["ops"].append({"op": op})
            if hom and den is not None:
                try:
                    exp = ("ok",) + c04.r_apply(c04.val_unjson(den), op)
                except c04.Unspec as e:
                    exp = ("unspec", str(e))
                except c04.ExpectRaise as e:
                    exp = ("raise", str(e))
            else:
                exp = ("unspec", "members with different keys: the replay on the denoted dict does not determine the members")
            hist["lz-expect:" + exp[0]] = hist.get("lz-expect:" + exp[0], 0) + 1
            r, ret, results = c04.run_op(td, op, rng)
            st["outcome"] = "ok" if r[0] == "ok" else r[1]
            st["exc"] = None if r[0] == "ok" else r[2]
            if op["op"] == "pop" and r[0] == "ok":
                ret = ["default", r[1]] if isinstance(r[1], int) else l_summ(r[1])
            elif op["op"] == "setdefault" and r[0] == "ok":
                ret = ["pynone"] if r[1] is None else l_summ(r[1])
            st["ret"] = ret
            st["results"] = [l_snap(x) if hasattr(x, "tensordicts") else ["?", repr(type(x))] for x in results] if results is not None else None
            new_td = td
            if r[0] == "ok" and results is not None and op.get("cont") and not op.get("inplace"):
                new_td = results[0]
            after = l_snap(td)
            st["state"] = after
            sig = c04.op_signature(op, c04.val_unjson(den) if den is not None else {})
            aden = denote(after)
            if exp[0] == "raise":
                if r[0] == "ok":
                    fail("expected-raise", {"op": op}, {"reference": exp[1], "implementation": "no exception"}, dict(sig, pattern2="no-raise"))
                elif op["op"] in c04.ATOMIC or not op.get("inplace", op["op"] in ("update",)):
                    if aden is None or not c04.cmp_unordered(aden, den):
                        fail("raise-changed-state", {"op": op}, {"before": den, "after": aden}, dict(sig, pattern2="raise-not-atomic"))
            elif exp[0] == "ok":
                _, new_ref, want_ret, want_results = exp
                if r[0] != "ok":
                    fail("unexpected-raise", {"op": op}, {"reference": "succeeds", "implementation": [r[1], r[2]]}, dict(sig, pattern2="raises"))
                else:
                    if aden is None or not c04.cmp_unordered(aden, c04.val_json(new_ref)):
                        fail("state-after-op", {"op": op}, {"got": aden, "want": c04.val_json(new_ref)}, dict(sig, pattern2="state"))
                    if want_ret is not c04.MISSING:
                        w = ["default", want_ret[1]] if (isinstance(want_ret, tuple) and want_ret[0] == "default") else c04.val_json(want_ret)
                        g = ret_as_denoted(ret)
                        if g is None or not (g == w if w[0] == "default" or g[0] == "default" else c04.cmp_unordered(g, w)):
                            fail("return-value", {"op": op}, {"got": ret, "want": w}, dict(sig, pattern2="return"))
                    if want_results is not None:
                        got = [denote(x) if isinstance(x, list) and x[:1] != ["?"] else None for x in st["results"]]
                        if len(got) != len(want_results) or not all(g is not None and c04.cmp_unordered(g, c04.val_json(w)) for g, w in zip(got, want_results)):
                            fail("result-of-op", {"op": op}, {"got": got, "want": [c04.val_json(w) for w in want_results]}, dict(sig, pattern2="result"))
            td = new_td
            if not hasattr(td, "tensordicts"):
                break
        else:
            st["state"] = cur
        st["cont_state"] = l_snap(td)
        den = denote(st["cont_state"])
        if fixed is None:
            flags, probes = c04.gen_probes(rng, strip(c04.val_unjson(rng.choice(([den] if den is not None else []) + st["cont_state"]))), quick)
        elif i == 0:
            flags, probes = fixed.get("flags0", [list(f) for f in c04.FLAGS]), fixed.get("probes0", [])
        else:
            flags, probes = fixed["ops"][i - 1]["flags"], fixed["ops"][i - 1]["probes"]
        st["flags"], st["probes"] = flags, probes
        if op is not None:
            case["ops"][-1]["flags"], case["ops"][-1]["probes"] = flags, probes
        else:
            case["flags0"], case["probes0"] = flags, probes
        obs = l_observe(td, [tuple(f) for f in flags], [(k, tuple(f)) for k, f in probes])
        st["obs"] = obs
        if den is not None:
            oracle_reads(den, st["cont_state"], obs, [tuple(f) for f in flags], [(k, tuple(f)) for k, f in probes], fail)
        else:
            hist["lz-state:kind-clash(no oracle)"] = hist.get("lz-state:kind-clash(no oracle)", 0) + 1
        steps.append(st)
    for (label, sigj), c in nfail.items():
        hist["oracle-failure:" + label] = hist.get("oracle-failure:" + label, 0) + c
    return {"case": case, "steps": steps, "fails": fails, "hist": hist}


def strip(v):
    """reference for the key generators: leaf payloads are irrelevant"""
    if isinstance(v, dict):
        return {k: strip(w) for k, w in v.items()}
    return ("t", 0)


def ret_as_denoted(ret):
    if ret is None:
        return None
    if ret[0] == "stack":
        return denote(ret[1:])
    return ret


def val_as_denoted(v):
    if isinstance(v, list) and v[:1] == ["stack"]:
        return denote(v[1:])
    return v


# ------------------------------------------------------------------------------------------------- oracle (reads)
def oracle_reads(den, members, obs, flags, probes, fail):
    """the read API of the stack against the nested dict it denotes (order-insensitive; sort=True must be sorted)"""
    ref = c04.val_unjson(den)
    d401 = d401_condition(members)
    excl = len({frozenset(leaf_paths(m)) for m in members}) > 1
    for (inc, lo, so, lm), (ks, it, vs, ln) in zip(flags, obs["views"]):
        want = c04.r_view(ref, inc, lo, lm)
        want_keys = sorted(list(p) for p, _ in want)
        tag = {"include_nested": inc, "leaves_only": lo, "sort": so, "is_leaf": lm}
        for what, got in (("keys", ks), ("items", it), ("values", vs), ("len", ln)):
            if isinstance(got, list) and got[:1] == ["raise"]:
                pat = "nested-node-in-a-member-before-one-lacking-the-key" if (what in ("keys", "len") and inc and d401 and got[1] == "KeyError") else "raises"
                fail("view-raises", dict(tag, view=what), {"raised": got}, {"call": "keys-iteration" if what in ("keys", "len") else what, "pattern": pat})
        if isinstance(ks, list) and ks[:1] != ["raise"]:
            if sorted(ks) != want_keys:
                fail("keys-view", tag, {"got": ks, "want": want_keys}, {"call": "keys", "pattern": "key-set"})
            if so and [".".join(k) for k in ks] != sorted(".".join(k) for k in ks):
                fail("keys-view-sort", tag, {"got": ks}, {"call": "keys", "pattern": "not-sorted"})
        if isinstance(it, list) and it[:1] != ["raise"]:
            g = sorted([k, json.dumps(c04.unordered_key(val_as_denoted(v)) if val_as_denoted(v) is not None else None, sort_keys=True)] for k, v in it)
            w = sorted([list(p), json.dumps(c04.unordered_key(c04.val_json(v)), sort_keys=True)] for p, v in want)
            if g != w:
                fail("items-view", tag, {"got": it, "want": [[list(p), c04.val_json(v)] for p, v in want]}, {"call": "items", "pattern": "pairs"})
            if so and [".".join(k) for k, _ in it] != sorted(".".join(k) for k, _ in it):
                fail("items-view-sort", tag, {"got": it}, {"call": "items", "pattern": "not-sorted"})
        if isinstance(vs, list) and vs[:1] != ["raise"]:
            g = sorted(json.dumps(c04.unordered_key(val_as_denoted(v)) if val_as_denoted(v) is not None else None, sort_keys=True) for v in vs)
            w = sorted(json.dumps(c04.unordered_key(c04.val_json(v)), sort_keys=True) for _, v in want)
            if g != w:
                fail("values-view", tag, {"got": vs, "want": [c04.val_json(v) for _, v in want]}, {"call": "values", "pattern": "multiset"})
        if isinstance(ln, int) and ln != len(want):
            fail("len-view", tag, {"got": ln, "want": len(want)}, {"call": "len(keys)", "pattern": "count"})
    for (kj, (inc, lo, so, lm)), (c1, c2, g1, g2) in zip(probes, obs["probes"]):
        p = c04.strings_of(c04.key_unjson(kj))
        if p is None:
            continue
        tag = {"key": kj, "include_nested": inc, "leaves_only": lo, "is_leaf": lm}
        try:
            v = c04.r_get(ref, p)
        except c04.Unspec:
            continue
        if any(c04.through_leaf(c04.val_unjson(m), p) for m in members):
            continue   # a path through a tensor of some member (possibly under a key of that member only): outside
        listed = tuple(p) in {q for q, _ in c04.r_view(ref, inc, lo, lm)}
        if len(p) > 1 and not inc:
            pass
        elif isinstance(c1, bool):
            if c1 != listed:
                fail("contains-view", tag, {"in": c1, "listed_by_iteration": listed},
                     {"call": "keys.__contains__", "site": "_LazyStackedTensorDictKeysView.__contains__",
                      "pattern": "member-not-listed" if c1 else "listed-not-member", "leaves_only": lo, "nested_key": len(p) > 1})
        else:
            fail("contains-view", tag, {"raised": c1}, {"call": "keys.__contains__", "pattern": "raises"})
        if isinstance(c2, bool):
            if c2 != (v is not c04.MISSING):
                fail("contains-td", tag, {"in": c2, "present": v is not c04.MISSING}, {"call": "__contains__", "pattern": "presence"})
        else:
            fail("contains-td", tag, {"raised": c2}, {"call": "__contains__", "pattern": "raises"})
        for what, g, dflt in (("get", g1, ["none"]), ("get-default", g2, ["default"])):
            want = dflt if v is c04.MISSING else c04.val_json(v)
            if isinstance(g, list) and g[:1] == ["raise"]:
                fail(what, tag, {"raised": g, "want": want}, {"call": "get", "pattern": "raises"})
            else:
                gd = val_as_denoted(g)
                if gd is None or not (gd == want if want in (["none"], ["default"]) or gd in (["none"], ["default"]) else c04.cmp_unordered(gd, want)):
                    fail(what, tag, {"got": g, "want": want}, {"call": "get", "pattern": "value"})
    want_empty = not c04.r_has_leaf(ref)
    e = obs["is_empty"]
    if isinstance(e, list):
        pat = "nested-node-in-a-member-before-one-lacking-the-key" if (d401 and e[1] == "KeyError") else "raises"
        fail("is_empty", {}, {"raised": e}, {"call": "keys-iteration", "pattern": pat, "via": "is_empty"})
    elif e != want_empty:
        fail("is_empty", {}, {"got": e, "want": want_empty}, {"call": "is_empty", "pattern": "value"})
    t = obs["to_dict"]
    if t[:1] == ["raise"]:
        if not excl:   # documented: to_dict refuses stacks whose members have different leaf keys
            fail("to_dict", {}, {"raised": t}, {"call": "to_dict", "pattern": "raises"})
    elif not c04.cmp_unordered(t, den):
        fail("to_dict", {}, {"got": t, "want": den}, {"call": "to_dict", "pattern": "value"})


# ------------------------------------------------------------------------------------------------- model protocol
def lhistory_line(case):
    steps = []
    for s in [{"op": None, "flags": case.get("flags0"), "probes": case.get("probes0")}] + case["ops"]:
        steps.append([c04.op_sx(s["op"]) if s["op"] is not None else [Sym("nop")],
                      [c04.flags_sx(f) for f in s["flags"]],
                      [[c04.key_sx(c04.key_unjson(k)), c04.flags_sx(f)] for k, f in s["probes"]]])
    return sx([Sym("lhist"), [c04.ents_sx(m) for m in case["members"]], steps])


def m_ents(j):
    return c04.j2m(j)[1:]


def m_lval(v):
    if v[0] == "stack":
        return ["stack"] + [m_ents(m) for m in v[1:]]
    if v[0] == "t":
        return ["t", v[1]]
    return v


def impl_lstep_as_model(st):
    enc = lambda x: ["raise", "key" if x[1] == "KeyError" else "other"]  # noqa: E731
    israise = lambda x: isinstance(x, list) and x[:1] == ["raise"]  # noqa: E731
    out = []
    if st["op"] is None:
        out += ["ok", "none", "none"]
    else:
        out.append("ok" if st["outcome"] == "ok" else ["raise", "key" if st["outcome"] == "KeyError" else "other"])
        r = st["ret"]
        out.append("none" if r is None else ["some", (r if r[0] in ("default", "pynone") else m_lval(r))])
        out.append("none" if st["results"] is None else ["some", [[m_ents(m) for m in x] for x in st["results"]]])
    out.append([m_ents(m) for m in st["state"]])
    out.append([m_ents(m) for m in st.get("cont_state", st["state"])])
    views = []
    for (ks, it, vs, ln) in st["obs"]["views"]:
        views.append([enc(ks) if israise(ks) else ks,
                      enc(it) if israise(it) else [[k, m_lval(v)] for k, v in it],
                      enc(vs) if israise(vs) else [m_lval(v) for v in vs],
                      enc(ln) if israise(ln) else ln])
    out.append(views)
    probes = []
    for (c1, c2, g1, g2) in st["obs"]["probes"]:
        bb = lambda x: ("t" if x else "f") if isinstance(x, bool) else enc(x)  # noqa: E731
        gg = lambda x: enc(x) if israise(x) else (x if x in (["none"], ["default"]) else ["val", m_lval(x)])  # noqa: E731
        probes.append([bb(c1), bb(c2), gg(g1), gg(g2)])
    out.append(probes)
    e = st["obs"]["is_empty"]
    out.append(("t" if e else "f") if isinstance(e, bool) else enc(e))
    return out


LFIELDS = ["outcome", "return", "results", "state", "continued-state", "views", "probes", "is_empty"]


def has_unmodelled(ms):
    return "unmodelled" in json.dumps(ms)


def replay_lazy(body):
    from .core import run_model as _run_model, load_findings
    case = body["case"]
    if case.get("regenerate"):
        res = run_lazy_history((case["hseed"], case["nops"], body.get("tier", "quick") == "quick", case["subject"], None))
    else:
        fixed = {"members": case["members"], "ops": case["ops"], "flags0": case.get("flags0", [list(f) for f in c04.FLAGS]),
                 "probes0": case.get("probes0", [])}
        res = run_lazy_history((0, 0, True, case["subject"], fixed))
    print("implementation, step by step (members of the stack):")
    for st in res["steps"]:
        print("  op:", json.dumps(st["op"]), "->", st.get("outcome"), st.get("exc"), " members:", json.dumps(st["state"]))
    known = [f for f in load_findings() if f.get("property") == "C04" and f.get("kind") == "known"]
    print("oracle failures on replay:")
    for (label, c, detail, sig) in res["fails"]:
        hit = next((f["id"] for f in known if f.get("signature") and all(sig.get(k) == v for k, v in f["signature"].items())), None)
        print(f"   step {c.get('failing_step')}: {label} {'[known ' + hit + ']' if hit else '[NEW]'} "
              f"{json.dumps(c.get('observation'))} {json.dumps(detail, default=str)[:600]} {json.dumps(sig)}")
    try:
        m = _run_model("C04", [lhistory_line(res["case"])])[0]
        for st, ms in zip(res["steps"], m):
            im = impl_lstep_as_model(st)
            print("  model agrees" if im == ms else f"  model differs: impl {im!r:.500} model {ms!r:.500}")
    except Exception as e:  # noqa: BLE001
        print("model not available:", e)
    return 0
