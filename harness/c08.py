"""C08 — a lazy stack equals the dense stack and is a write-through view of its members (DESIGN.md §4 C08).

Three things happen for every generated case (a tree of members + one operation):
  * ORACLE (independent of the model): the operation is run on the LazyStackedTensorDict and on a dense TensorDict that
    holds torch.stack of the same leaves (built here with torch only).  `lazy.op(args)` materialised must equal
    `dense.op(args)` (batch size, key set, values) or raise; after a write the members I hold references to must hold
    exactly the slices of the dense twin after the same write, and must be the same objects.
  * MODEL: the extracted Gallina model (coq/Model/C08_*.v) predicts, for the operations it covers, the result layout
    (class, stack dim, batch size) and the element map (which element of which member sits at each result position;
    for writes: which value element lands at each member position).  Leaves hold integers that encode
    (member, position), so the implementation's answer is decoded and compared exactly.
  * SPEC validation: Spec (C08_TorchIdx) is compared with real torch indexing on an arange tensor (SPEC-MISMATCH = bug
    of the machinery, never a VIOLATION).
"""
import json
import math
import os
import sys
import time

from .core import Sym, some, sx, run_model as _run_model

P = 128          # positions per member are < P ; member j leaf "a" holds ((j*P + pos)*2 + col)
BOFF = 100000    # nested leaf ("n","b") holds BOFF + j*P + pos
VOFF = 1000000   # written values are  -(VOFF + k*2 + col)  /  -(VOFF + BOFF + k)   (k = flat position in the value)


def _imports():
    from . import cext
    cext.install()
    import torch
    import tensordict
    return torch, tensordict


# ---------------------------------------------------------------------------------------------------------------
# trees:  ["td", j, bs]  |  ["lazy", sd, [children]]      (sd already normalised, >= 0; the raw sd is in the case)
# ---------------------------------------------------------------------------------------------------------------
def tree_shape(t):
    if t[0] == "td":
        return list(t[2])
    sh = tree_shape(t[2][0])
    return sh[:t[1]] + [len(t[2])] + sh[t[1]:]


def tree_leaves(t):
    if t[0] == "td":
        return [t]
    out = []
    for c in t[2]:
        out.extend(tree_leaves(c))
    return out


def prod(l):
    r = 1
    for x in l:
        r *= x
    return r


class World:
    """the lazy object, its members (my own references), and the dense twin"""

    def __init__(self, torch, tensordict, tree, raw_sd=None, extra_key=False, names=False):
        self.torch, self.tensordict = torch, tensordict
        self.tree = tree
        self.leaf_objs = {}
        self.raw_sd = raw_sd
        self.extra_key = extra_key
        self.lazy = self._build_lazy(tree, top=True)
        self.dense = self._build_dense()

    def leaf_tensors(self, j, bs):
        torch = self.torch
        pos = torch.arange(prod(bs), dtype=torch.int64).reshape(bs)
        a = ((j * P + pos).unsqueeze(-1) * 2 + torch.arange(2, dtype=torch.int64))
        b = BOFF + j * P + pos
        return a, b

    def _build_lazy(self, t, top=False):
        TD = self.tensordict.TensorDict
        if t[0] == "td":
            a, b = self.leaf_tensors(t[1], t[2])
            src = {"a": a.clone(), "n": {"b": b.clone()}}
            td = TD(src, batch_size=list(t[2]))
            self.leaf_objs[t[1]] = td
            return td
        kids = [self._build_lazy(c) for c in t[2]]
        sd = t[1]
        if top and self.raw_sd is not None:
            sd = self.raw_sd
        return self.tensordict.LazyStackedTensorDict(*kids, stack_dim=sd)

    def _dense_tensors(self, t):
        torch = self.torch
        if t[0] == "td":
            return self.leaf_tensors(t[1], t[2])
        parts = [self._dense_tensors(c) for c in t[2]]
        return torch.stack([p[0] for p in parts], t[1]), torch.stack([p[1] for p in parts], t[1])

    def _build_dense(self):
        a, b = self._dense_tensors(self.tree)
        return self.tensordict.TensorDict({"a": a.clone(), "n": {"b": b.clone()}}, batch_size=tree_shape(self.tree))

    # expected content of every leaf member, read from the dense twin with torch only
    def dense_slices(self, dense):
        out = {}

        def rec(t, tensors):
            if t[0] == "td":
                out[t[1]] = tensors
                return
            ub = {k: v.unbind(t[1]) for k, v in tensors.items()}
            for i, c in enumerate(t[2]):
                rec(c, {k: ub[k][i] for k in tensors})
        keys = sorted(dense.keys(True, True), key=str)
        rec(self.tree, {k: dense.get(k) for k in keys})
        return out


# ---------------------------------------------------------------------------------------------------------------
# canonical observation of a result
# ---------------------------------------------------------------------------------------------------------------
def kstr(k):
    return k if isinstance(k, str) else ".".join(k)


def canon(torch, x, depth=0):
    """batch size, sorted leaf keys, shapes and integer values; tuples/lists element-wise"""
    from tensordict.base import TensorDictBase
    if isinstance(x, TensorDictBase) or hasattr(x, "batch_size") and hasattr(x, "keys"):
        keys = sorted(x.keys(True, True), key=kstr)
        leaves = []
        for k in keys:
            v = x.get(k)
            if isinstance(v, torch.Tensor):
                leaves.append([kstr(k), list(v.shape), v.reshape(-1).to(torch.int64).tolist() if v.dtype != torch.bool
                               else [int(b) for b in v.reshape(-1).tolist()]])
            else:
                leaves.append([kstr(k), "nontensor", repr(type(v).__name__)])
        return ["td", list(x.batch_size), leaves]
    if isinstance(x, torch.Tensor):
        return ["tensor", list(x.shape), [int(v) for v in x.reshape(-1).tolist()]]
    if isinstance(x, (tuple, list)):
        return ["seq"] + [canon(torch, y, depth + 1) for y in x]
    if isinstance(x, (bool, int)):
        return ["scalar", int(x)]
    if x is None:
        return ["none"]
    return ["other", type(x).__name__]


def guarded(f):
    try:
        return ("ok", f())
    except Exception as e:  # noqa: BLE001 -- any exception is an observation
        return ("raise", type(e).__name__)


# ---------------------------------------------------------------------------------------------------------------
# indices (JSON form <-> python objects)
# ---------------------------------------------------------------------------------------------------------------
def idx_obj(torch, it):
    k = it[0]
    if k == "int":
        return it[1]
    if k == "sl":
        return slice(it[1], it[2], it[3])
    if k == "none":
        return None
    if k == "ell":
        return Ellipsis
    if k == "list":
        return list(it[1])
    if k == "range":
        return range(it[1], it[2], it[3])
    if k == "ten":
        return torch.tensor(it[2], dtype=torch.int64).reshape(it[1])
    if k == "mask":
        return torch.tensor(it[2], dtype=torch.bool).reshape(it[1])
    raise ValueError(k)


def index_obj(torch, index):
    items = [idx_obj(torch, it) for it in index["items"]]
    if index["tuple"]:
        return tuple(items)
    return items[0]


ADV = ("list", "range", "ten", "mask")


def gen_slice(rng, s):
    r = rng.random()
    if r < 0.3:
        return ["sl", None, None, None]
    vals = [None] + list(range(-s - 1, s + 2))
    a, b = rng.choice(vals), rng.choice(vals)
    c = rng.choice([None, None, 1, 1, 2, 3, -1, -2]) if rng.random() < 0.6 else None
    return ["sl", a, b, c]


def gen_adv(rng, shape, d, allow2d=True):
    """one advanced index starting at dim d of [shape]; returns (item, number of dims consumed)"""
    s = shape[d]
    kind = rng.choice(["list", "range", "ten1", "ten2", "mask1", "mask2", "ten1", "mask1"])
    if s == 0 and kind in ("list", "range", "ten1", "ten2"):
        kind = "mask1"
    if kind == "list":
        n = rng.randrange(1, 4)
        return ["list", [rng.randrange(-s, s) for _ in range(n)]], 1
    if kind == "range":
        a = rng.randrange(0, s)
        b = rng.randrange(a + 1, s + 1)     # never empty: torch.as_tensor(range(0)) is a FLOAT tensor, not an index
        return ["range", a, b, rng.choice([1, 1, 2])], 1
    if kind == "ten1":
        n = rng.randrange(0 if rng.random() < 0.1 else 1, 4)
        return ["ten", [n], [rng.randrange(-s, s) for _ in range(n)]], 1
    if kind == "ten2":
        sh = [rng.randrange(1, 3), rng.randrange(1, 3)]
        return ["ten", sh, [rng.randrange(-s, s) for _ in range(prod(sh))]], 1
    if kind == "mask2" and allow2d and d + 1 < len(shape):
        sh = [shape[d], shape[d + 1]]
        return ["mask", sh, [rng.random() < 0.6 for _ in range(prod(sh))]], 2
    return ["mask", [s], [rng.random() < 0.6 for _ in range(s)]], 1


def gen_index(rng, shape, sd, adv_mode=None, wild=True):
    """an index of the property's grammar for a tensordict of batch [shape] whose stack dim is sd.
    adv_mode: None (no advanced index) | 'before' | 'on' | 'after' | 'any' """
    R = len(shape)
    r = rng.random()
    if R == 0:
        choices = [{"tuple": True, "items": []}, {"tuple": False, "items": [["ell"]]}, {"tuple": False, "items": [["none"]]},
                   {"tuple": True, "items": [["none"], ["ell"]]}]
        return rng.choice(choices)
    ndims = rng.randrange(0, R + 1) if rng.random() < 0.5 else R
    adv_at = None
    if adv_mode is not None:
        cands = list(range(R))
        if adv_mode == "before":
            cands = [d for d in cands if d < sd]
        elif adv_mode == "on":
            cands = [sd]
        elif adv_mode == "after":
            cands = [d for d in cands if d > sd]
        if cands:
            adv_at = rng.choice(cands)
            ndims = max(ndims, adv_at + 1)
    items = []
    d = 0
    while d < ndims:
        s = shape[d]
        if adv_at is not None and d == adv_at:
            it, used = gen_adv(rng, shape, d)
            if d + used > R:
                it, used = gen_adv(rng, shape, d, allow2d=False)
            items.append(it)
            d += used
            continue
        q = rng.random()
        if q < 0.4 and s > 0:
            if wild and rng.random() < 0.04:
                items.append(["int", rng.choice([s, -s - 1, s + 1])])
            else:
                items.append(["int", rng.randrange(-s, s)])
        else:
            items.append(gen_slice(rng, s))
        d += 1
    # Nones
    for _ in range(rng.choice([0, 0, 0, 1, 1, 2])):
        items.insert(rng.randrange(0, len(items) + 1), ["none"])
    # Ellipsis in place of a run of full slices, or at the end / start
    q = rng.random()
    if q < 0.25:
        # replace a maximal run of full slices by an Ellipsis (only if the index is complete)
        full = [i for i, it in enumerate(items) if it == ["sl", None, None, None]]
        if full and ndims == R:
            i = rng.choice(full)
            j = i
            while j + 1 < len(items) and items[j + 1] == ["sl", None, None, None]:
                j += 1
            items[i:j + 1] = [["ell"]]
    elif q < 0.35 and ndims < R:
        items.append(["ell"])
    elif q < 0.40 and ndims < R and not any(it[0] in ADV for it in items):
        # leading Ellipsis: the given items address the LAST dims -- regenerate them for those dims
        tail = []
        for s in shape[R - ndims:]:
            tail.append(["int", rng.randrange(-s, s)] if (s > 0 and rng.random() < 0.4) else gen_slice(rng, s))
        items = [["ell"]] + tail
    if len(items) == 1 and rng.random() < 0.5:
        return {"tuple": False, "items": items}
    return {"tuple": True, "items": items}


def dedupe_adv(index, shape):
    """make the integer advanced index of a write duplicate-free (modulo the dim size)"""
    items = index["items"]
    used = sum((len(it[1]) if it[0] == "mask" else 1) for it in items if it[0] not in ("none", "ell"))
    d = 0
    out = []
    for it in items:
        if it[0] == "ell":
            d += max(0, len(shape) - used)
            out.append(it)
            continue
        if it[0] == "none":
            out.append(it)
            continue
        if it[0] in ("list", "ten") and d < len(shape) and shape[d] > 0:
            s = shape[d]
            vals = it[1] if it[0] == "list" else it[2]
            seen, new = set(), []
            for v in vals:
                if v % s not in seen:
                    seen.add(v % s)
                    new.append(v)
            if it[0] == "list":
                it = ["list", new]
            elif len(new) != len(vals):
                it = ["ten", [len(new)], new] if len(it[1]) == 1 else ["ten", [len(new), 1], new]
        out.append(it)
        d += len(it[1]) if it[0] == "mask" else 1
    return {"tuple": index["tuple"], "items": out}


def expand_ellipsis_json(index, rank):
    items = index["items"]
    if not any(it[0] == "ell" for it in items):
        return index
    used = sum((len(it[1]) if it[0] == "mask" else 1) for it in items if it[0] not in ("none", "ell"))
    out = []
    for it in items:
        if it[0] == "ell":
            out.extend([["sl", None, None, None]] * max(0, rank - used))
        else:
            out.append(it)
    return {"tuple": True, "items": out}


# ---------------------------------------------------------------------------------------------------------------
# tree generator
# ---------------------------------------------------------------------------------------------------------------
def gen_tree(rng, quick=True, force_rank=None, max_n=4):
    mode = rng.random()
    rank = force_rank if force_rank is not None else rng.choice([0, 1, 1, 2, 2, 2])
    dims = [rng.choice([1, 2, 2, 3, 3]) for _ in range(rank)]
    n = rng.randrange(1, max_n + 1)
    sd = rng.randrange(0, rank + 1)
    raw_sd = sd - (rank + 1) if rng.random() < 0.25 else sd
    if mode < 0.18 and rank <= 1:
        # stack of stacks
        n2 = rng.randrange(1, 4)
        isd = rng.randrange(0, rank + 1)
        j = 0
        kids = []
        for _ in range(n):
            sub = []
            for _ in range(n2):
                sub.append(["td", j, dims])
                j += 1
            kids.append(["lazy", isd, sub])
        osd = rng.randrange(0, rank + 2)
        raw = osd - (rank + 2) if rng.random() < 0.25 else osd
        return ["lazy", osd, kids], raw
    return ["lazy", sd, [["td", j, dims] for j in range(n)]], raw_sd


# ---------------------------------------------------------------------------------------------------------------
# operations
# ---------------------------------------------------------------------------------------------------------------
def value_td(torch, tensordict, bs, kind="td"):
    k = torch.arange(prod(bs), dtype=torch.int64).reshape(bs)
    a = -(VOFF + k.unsqueeze(-1) * 2 + torch.arange(2, dtype=torch.int64))
    b = -(VOFF + BOFF + k)
    return tensordict.TensorDict({"a": a, "n": {"b": b}}, batch_size=list(bs))


def neg_dim(rng, d, rank):
    return d - rank if rng.random() < 0.3 else d


def gen_op(rng, W_shape, sd, tree):
    """returns an op as a JSON list"""
    R = len(W_shape)
    kinds = ["getitem"] * 30 + ["setitem"] * 18 + ["set_at_", "update_at_"] * 3 + ["setkey"] * 3 + ["member_write"] * 3 + \
        ["transpose"] * 5 + ["permute"] * 4 + ["squeeze", "unsqueeze", "unbind", "split", "chunk"] * 3 + \
        ["repeat", "repeat_interleave", "view", "flatten", "unflatten", "expand"] * 2 + \
        ["reduce"] * 4 + ["compare"] * 3 + ["update"] * 4 + ["update_"] * 3 + ["insert"] * 4 + ["cat"] * 5 + ["stack"] * 4 + \
        ["materialise"] * 3 + ["arith"] * 2
    k = rng.choice(kinds)
    adv = rng.choice([None, None, "before", "on", "on", "after", "any"])
    if k in ("getitem", "setitem", "set_at_", "update_at_"):
        idx = gen_index(rng, W_shape, sd, adv)
        if k != "getitem":
            idx = dedupe_adv(idx, W_shape)     # duplicate positions make torch's own write order-dependent
        if k == "setitem":
            return [k, idx, rng.choice(["td", "td", "td", "td", "scalar", "expand", "lazy"])]
        if k in ("set_at_", "update_at_"):
            # the dense twin applies the index to every LEAF (rank = batch rank + feature dims): an Ellipsis would mean
            # something else there, which is the dense class's own business (C03), not the lazy stack's
            idx = expand_ellipsis_json(idx, len(W_shape))
        return [k, idx]
    if k == "setkey":
        return [k, rng.choice(["new", "existing", "set_", "nested_new", "nested_existing", "setitem_key"])]
    if k == "member_write":
        leaves = tree_leaves(tree)
        return [k, rng.choice(leaves)[1], rng.choice(["inplace", "rebind", "newkey"])]
    if k == "transpose":
        if R == 0:
            return ["materialise", "contiguous"]
        return [k, neg_dim(rng, rng.randrange(R), R), neg_dim(rng, rng.randrange(R), R)]
    if k == "permute":
        p = list(range(R))
        rng.shuffle(p)
        return [k, [neg_dim(rng, d, R) for d in p]]
    if k == "squeeze":
        return [k, None if (R == 0 or rng.random() < 0.3) else neg_dim(rng, rng.randrange(R), R)]
    if k == "unsqueeze":
        d = rng.randrange(R + 1)
        return [k, d - (R + 1) if rng.random() < 0.3 else d]
    if k == "unbind":
        if R == 0:
            return ["materialise", "contiguous"]
        return [k, neg_dim(rng, rng.randrange(R), R)]
    if k in ("split", "chunk"):
        if R == 0:
            return ["materialise", "contiguous"]
        d = rng.randrange(R)
        s = W_shape[d]
        if k == "chunk":
            return [k, rng.randrange(1, 4), neg_dim(rng, d, R)]
        if rng.random() < 0.5 and s > 0:
            # a list of sizes summing to s
            sizes, rem = [], s
            while rem > 0:
                x = rng.randrange(1, rem + 1)
                sizes.append(x)
                rem -= x
            if rng.random() < 0.15:
                sizes.insert(rng.randrange(len(sizes) + 1), 0)
            return [k, sizes, neg_dim(rng, d, R)]
        return [k, rng.randrange(1, 4), neg_dim(rng, d, R)]
    if k == "repeat":
        return [k, [rng.choice([1, 1, 2, 3]) for _ in range(R)]]
    if k == "repeat_interleave":
        if R == 0:
            return [k, 2, None]
        return [k, rng.randrange(1, 4), rng.choice([None, neg_dim(rng, rng.randrange(R), R), rng.randrange(R)])]
    if k == "view":
        # flatten / unflatten style targets, sometimes an arbitrary factorisation
        n = prod(W_shape)
        q = rng.random()
        if q < 0.4 and R >= 2:
            i = rng.randrange(R - 1)
            j = rng.randrange(i + 1, R)
            tgt = W_shape[:i] + [prod(W_shape[i:j + 1])] + W_shape[j + 1:]
        elif q < 0.6:
            tgt = [-1]
        elif q < 0.8 and R >= 1:
            d = rng.randrange(R)
            s = W_shape[d]
            f = [x for x in (1, 2, 3) if s % x == 0]
            x = rng.choice(f)
            tgt = W_shape[:d] + [x, s // x] + W_shape[d + 1:]
        else:
            tgt = list(W_shape)
            rng.shuffle(tgt)
        return [k, tgt, rng.choice(["view", "reshape"])]
    if k == "flatten":
        if R == 0:
            return [k, 0, -1]
        i = rng.randrange(R)
        j = rng.randrange(i, R)
        return [k, neg_dim(rng, i, R), neg_dim(rng, j, R)]
    if k == "unflatten":
        if R == 0:
            return ["materialise", "contiguous"]
        d = rng.randrange(R)
        s = W_shape[d]
        x = rng.choice([x for x in (1, 2, 3) if s % x == 0])
        return [k, neg_dim(rng, d, R), [x, s // x]]
    if k == "expand":
        pre = [rng.choice([1, 2]) for _ in range(rng.choice([0, 1, 1, 2]))]
        return [k, pre + [(-1 if rng.random() < 0.2 else s) if s != 1 else rng.choice([1, 2, 3]) for s in W_shape]]
    if k == "reduce":
        name = rng.choice(["sum", "sum", "amax", "amin", "all", "any", "prodsign", "min", "max"])
        if R == 0 or rng.random() < 0.25:
            return [k, name, None, False]
        return [k, name, neg_dim(rng, rng.randrange(R), R), rng.random() < 0.3]
    if k == "compare":
        return [k, rng.choice(["eq", "ne", "gt", "le", "ge", "lt"]), rng.choice(["dense", "lazy", "number", "lazy_other_sd"])]
    if k == "arith":
        return [k, rng.choice(["add1", "mul2", "neg", "add_dense", "sub_lazy"])]
    if k in ("update", "update_"):
        return [k, rng.choice(["dense", "dense", "lazy_same", "lazy_same", "lazy_other_sd", "dict", "lazy_more", "lazy_fewer"])]
    if k == "insert":
        n = W_shape[sd]
        return [k, rng.choice(["append", "insert"]), rng.randrange(-n - 1, n + 2), rng.choice(["ok", "ok", "ok", "badshape"])]
    if k == "cat":
        if R == 0:
            return ["materialise", "contiguous"]
        nops = rng.choice([1, 2, 2, 3, 3, 4])
        d = rng.randrange(R)
        return [k, neg_dim(rng, d, R), [rng.randrange(0 if (d == sd and rng.random() < 0.1) else 1, 4) for _ in range(nops)],
                rng.choice(["none", "none", "lazy", "lazy", "lazy_other_sd", "dense"])]
    if k == "stack":
        nops = rng.choice([1, 2, 2, 3])
        d = rng.randrange(R + 1)
        return [k, d - (R + 1) if rng.random() < 0.3 else d, nops, rng.choice(["none", "none", "lazy", "lazy_other_sd", "dense"])]
    if k == "materialise":
        return [k, rng.choice(["contiguous", "densify", "to_tensordict", "clone", "get_a", "get_nb", "keys", "copy"])]
    raise ValueError(k)


def with_size(shape, d, s):
    sh = list(shape)
    sh[d] = s
    return sh


def resize_tree(t, d, s, cnt):
    """same nesting as [t], fresh member ids (cnt is a 1-element list), and size s at dense dim d (d None: plain copy)"""
    if t[0] == "td":
        j = cnt[0]
        cnt[0] += 1
        bs = list(t[2])
        if d is not None:
            bs[d] = s
        return ["td", j, bs]
    sd = t[1]
    if d is not None and d == sd:
        return ["lazy", sd, [resize_tree(t[2][0], None, s, cnt) for _ in range(s)]]
    dd = None if d is None else (d if d < sd else d - 1)
    return ["lazy", sd, [resize_tree(c, dd, s, cnt) for c in t[2]]]


def restack_tree(shape, new_sd, cnt):
    """a one-level lazy tree with dense shape [shape] stacked along new_sd; fresh ids"""
    n = shape[new_sd]
    bs = shape[:new_sd] + shape[new_sd + 1:]
    kids = []
    for _ in range(n):
        kids.append(["td", cnt[0], bs])
        cnt[0] += 1
    return ["lazy", new_sd, kids]


def max_id(t):
    return max(l[1] for l in tree_leaves(t))


class Skip(Exception):
    pass


def run_op(torch, tensordict, W, op, target):
    """apply [op] to target ('lazy' or 'dense') of world W; returns the result object (for reads) or None (writes).
    Auxiliary operands are built from the case alone, so both targets see equal operands."""
    X = W.lazy if target == "lazy" else W.dense
    TD = tensordict.TensorDict
    k = op[0]
    shape = tree_shape(W.tree)
    R = len(shape)
    sd = W.tree[1]
    if k == "getitem":
        return X[index_obj(torch, op[1])]
    if k == "setitem":
        idx = index_obj(torch, op[1])
        vbs = list(W.dense[idx].batch_size)     # the dense twin defines the legal value shape (raises -> illegal case)
        vk = op[2]
        if vk == "scalar":
            X[idx] = -7
        elif vk == "expand":
            # a value with fewer leading dims / singleton dims that must be expanded
            if not vbs:
                v = value_td(torch, tensordict, vbs)
            else:
                v = value_td(torch, tensordict, [1] + vbs[1:])
            X[idx] = v
        elif vk == "lazy":
            v = value_td(torch, tensordict, vbs)
            if vbs and vbs[0] > 0:
                v = tensordict.LazyStackedTensorDict(*v.unbind(0), stack_dim=0)
            X[idx] = v
        else:
            X[idx] = value_td(torch, tensordict, vbs)
        return None
    if k == "set_at_":
        idx = index_obj(torch, op[1])
        vbs = list(W.dense[idx].batch_size)
        v = value_td(torch, tensordict, vbs)
        X.set_at_("a", v.get("a"), idx)
        return None
    if k == "update_at_":
        idx = index_obj(torch, op[1])
        vbs = list(W.dense[idx].batch_size)
        X.update_at_(value_td(torch, tensordict, vbs), idx)
        return None
    if k == "setkey":
        v = value_td(torch, tensordict, shape)
        how = op[1]
        if how == "new":
            X.set("c", v.get("a"))
        elif how == "existing":
            X.set("a", v.get("a"))
        elif how == "set_":
            X.set_("a", v.get("a"))
        elif how == "nested_new":
            X.set(("n", "c"), v.get(("n", "b")))
        elif how == "nested_existing":
            X.set(("n", "b"), v.get(("n", "b")))
        elif how == "setitem_key":
            X["a"] = v.get("a")
        return None
    if k == "member_write":
        if target == "lazy":
            m = W.leaf_objs[op[1]]
            how = op[2]
            if how == "inplace":
                m.get("a").mul_(-1)
            elif how == "rebind":
                m.set("a", -m.get("a"))
            else:
                m.set("c", -m.get("a"))
                for jj, o in W.leaf_objs.items():
                    if jj != op[1]:
                        o.set("c", o.get("a").clone())
        else:
            # the same edit expressed on the dense twin with torch only
            a = X.get("a")
            how = op[2]
            sel = _leaf_selector(W.tree, op[1])
            if how in ("inplace", "rebind"):
                a[sel] = -a[sel]
            else:
                c = a.clone()
                c[sel] = -c[sel]
                X.set("c", c)
        return None
    if k == "transpose":
        return X.transpose(op[1], op[2])
    if k == "permute":
        return X.permute(op[1])
    if k == "squeeze":
        return X.squeeze() if op[1] is None else X.squeeze(op[1])
    if k == "unsqueeze":
        return X.unsqueeze(op[1])
    if k == "unbind":
        return X.unbind(op[1])
    if k == "split":
        return X.split(op[1], op[2])
    if k == "chunk":
        return X.chunk(op[1], op[2])
    if k == "repeat":
        return X.repeat(*op[1])
    if k == "repeat_interleave":
        return X.repeat_interleave(op[1], dim=op[2])
    if k == "view":
        return X.view(*op[1]) if op[2] == "view" else X.reshape(*op[1])
    if k == "flatten":
        return X.flatten(op[1], op[2])
    if k == "unflatten":
        return X.unflatten(op[1], op[2])
    if k == "expand":
        return X.expand(*op[1])
    if k == "reduce":
        name, dim, keep = op[1], op[2], op[3]
        if name in ("all", "any"):
            Y = X > (P * 2)
            return getattr(Y, name)() if dim is None else getattr(Y, name)(dim=dim)
        if name == "prodsign":
            return (X > 3).all() if dim is None else (X > 3).any(dim)
        kw = {} if dim is None else {"dim": dim, "keepdim": keep}
        return getattr(X, name)(**kw)
    if k == "compare":
        opn, ok = op[1], op[2]
        f = {"eq": "__eq__", "ne": "__ne__", "gt": "__gt__", "le": "__le__", "ge": "__ge__", "lt": "__lt__"}[opn]
        other = _other_operand(torch, tensordict, W, ok)
        return getattr(X, f)(other)
    if k == "arith":
        how = op[1]
        if how == "add1":
            return X + 1
        if how == "mul2":
            return X * 2
        if how == "neg":
            return -X
        if how == "add_dense":
            return X + _other_operand(torch, tensordict, W, "dense")
        return X - _other_operand(torch, tensordict, W, "lazy")
    if k in ("update", "update_"):
        src = _update_source(torch, tensordict, W, op[1])
        r = getattr(X, k)(src)
        return None
    if k == "insert":
        raise Skip()  # handled by run_insert
    if k in ("cat", "stack"):
        raise Skip()  # handled by run_catstack
    if k == "materialise":
        how = op[1]
        if how == "contiguous":
            return X.contiguous()
        if how == "densify":
            return X.densify() if target == "lazy" else X
        if how == "to_tensordict":
            return X.to_tensordict()
        if how == "clone":
            return X.clone()
        if how == "copy":
            return X.copy()
        if how == "get_a":
            return X.get("a")
        if how == "get_nb":
            return X.get(("n", "b"))
        if how == "keys":
            return sorted(kstr(x) for x in X.keys(True, True))
    raise ValueError(op)


def _leaf_selector(tree, j):
    """index tuple selecting, in the dense twin's leaf tensors, the slice held by leaf member j"""
    def rec(t, prefix_dims):
        # prefix_dims: list mapping dense dims of the current sub-array to either fixed ints or slice
        if t[0] == "td":
            return prefix_dims if t[1] == j else None
        sd = t[1]
        for i, c in enumerate(t[2]):
            # positions of the current sub-array's free dims inside prefix_dims
            free = [p for p, v in enumerate(prefix_dims) if v is None]
            nd = list(prefix_dims)
            nd[free[sd]] = i
            r = rec(c, nd)
            if r is not None:
                return r
        return None
    R = len(tree_shape(tree))
    sel = rec(tree, [None] * R)
    return tuple(slice(None) if v is None else v for v in sel)


def _other_operand(torch, tensordict, W, kind):
    """a second operand with the same batch shape whose values differ from the first at known places"""
    shape = tree_shape(W.tree)
    if kind == "number":
        return P * 3
    a, b = W._dense_tensors(W.tree)
    a2 = a.clone()
    b2 = b.clone()
    a2.reshape(-1)[::3] += 1
    b2.reshape(-1)[::2] -= 1
    d = tensordict.TensorDict({"a": a2, "n": {"b": b2}}, batch_size=shape)
    if kind == "dense":
        return d
    R = len(shape)
    sd = W.tree[1]
    if kind == "lazy_other_sd" and R >= 2:
        sd = (sd + 1) % R
    return tensordict.LazyStackedTensorDict(*d.unbind(sd), stack_dim=sd)


def _update_source(torch, tensordict, W, kind):
    shape = tree_shape(W.tree)
    sd = W.tree[1]
    R = len(shape)
    if kind in ("lazy_more", "lazy_fewer"):
        n = shape[sd] + (1 if kind == "lazy_more" else -1)
        if n <= 0:
            n = shape[sd] + 1
        shape = with_size(shape, sd, n)
    v = value_td(torch, tensordict, shape)
    if kind == "dense":
        return v
    if kind == "dict":
        return {"a": v.get("a"), "n": {"b": v.get(("n", "b"))}}
    if kind == "lazy_other_sd" and R >= 2:
        sd2 = (sd + 1) % R
        return tensordict.LazyStackedTensorDict(*v.unbind(sd2), stack_dim=sd2)
    return tensordict.LazyStackedTensorDict(*v.unbind(sd), stack_dim=sd)


# ---------------------------------------------------------------------------------------------------------------
# executing one case against the implementation + the oracle
# ---------------------------------------------------------------------------------------------------------------
WRITE_OPS = ("setitem", "set_at_", "update_at_", "setkey", "member_write", "update", "update_")


def lazy_ids(x):
    """identity structure of a lazy tree: nested list of id()s of the member objects"""
    if hasattr(x, "tensordicts"):
        return [lazy_ids(m) for m in x.tensordicts]
    return id(x)


def layout_of(x):
    """class / stack dim / batch size of a result (what the model predicts besides the element map)"""
    if isinstance(x, (tuple, list)):
        return ["seq"] + [layout_of(y) for y in x]
    if hasattr(x, "tensordicts"):
        return ["lazy", int(x.stack_dim), list(x.batch_size), len(x.tensordicts)]
    if hasattr(x, "batch_size"):
        return ["td", list(x.batch_size)]
    return ["other"]


def batch_sizes_of(x):
    if isinstance(x, (tuple, list)):
        return ["seq"] + [batch_sizes_of(y) for y in x]
    if hasattr(x, "batch_size"):
        return list(x.batch_size)
    return None


def members_state(torch, W):
    return {j: canon(torch, o) for j, o in sorted(W.leaf_objs.items())}


def expected_members(torch, W, dense):
    out = {}
    for j, tensors in sorted(W.dense_slices(dense).items()):
        leaves = []
        for k in sorted(tensors, key=kstr):
            v = tensors[k]
            leaves.append([kstr(k), list(v.shape), v.reshape(-1).to(torch.int64).tolist()])
        bs = None
        for l in tree_leaves(W.tree):
            if l[1] == j:
                bs = list(l[2])
        out[j] = ["td", bs, leaves]
    return out


def execute(case, torch=None, tensordict=None):
    """returns dict(verdict=..., detail=..., layout=..., elems=..., split=...) for one case.
    verdict: 'ok' | 'fail' (oracle failed) | 'lazy-raise' | 'dense-illegal' """
    if torch is None:
        torch, tensordict = _imports()
    op = case["op"]
    k = op[0]
    if k == "insert":
        return exec_insert(torch, tensordict, case)
    if k in ("cat", "stack"):
        return exec_catstack(torch, tensordict, case)
    W = World(torch, tensordict, case["tree"], case.get("raw_sd"))
    res = {"verdict": "ok", "detail": None}
    if list(W.lazy.batch_size) != tree_shape(case["tree"]):
        return {"verdict": "fail", "detail": {"what": "batch_size of the lazy stack", "lazy": list(W.lazy.batch_size),
                                                "dense": tree_shape(case["tree"])}, "layout": None}
    ids0 = lazy_ids(W.lazy)
    if k == "setitem":
        vb = guarded(lambda: list(W.dense[index_obj(torch, op[1])].batch_size))
        if vb[0] == "ok":
            vbs = vb[1]
            res["vshape"] = ([1] + vbs[1:] if vbs else vbs) if op[2] == "expand" else vbs
    # the dense twin first: it decides whether the case is legal
    d = guarded(lambda: run_op(torch, tensordict, W, op, "dense"))
    if k in ("getitem", "setitem", "set_at_", "update_at_"):
        res["split"] = guarded(lambda: canon_split(torch, W.lazy._split_index(prep_index(torch, W, op[1]))))
    l = guarded(lambda: run_op(torch, tensordict, W, op, "lazy"))
    res["lazy_raised"] = l[1] if l[0] == "raise" else None
    res["dense_raised"] = d[1] if d[0] == "raise" else None
    if l[0] == "ok":
        res["layout"] = layout_of(l[1])
        res["is_member"] = [j for j, o in W.leaf_objs.items() if o is l[1]]
    if d[0] == "raise":
        res["verdict"] = "dense-illegal"
        return res
    if l[0] == "raise":
        res["verdict"] = "lazy-raise"
        return res
    if k in WRITE_OPS:
        # state after the write: the stack, and the members I hold
        mem = members_state(torch, W)
        res["members"] = mem
        res["ids_changed"] = lazy_ids(W.lazy) != ids0
        cl = guarded(lambda: canon(torch, W.lazy))
        cd = canon(torch, W.dense)
        if cl[0] == "raise":
            res["verdict"] = "lazy-raise"
            res["lazy_raised"] = "materialise:" + cl[1]
            return res
        exp = expected_members(torch, W, W.dense)
        bad = None
        if cl[1] != cd:
            bad = {"what": "stack content after the write", "lazy": cl[1], "dense": cd}
        elif mem != exp:
            jbad = [j for j in exp if mem.get(j) != exp[j]]
            bad = {"what": "member content after the write through the stack", "members": jbad,
                   "member": mem.get(jbad[0]), "expected": exp[jbad[0]]}
        elif lazy_ids(W.lazy) != ids0:
            bad = {"what": "member objects replaced by the write"}
        if bad:
            res["verdict"] = "fail"
            res["detail"] = bad
        return res
    cd = canon(torch, d[1])
    # the batch size of what was returned is compared before anything is read from it
    bl, bd = batch_sizes_of(l[1]), batch_sizes_of(d[1])
    if bl != bd:
        res["verdict"] = "fail"
        res["detail"] = {"what": "batch size of the result", "lazy": bl, "dense": bd}
        cl = guarded(lambda: canon(torch, l[1]))
        if cl[0] == "ok":
            res["value"] = cl[1]
        else:
            res["lazy_raised"] = "materialise:" + cl[1]
        return res
    cl = guarded(lambda: canon(torch, l[1]))
    if cl[0] == "raise":
        res["verdict"] = "lazy-raise"
        res["lazy_raised"] = "materialise:" + cl[1]
        return res
    res["value"] = cl[1]
    if cl[1] != cd:
        res["verdict"] = "fail"
        res["detail"] = {"what": "result of the read", "lazy": cl[1], "dense": cd}
    return res


def prep_index(torch, W, index):
    """what __getitem__ hands to _split_index (lists / ranges are converted inside _broadcast_tensors)"""
    return index_obj(torch, index)


def canon_sub(torch, idx):
    if idx is None:
        return ["none"]
    if isinstance(idx, slice):
        return ["sl", idx.start, idx.stop, idx.step]
    if isinstance(idx, bool):
        return ["bool", int(idx)]
    if isinstance(idx, int):
        return ["int", idx]
    if isinstance(idx, torch.Tensor):
        if idx.dtype == torch.bool:
            return ["mask", list(idx.shape), [int(b) for b in idx.reshape(-1).tolist()]]
        if idx.ndim == 0:
            return ["int", int(idx)]
        return ["ten", list(idx.shape), idx.reshape(-1).tolist()]
    if isinstance(idx, (tuple, list)):
        return ["tup"] + [canon_sub(torch, x) for x in idx]
    return ["other", type(idx).__name__]


def canon_split(torch, sp):
    d = sp["index_dict"]

    def cd(d):
        if isinstance(d, dict):
            return ["dict"] + [[int(i), canon_sub(torch, v)] for i, v in d.items()]
        if isinstance(d, list):
            return ["nest"] + [cd(x) for x in d]
        if isinstance(d, tuple):
            return ["item", int(d[0]), canon_sub(torch, d[1])]
        return ["other"]
    out = {"index_dict": cd(d)}
    for f in ("num_single", "num_none", "num_squash", "isinteger", "has_bool", "is_nd_tensor", "split_dim", "mask_loc"):
        if f in sp:
            out[f] = int(sp[f])
    return out


def exec_insert(torch, tensordict, case):
    tree, op = case["tree"], case["op"]
    W = World(torch, tensordict, tree, case.get("raw_sd"))
    how, pos, shapek = op[1], op[2], op[3]
    cnt = [max_id(tree) + 1]
    new = resize_tree(tree[2][0], None, 0, cnt)
    if shapek == "badshape":
        ls = tree_leaves(new)
        for l in ls:
            l[2] = list(l[2]) + [2] if not l[2] else with_size(l[2], 0, l[2][0] + 1)
    Wn = World(torch, tensordict, ["lazy", 0, [new]])
    newobj = Wn.lazy.tensordicts[0]
    kids = list(tree[2])
    if how == "append":
        kids.append(new)
    else:
        kids.insert(pos, new)      # CPython list.insert semantics are the reference ("analogous to list.insert")
    res = {"verdict": "ok", "detail": None}
    l = guarded(lambda: W.lazy.append(newobj) if how == "append" else W.lazy.insert(pos, newobj))
    res["lazy_raised"] = l[1] if l[0] == "raise" else None
    exp_tree = ["lazy", tree[1], kids]
    try:
        a, b = World._dense_tensors(Wn, exp_tree)
    except Exception as e:  # noqa: BLE001  torch refuses to stack the leaves: illegal
        res["dense_raised"] = type(e).__name__
        res["verdict"] = "dense-illegal" if l[0] == "raise" else "fail"
        if res["verdict"] == "fail":
            res["detail"] = {"what": "insert of an incompatible member accepted", "lazy_batch_size": list(W.lazy.batch_size)}
        return res
    if l[0] == "raise":
        res["verdict"] = "lazy-raise"
        return res
    res["layout"] = layout_of(W.lazy)
    cl = guarded(lambda: canon(torch, W.lazy))
    if cl[0] == "raise":
        res["verdict"] = "lazy-raise"
        res["lazy_raised"] = "materialise:" + cl[1]
        return res
    cd = ["td", tree_shape(exp_tree), [["a", list(a.shape), a.reshape(-1).tolist()], ["n.b", list(b.shape), b.reshape(-1).tolist()]]]
    res["value"] = cl[1]
    if cl[1] != cd:
        res["verdict"] = "fail"
        res["detail"] = {"what": "stack after insert/append", "lazy": cl[1], "dense": cd}
    return res


def exec_catstack(torch, tensordict, case):
    tree, op = case["tree"], case["op"]
    k = op[0]
    shape = tree_shape(tree)
    R = len(shape)
    sd = tree[1]
    cnt = [max_id(tree) + 1]
    res = {"verdict": "ok", "detail": None}
    if k == "cat":
        rawdim, sizes, outk = op[1], op[2], op[3]
        dim = rawdim + R if rawdim < 0 else rawdim
        trees = [resize_tree(tree, dim, s, cnt) for s in sizes]
        rshape = with_size(shape, dim, sum(sizes))
    else:
        rawdim, nops, outk = op[1], op[2], op[3]
        dim = rawdim + R + 1 if rawdim < 0 else rawdim
        trees = [resize_tree(tree, None, 0, cnt) for _ in range(nops)]
        rshape = shape[:dim] + [nops] + shape[dim:]
    try:
        Ws = [World(torch, tensordict, t) for t in trees]
    except Exception as e:  # noqa: BLE001   e.g. an operand with zero members cannot be built
        return {"verdict": "dense-illegal", "dense_raised": "operand:" + type(e).__name__, "lazy_raised": None, "detail": None}
    out = None
    Wout = None
    if outk != "none":
        if outk == "dense":
            Wout = World(torch, tensordict, ["lazy", 0, [["td", cnt[0], rshape]]] if True else None)
            out = Wout.lazy.tensordicts[0]
        else:
            osd = sd if k == "cat" else (sd + 1 if dim <= sd else sd)
            if outk == "lazy_other_sd" and len(rshape) >= 2:
                osd = (osd + 1) % len(rshape)
            if rshape[osd] == 0:
                return {"verdict": "dense-illegal", "dense_raised": "empty-out", "lazy_raised": None, "detail": None}
            Wout = World(torch, tensordict, restack_tree(rshape, osd, cnt))
            out = Wout.lazy
    fn = torch.cat if k == "cat" else torch.stack
    # reference: torch on the leaves of the dense twins
    try:
        ea = fn([w.dense.get("a") for w in Ws], dim)
        eb = fn([w.dense.get(("n", "b")) for w in Ws], dim)
    except Exception as e:  # noqa: BLE001
        res["dense_raised"] = type(e).__name__
        res["verdict"] = "dense-illegal"
        return res
    cd = ["td", rshape, [["a", list(ea.shape), ea.reshape(-1).tolist()], ["n.b", list(eb.shape), eb.reshape(-1).tolist()]]]
    kw = {} if out is None else {"out": out}
    mem0 = members_state(torch, Wout) if (Wout is not None and outk != "dense") else None
    l = guarded(lambda: fn([w.lazy for w in Ws], rawdim, **kw))
    if mem0 is not None:
        res["out_members_changed"] = members_state(torch, Wout) != mem0
    res["lazy_raised"] = l[1] if l[0] == "raise" else None
    if l[0] == "raise":
        res["verdict"] = "lazy-raise"
        return res
    res["layout"] = layout_of(l[1])
    cl = guarded(lambda: canon(torch, l[1]))
    if cl[0] == "raise":
        res["verdict"] = "lazy-raise"
        res["lazy_raised"] = "materialise:" + cl[1]
        return res
    res["value"] = cl[1]
    if cl[1] != cd:
        res["verdict"] = "fail"
        res["detail"] = {"what": f"result of torch.{k}", "lazy": cl[1], "dense": cd}
        return res
    if out is not None:
        if l[1] is not out:
            res["verdict"] = "fail"
            res["detail"] = {"what": "out= not returned"}
            return res
        if outk != "dense":
            # the members of out (my references) hold the slices of the result
            mem = members_state(torch, Wout)
            dd = tensordict.TensorDict({"a": ea, "n": {"b": eb}}, batch_size=rshape)
            exp = expected_members(torch, Wout, dd)
            if mem != exp:
                jbad = [j for j in exp if mem.get(j) != exp[j]]
                res["verdict"] = "fail"
                res["detail"] = {"what": "members of out= after the write", "members": jbad, "member": mem.get(jbad[0]),
                                 "expected": exp[jbad[0]]}
    return res


# ---------------------------------------------------------------------------------------------------------------
# model protocol
# ---------------------------------------------------------------------------------------------------------------
def tree_sx(t):
    if t[0] == "td":
        return [Sym("td"), t[1], list(t[2])]
    return [Sym("lazy"), t[1], [tree_sx(c) for c in t[2]]]


def item_sx(it):
    k = it[0]
    if k == "int":
        return [Sym("int"), it[1]]
    if k == "sl":
        return [Sym("sl"), some(it[1]), some(it[2]), some(it[3])]
    if k == "none":
        return Sym("none")
    if k == "ell":
        return Sym("ell")
    if k == "list":
        return [Sym("ten"), [len(it[1])], list(it[1])]
    if k == "range":
        r = list(range(it[1], it[2], it[3]))
        return [Sym("ten"), [len(r)], r]
    if k == "ten":
        return [Sym("ten"), list(it[1]), list(it[2])]
    if k == "mask":
        return [Sym("mask"), list(it[1]), [1 if b else 0 for b in it[2]]]
    raise ValueError(k)


def index_sx(index):
    return [item_sx(it) for it in index["items"]]


def norm_sub_impl(c):
    """canon_sub form -> the parsed form of the model's enc_item"""
    k = c[0]
    if k == "none":
        return "none"
    if k == "int":
        return ["int", c[1]]
    if k == "sl":
        return ["sl"] + [("none" if v is None else ["some", int(v)]) for v in c[1:4]]
    if k == "ten":
        return ["ten", c[1], c[2]]
    if k == "mask":
        return ["mask", c[1], c[2]]
    if k == "bool":
        return ["mask", [], [c[1]]]
    if k == "tup":
        return [norm_sub_impl(x) for x in c[1:]]
    return ["other"] + c[1:]


def norm_split_impl(sp):
    d = sp["index_dict"]
    if d[0] == "dict":
        kind = ["dict"] + [[i, norm_sub_impl(sub)] for i, sub in d[1:]]
    else:
        subs = []

        def nest(x):
            if x[0] == "nest":
                return ["nest"] + [nest(y) for y in x[1:]]
            subs.append(norm_sub_impl(x[2]))
            return x[1]
        t = nest(d)
        sub = subs[0] if subs else "no-leaf"
        if any(s != sub for s in subs):
            sub = ["differing-subs"]
        kind = ["nested", t, sub]
    out = [kind, sp["num_single"], sp["num_none"], sp["num_squash"], "t" if sp["isinteger"] else "f",
           "t" if sp["has_bool"] else "f", "t" if sp["is_nd_tensor"] else "f"]
    out.append([sp["split_dim"], sp["mask_loc"]] if sp["has_bool"] else "none")
    return out


def model_lines(case):
    """protocol lines for the parts of the case the model covers: list of (tag, line)"""
    tree, op = case["tree"], case["op"]
    k = op[0]
    t = tree_sx(tree)
    shape = tree_shape(tree)
    out = []
    if k == "getitem":
        out.append(("split", sx([Sym("split"), t, index_sx(op[1])])))
        out.append(("read", sx([Sym("getitem"), t, index_sx(op[1])])))
    elif k == "setitem":
        out.append(("split", sx([Sym("split"), t, index_sx(op[1])])))
        if op[2] in ("td", "expand") and case.get("vshape") is not None:      # the model's value is a dense tensordict
            out.append(("write", sx([Sym("setitem"), t, index_sx(op[1]), list(case["vshape"])])))
    elif k in ("set_at_", "update_at_"):
        out.append(("split", sx([Sym("split"), t, index_sx(op[1])])))
    elif k == "update_" and op[1] in ("dense", "lazy_same", "lazy_other_sd", "lazy_more", "lazy_fewer"):
        sd = tree[1]
        R = len(shape)
        vsh = list(shape)
        if op[1] in ("lazy_more", "lazy_fewer"):
            n = shape[sd] + (1 if op[1] == "lazy_more" else -1)
            if n <= 0:
                n = shape[sd] + 1
            vsh = with_size(shape, sd, n)
        mode = -1 if op[1] == "dense" else ((sd + 1) % R if (op[1] == "lazy_other_sd" and R >= 2) else sd)
        out.append(("write", sx([Sym("update_"), t, mode, vsh])))
    elif k == "transpose":
        out.append(("read", sx([Sym("transpose"), t, op[1], op[2]])))
    elif k == "permute":
        out.append(("read", sx([Sym("permute"), t, list(op[1])])))
    elif k == "squeeze":
        out.append(("read", sx([Sym("squeeze-all"), t]) if op[1] is None else sx([Sym("squeeze"), t, op[1]])))
    elif k == "unsqueeze":
        out.append(("read", sx([Sym("unsqueeze"), t, op[1]])))
    elif k == "unbind":
        out.append(("read", sx([Sym("unbind"), t, op[1]])))
    elif k == "split":
        if isinstance(op[1], list):
            out.append(("read", sx([Sym("split-op"), t, list(op[1]), False, op[2]])))
        else:
            out.append(("read", sx([Sym("split-op"), t, [op[1]], True, op[2]])))
    elif k == "chunk":
        R = len(shape)
        d = op[2] + R if op[2] < 0 else op[2]
        if 0 <= d < R:
            size = -(shape[d] // -op[1])          # base.chunk: split_size = -(batch_size[dim] // -chunks)
            out.append(("read", sx([Sym("split-op"), t, [size], True, op[2]])))
    elif k == "insert":
        cnt = [max_id(tree) + 1]
        new = resize_tree(tree[2][0], None, 0, cnt)
        if op[3] == "ok":
            pos = len(tree[2]) if op[1] == "append" else op[2]
            out.append(("read", sx([Sym("insert"), t, pos, tree_sx(new)])))
    elif k == "cat" and op[3] in ("lazy", "lazy_other_sd") and signature(case, {})["pattern"] == "out-is-lazy-and-out.stack_dim==dim" \
            and all(s > 0 for s in op[2]):
        out.append(("catout", sx([Sym("cat-out"), sum(op[2]), list(op[2])])))
    elif k == "cat" and op[3] == "none":
        R = len(shape)
        dim = op[1] + R if op[1] < 0 else op[1]
        cnt = [max_id(tree) + 1]
        if all(s > 0 for s in op[2]):
            trees = [resize_tree(tree, dim, s, cnt) for s in op[2]]
            out.append(("read", sx([Sym("cat"), [tree_sx(x) for x in trees], dim])))
    return out


def decode_b(vals):
    """leaf ('n','b') values -> element codes (member*P + position), written values -> -(1+k)"""
    out = []
    for v in vals:
        if v >= 0:
            out.append(v - BOFF)
        else:
            out.append(-(1 + (-v - VOFF - BOFF)))
    return out


def impl_read_obs(res):
    """what the model predicts, read off the implementation's result"""
    if res.get("lazy_raised") and not str(res["lazy_raised"]).startswith("materialise:"):
        return "raised"
    lay = res.get("layout")
    val = res.get("value")
    if val is None:
        return ["unmaterialisable", lay]

    def one(lay, val, members=None):
        if lay[0] == "seq":
            return ["seq"] + [one(l, v) for l, v in zip(lay[1:], val[1:])]
        b = [l for l in val[2] if l[0] == "n.b"]
        elems = decode_b(b[0][2]) if b else []
        return ["ok", lay, elems]
    return one(lay, val)


def model_read_obs(m, res):
    """bring the model's answer to the same form; 'member j' layouts are resolved with the implementation's identity check"""
    if m in ("raised", "eval-fail"):
        return "raised"
    if isinstance(m, str):
        return m

    def one(x):
        if x == "eval-fail":
            return "raised"
        lay = x[1]
        if lay[0] == "member":
            lay = ["td", lay[2]]
        return ["ok", lay, x[2]]
    if m[0] == "seq":
        return ["seq"] + [one(x) for x in m[1:]]
    return one(m)


def strip_lazy_n(obs):
    return obs


def compare_case(R, case, res, mres):
    """model vs implementation for one case; mres: dict tag -> parsed model answer"""
    op = case["op"]
    k = op[0]
    n = 0
    if "split" in mres and "split" in res:
        m = mres["split"]
        sp = res["split"]
        if m == "out-of-model":
            R.count("model:out-of-model")
        else:
            io = "raised" if sp[0] == "raise" else norm_split_impl(sp[1])
            mo = "raised" if m in ("raised", "eval-fail") else m
            if isinstance(io, list) and io[0][0] == "nested" and io[0][2] == "no-leaf" and isinstance(mo, list):
                mo = [[mo[0][0], mo[0][1], "no-leaf"]] + mo[1:]
            n += 1
            if io != mo:
                R.mismatch("_split_index", case, io, mo)
    if "read" in mres:
        m = mres["read"]
        if m in ("out-of-model", "out-of-fuel"):
            R.count("model:" + m)
        elif res["verdict"] == "dense-illegal" and res.get("lazy_raised"):
            # both sides reject: the model must not claim a result either ... unless it models a quirk; only count
            mo = model_read_obs(m, res)
            n += 1
            if mo != "raised":
                R.mismatch(k + ":raise", case, "raised", mo)
        else:
            io = impl_read_obs(res)
            mo = model_read_obs(m, res)
            n += 1
            if isinstance(io, list) and io and io[0] == "unmaterialisable":
                # the code returned an object that cannot be read: the model must say the same layout or fail to evaluate
                def coarse(l):
                    if l[0] == "seq":
                        return ["seq"] + [coarse(x) for x in l[1:]]
                    return [l[0], l[1], l[3]] if l[0] == "lazy" else [l[0]]
                if mo != "raised" and not (isinstance(mo, list) and (
                        (mo[0] == "ok" and coarse(mo[1]) == coarse(io[1])) or
                        (mo[0] == "seq" and io[1][0] == "seq" and len(mo) == len(io[1]) and
                         all(x == "raised" or coarse(x[1]) == coarse(y) for x, y in zip(mo[1:], io[1][1:]))))):
                    R.mismatch(k + ":unmaterialisable", case, io, mo)
            elif io != mo:
                R.mismatch(k, case, io, mo)
            elif isinstance(m, list) and m[0] == "ok" and m[1][0] == "member":
                if res.get("is_member") != [m[1][1]]:
                    R.mismatch(k + ":identity", case, res.get("is_member"), m[1])
    if "catout" in mres:
        m = mres["catout"]
        n += 1
        if res.get("lazy_raised") and not str(res["lazy_raised"]).startswith("materialise:"):
            io = "raises"
        elif res.get("out_members_changed") is False:
            io = "out-unchanged"
        else:
            io = "written"
        if io != m[2]:
            R.mismatch("_lazy_cat(out=):offsets", case, io, m)
    if "write" in mres:
        m = mres["write"]
        if m in ("out-of-model", "out-of-fuel"):
            R.count("model:" + m)
        else:
            n += 1
            raised = bool(res.get("lazy_raised")) and not str(res.get("lazy_raised")).startswith("materialise:")
            if m == "coerce":
                R.count("model:member-level-coercion-not-modelled")
            elif m in ("raised", "eval-fail"):
                if not raised:
                    R.mismatch("setitem:raise", case, "ok", m)
            elif raised:
                R.mismatch("setitem:raise", case, "raised:" + str(res.get("lazy_raised")), "ok")
            elif "members" in res:
                io = [[j, decode_b([l for l in c[2] if l[0] == "n.b"][0][2])] for j, c in sorted(res["members"].items())]
                rep = res.get("ids_changed", False)
                mo = m[1]
                if io != mo or ("t" if rep else "f") != m[2]:
                    R.mismatch("setitem", case, [io, rep], [mo, m[2]])
    return n


# ---------------------------------------------------------------------------------------------------------------
# signatures of oracle failures (decidable predicates of the case; matched against findings.d/C08.json)
# ---------------------------------------------------------------------------------------------------------------
def norm_d(d, R):
    return d + R if d < 0 else d


def strip1(sh):
    return [s for s in sh if s != 1]


def reach(t, items):
    """lazy nodes of the tree an index arrives at, with the index they receive (basic propagation of _split_index:
    the item on the node's stack dim is consumed, the rest is handed to the members); stops at a mask covering the stack dim"""
    if t[0] != "lazy":
        return []
    R = len(tree_shape(t))
    items = expand_ellipsis_json({"tuple": True, "items": items}, R)["items"]
    out = [(t, items)]
    sd = t[1]
    cursor = 0
    sub = []
    for it in items:
        if it[0] == "none":
            sub.append(it)
            continue
        if it[0] == "mask":
            m = len(it[1])
            if m >= 1 and cursor <= sd < cursor + m:
                return out
            sub.append(it)
            cursor += m
            continue
        if cursor != sd:
            sub.append(it)
        cursor += 1
    if sub:
        for c in t[2]:
            if c[0] == "lazy":
                out.extend(reach(c, sub))
                break           # members are alike: one representative is enough
    return out


def index_flags(tree, items):
    """facts about how an index meets the stack dims of the (nested) lazy stack"""
    f = {"int_tensor_alone_on_stack_dim_0": False, "int_tensor_rank_ge2_on_stack_dim": False,
         "mask_covers_stack_dim": False, "none_before_nd_mask": False, "mask_rank0_members_with_other_items": False,
         "mask_lazy_members": False, "mask_empty_selection": False,
         "none_at_or_before_stack_dim": False, "adv_at_or_before_stack_dim": False}
    for (t, its) in reach(tree, items):
        sd = t[1]
        R = len(tree_shape(t))
        cursor = 0
        seen_none = False
        for pos, it in enumerate(its):
            if it[0] == "none":
                seen_none = True
                if cursor <= sd:
                    f["none_at_or_before_stack_dim"] = True
                continue
            m = len(it[1]) if it[0] == "mask" else 1
            if it[0] in ADV and cursor <= sd:
                f["adv_at_or_before_stack_dim"] = True
            if it[0] == "mask" and m >= 1 and cursor <= sd < cursor + m:
                f["mask_covers_stack_dim"] = True
                if m >= 2 and seen_none:
                    f["none_before_nd_mask"] = True
                if R == m and len(its) > 1:
                    f["mask_rank0_members_with_other_items"] = True
                if t[2][0][0] == "lazy":
                    f["mask_lazy_members"] = True
                row = prod(it[1][1:])
                bits = it[2]
                if (m == 1 and not any(bits)) or (m >= 2 and any(not any(bits[r * row:(r + 1) * row]) for r in range(it[1][0]))):
                    f["mask_empty_selection"] = True
            if it[0] in ("list", "range", "ten") and cursor == sd:
                rank = len(it[1]) if it[0] == "ten" else 1
                if rank >= 2:
                    f["int_tensor_rank_ge2_on_stack_dim"] = True
                if len(its) == 1 and sd == 0:
                    f["int_tensor_alone_on_stack_dim_0"] = True
            cursor += m
    return f


def adv_is_before(tree, items):
    """the single advanced item ends before the (top-level) stack dim and no other advanced item exists"""
    sd = tree[1]
    cursor = 0
    for it in items:
        if it[0] == "none":
            continue
        m = len(it[1]) if it[0] == "mask" else 1
        if it[0] in ADV:
            rank_ok = (it[0] != "mask" or m >= 1) and not (it[0] == "ten" and len(it[1]) == 0)
            return rank_ok and cursor + m <= sd
        cursor += m
    return False


def stack_dims_of(tree):
    """dense dims that are the stack dim of some (nested) lazy level"""
    out = set()

    def rec(t, dims):
        if t[0] != "lazy":
            return
        out.add(dims[t[1]])
        rest = dims[:t[1]] + dims[t[1] + 1:]
        rec(t[2][0], rest)
    rec(tree, list(range(len(tree_shape(tree)))))
    return out


def signature(case, res):
    tree, op = case["tree"], case["op"]
    k = op[0]
    shape = tree_shape(tree)
    R = len(shape)
    sd = tree[1]
    sig = {"op": k, "pattern": "none"}
    if k in ("setitem", "set_at_", "update_at_", "getitem"):
        f = index_flags(tree, op[1]["items"])
        if k in ("getitem", "setitem") and f["mask_covers_stack_dim"]:
            sig["pattern"] = "bool-mask-covering-a-stack-dim"
            for kk in ("none_before_nd_mask", "mask_rank0_members_with_other_items", "mask_lazy_members", "mask_empty_selection"):
                sig[kk] = f[kk]
        elif k in ("setitem", "set_at_") and f["int_tensor_rank_ge2_on_stack_dim"] and not (k == "setitem" and op[2] == "scalar"):
            sig["pattern"] = "int-tensor-of-rank>=2-on-a-stack-dim"
        elif k == "setitem" and f["int_tensor_alone_on_stack_dim_0"] and op[2] != "scalar":
            sig["pattern"] = "int-tensor-index-alone-on-stack-dim-0"
        elif k == "update_at_" and (f["none_at_or_before_stack_dim"] or f["adv_at_or_before_stack_dim"]):
            sig["pattern"] = "update_at_-with-None-or-advanced-index-at-or-before-a-stack-dim"
    elif k == "transpose":
        d0, d1 = sorted((norm_d(op[1], R), norm_d(op[2], R)))

        def rec(t, d0, d1):
            # does the D26 arithmetic fire at this level or at a nested level the transpose is forwarded to?
            if t[0] != "lazy" or d0 == d1:
                return False
            s = t[1]
            if (d0 == s and d1 - d0 >= 3) or (d1 == s and d1 - d0 >= 2):
                return True
            if d0 == s or d1 == s:
                if d1 == d0 + 1:
                    return False
                a0, a1 = (d0, d1 - 1) if d0 == s else (d0 + 1, d1)
            else:
                a0, a1 = (d0 if d0 < s else d0 - 1), (d1 if d1 < s else d1 - 1)
            return any(rec(c, a0, a1) for c in t[2])
        if 0 <= d0 < R and 0 <= d1 < R and rec(tree, d0, d1):
            sig["pattern"] = "stack-dim-is-dim0-and-distance>=3-or-stack-dim-is-dim1-and-distance>=2"
    elif k == "cat":
        dim = norm_d(op[1], R)
        outk = op[3]
        if outk in ("lazy", "lazy_other_sd"):
            osd = sd
            if outk == "lazy_other_sd" and R >= 2:
                osd = (osd + 1) % R
            sig["pattern"] = "out-is-lazy-and-out.stack_dim==dim" if osd == dim else "out-is-lazy-and-out.stack_dim!=dim"
    elif k == "expand":
        tgt = op[1]
        off = len(tgt) - R
        if off >= 0 and any(shape[d] == 1 and tgt[off + d] not in (1, -1) for d in stack_dims_of(tree)):
            sig["pattern"] = "stack-dim-of-size-1-expanded"
    elif k == "split":
        d = norm_d(op[2], R)
        if isinstance(op[1], list) and 0 in op[1] and d in stack_dims_of(tree):
            sig["pattern"] = "zero-size-in-split-list-on-a-stack-dim"
    elif k in ("view", "flatten", "unflatten"):
        if k == "view":
            tgt = list(op[1])
        elif k == "flatten":
            i, j = norm_d(op[1], R) if R else 0, norm_d(op[2], R) if R else -1
            tgt = shape[:i] + [prod(shape[i:j + 1])] + shape[j + 1:] if R else [1]
        else:
            d = norm_d(op[1], R)
            tgt = shape[:d] + list(op[2]) + shape[d + 1:]
        if -1 in tgt:
            rest = prod([t for t in tgt if t != -1])
            tgt = [(prod(shape) // rest if rest else 0) if t == -1 else t for t in tgt]
        if tgt != shape and strip1(tgt) == strip1(shape):
            sig["pattern"] = "target-differs-from-batch-size-only-by-singleton-dims"
    return sig


# ---------------------------------------------------------------------------------------------------------------
# validation of Spec/C08_Dense against the real torch  (SPEC-MISMATCH = bug of the machinery)
# ---------------------------------------------------------------------------------------------------------------
def validate_spec(R, torch):
    rng = R.rng
    N = 1500 if R.quick else 20000
    cases = []
    for _ in range(N):
        rank = rng.choice([0, 1, 2, 2, 3, 3, 4])
        shape = [rng.choice([0, 1, 2, 2, 3, 3, 4]) if rng.random() < 0.97 else 0 for _ in range(rank)]
        sd = rng.randrange(0, rank) if rank else 0
        idx = gen_index(rng, shape, sd, rng.choice([None, "any", "any"]))
        cases.append((shape, idx))
    lines = [sx([Sym("spec-index"), sh, index_sx(idx)]) for sh, idx in cases]
    ms = _run_model("C08", lines)
    bad = 0
    for (sh, idx), m in zip(cases, ms):
        x = torch.arange(prod(sh), dtype=torch.int64).reshape(sh)
        if any(it[0] == "range" and len(range(it[1], it[2], it[3])) == 0 for it in idx["items"]):
            continue   # torch.as_tensor(range(0)) is a float tensor: not an index
        t = guarded(lambda: x[index_obj(torch, idx)])
        to = ["ok", list(t[1].shape), t[1].reshape(-1).tolist()] if t[0] == "ok" else "reject"
        R.count("spec:" + ("ok" if t[0] == "ok" else "reject"))
        if m != to:
            bad += 1
            if bad <= 10:
                print(f"SPEC-MISMATCH Spec/C08_Dense on shape {sh} index {json.dumps(idx)}: torch {str(to)[:300]} spec {str(m)[:300]}")
    R.extra["spec_cases_validated_against_torch"] = len(cases)
    return bad


# ---------------------------------------------------------------------------------------------------------------
# main
# ---------------------------------------------------------------------------------------------------------------
CORPUS = [
    # D26: transpose across >= 3 positions from the stack dim (stack of stacks, total rank 4)
    {"tree": ["lazy", 0, [["lazy", 0, [["td", 0, [2, 1]], ["td", 1, [2, 1]], ["td", 2, [2, 1]]]],
                          ["lazy", 0, [["td", 3, [2, 1]], ["td", 4, [2, 1]], ["td", 5, [2, 1]]]]]], "raw_sd": 0,
     "op": ["transpose", 0, 3]},
    {"tree": ["lazy", 2, [["td", 0, [2, 3, 1]], ["td", 1, [2, 3, 1]]]], "raw_sd": 2, "op": ["transpose", 0, 2]},
    # D23
    {"tree": ["lazy", 0, [["td", 0, [2]], ["td", 1, [2]], ["td", 2, [2]]]], "raw_sd": 0,
     "op": ["setitem", {"tuple": False, "items": [["ten", [2], [2, 0]]]}, "td"]},
    # D13
    {"tree": ["lazy", 0, [["td", 0, [2]], ["td", 1, [2]]]], "raw_sd": 0, "op": ["cat", 0, [2, 1, 2], "lazy"]},
    {"tree": ["lazy", 0, [["td", 0, [2]], ["td", 1, [2]]]], "raw_sd": 0, "op": ["cat", 0, [2, 2], "lazy"]},
    # TensorDict.__getitem__ returns self for an index of full slices only, however many (found by the thorough tier)
    {"tree": ["lazy", 0, [["lazy", 0, [["td", 0, [2]], ["td", 1, [2]], ["td", 2, [2]]]],
                          ["lazy", 0, [["td", 3, [2]], ["td", 4, [2]], ["td", 5, [2]]]]]], "raw_sd": 0,
     "op": ["getitem", {"tuple": True, "items": [["mask", [2], [True, True]], ["ell"]]}]},
    # D27 / D28 / D29 / D33 / D34 / D35 witnesses
    {"tree": ["lazy", 0, [["td", 0, [2]]]], "raw_sd": 0, "op": ["expand", [3, 2]]},
    {"tree": ["lazy", 0, [["td", 0, []], ["td", 1, []]]], "raw_sd": 0,
     "op": ["getitem", {"tuple": True, "items": [["mask", [2], [True, True]], ["none"]]}]},
    {"tree": ["lazy", 1, [["td", 0, [3]], ["td", 1, [3]], ["td", 2, [3]]]], "raw_sd": 1,
     "op": ["getitem", {"tuple": True, "items": [["none"], ["mask", [3, 3], [True, False, True, True, True, True, True, True, True]]]}]},
    {"tree": ["lazy", 1, [["td", 0, [2, 3]]]], "raw_sd": 1, "op": ["view", [2, 3], "reshape"]},
    {"tree": ["lazy", 0, [["td", 0, [3]], ["td", 1, [3]], ["td", 2, [3]]]], "raw_sd": 0,
     "op": ["setitem", {"tuple": True, "items": [["ten", [2, 1], [2, 0]], ["int", 0]]}, "td"]},
    {"tree": ["lazy", 2, [["td", 0, [1, 3]], ["td", 1, [1, 3]], ["td", 2, [1, 3]]]], "raw_sd": 2,
     "op": ["update_at_", {"tuple": False, "items": [["none"]]}]},
]


def gen_case(rng, quick):
    tree, raw = gen_tree(rng, quick)
    op = gen_op(rng, tree_shape(tree), tree[1], tree)
    return {"tree": tree, "raw_sd": raw, "op": op}


def gen_case_on_stack(rng, quick):
    """focused stream (deepening round): ONE advanced index sitting ON the top-level stack dim -- an integer tensor of rank
    1..2 / list / range whose values are a shuffled, partly negative selection of members (so that routing by value and by
    position differ), or a boolean mask of rank 1..2 starting on the stack dim -- with ints / slices / None before and after it,
    read and written (tensordict value of exactly the indexed shape)"""
    while True:
        tree, raw = gen_tree(rng, quick)
        shape = tree_shape(tree)
        sd = tree[1]
        n = shape[sd]
        if n >= 1:
            break
    R = len(shape)
    kind = rng.choice(["ten1", "ten1", "ten2", "list", "range", "mask1", "mask1", "mask2"])
    write = rng.random() < 0.5
    used = 1
    if kind in ("ten1", "ten2", "list"):
        members = list(range(n))
        rng.shuffle(members)
        if not write and rng.random() < 0.4:
            members = members + [rng.randrange(n) for _ in range(rng.randrange(1, 3))]      # repeats: reads only
        vals = [m - n if rng.random() < 0.4 else m for m in members]
        if kind == "list":
            it = ["list", vals]
        elif kind == "ten2" and len(vals) >= 2 and len(vals) % 2 == 0:
            it = ["ten", [2, len(vals) // 2] if rng.random() < 0.5 else [len(vals) // 2, 2], vals]
        elif kind == "ten2":
            it = ["ten", [1, len(vals)] if rng.random() < 0.5 else [len(vals), 1], vals]
        else:
            it = ["ten", [len(vals)], vals]
    elif kind == "range":
        a = rng.randrange(0, n)
        it = ["range", a, rng.randrange(a + 1, n + 1), rng.choice([1, 1, 2])]
    elif kind == "mask2" and sd + 1 < R:
        sh = [shape[sd], shape[sd + 1]]
        it = ["mask", sh, [rng.random() < 0.7 for _ in range(prod(sh))]]
        used = 2
    else:
        it = ["mask", [n], [rng.random() < 0.7 for _ in range(n)]]
    pre = []
    for d in range(sd):
        s = shape[d]
        pre.append(["int", rng.randrange(-s, s)] if (s > 0 and rng.random() < 0.35) else gen_slice(rng, s))
    for _ in range(rng.choice([0, 0, 1, 1, 2])):
        pre.insert(rng.randrange(0, len(pre) + 1), ["none"])
    post = []
    for d in range(sd + used, R if rng.random() < 0.6 else rng.randrange(sd + used, R + 1)):
        s = shape[d]
        post.append(["int", rng.randrange(-s, s)] if (s > 0 and rng.random() < 0.35) else gen_slice(rng, s))
    for _ in range(rng.choice([0, 0, 0, 1])):
        post.insert(rng.randrange(0, len(post) + 1), ["none"])
    items = pre + [it] + post
    idx = {"tuple": True if len(items) > 1 else rng.random() < 0.5, "items": items}
    if write:
        idx = dedupe_adv(idx, shape)
        return {"tree": tree, "raw_sd": raw, "op": ["setitem", idx, "td"]}
    return {"tree": tree, "raw_sd": raw, "op": ["getitem", idx]}


def adv_on_top(tree, items):
    """how the single advanced item of an Ellipsis-free index meets the TOP-LEVEL stack dim: None, or a dict with
    kind ('int' for list/range/tensor, 'mask'), rank, starts_on (its first dim is the stack dim), none_before,
    basic_after (no other advanced item)"""
    sd = tree[1]
    cursor = 0
    nones = 0
    for pos, it in enumerate(items):
        if it[0] == "ell":
            return None
        if it[0] == "none":
            nones += 1
            continue
        m = len(it[1]) if it[0] == "mask" else 1
        if it[0] in ADV:
            rank = len(it[1]) if it[0] in ("ten", "mask") else 1
            rest = items[pos + 1:]
            return {"kind": "mask" if it[0] == "mask" else "int", "rank": rank, "starts_on": cursor == sd,
                    "covers": cursor <= sd < cursor + m, "none_before": nones > 0,
                    "basic_after": not any(x[0] in ADV or x[0] == "ell" for x in rest)}
        cursor += m
    return None


def _worker(chunk):
    torch, tensordict = _imports()
    torch.set_num_threads(1)
    out = []
    for c in chunk:
        try:
            out.append(execute(c, torch, tensordict))
        except Exception as e:  # noqa: BLE001  a crash of execute is a bug of the harness: surfaced by main
            import traceback
            out.append({"verdict": "harness-error", "detail": traceback.format_exc()[-1500:]})
    return out


def run_all(cases, procs):
    if procs <= 1 or len(cases) < 4000:
        return _worker(cases)
    import multiprocessing as mp
    ctx = mp.get_context("fork")
    n = len(cases)
    k = procs * 4
    chunks = [cases[i * n // k:(i + 1) * n // k] for i in range(k)]
    with ctx.Pool(procs) as pool:
        parts = pool.map(_worker, chunks)
    return [r for p in parts for r in p]


def is_nontrivial(case):
    tree = case["tree"]
    return len(tree_leaves(tree)) >= 2 or len(tree_shape(tree)) >= 2


def main(R):
    R.rule = ("a case = (tree of members, stack dim incl. negative spelling, one operation with its arguments); distinct by its "
              "JSON; non-trivial when the stack has >= 2 leaf members or batch rank >= 2. Trees: 1..4 members of batch rank 0..2 "
              "(sizes 1..3), 18% stacks of stacks; indices: ints/slices/None/Ellipsis + at most one advanced index "
              "(list, range, int tensor rank 1..2, bool mask rank 1..2) before/on/after the stack dim")
    R.assumptions = [
        "dense reference = a TensorDict holding torch.stack of the leaves (built with torch only); the oracle is "
        "lazy.op(args) materialised == dense.op(args): batch size of the returned object first, then keys and values; "
        "after a write: stack content, content of the member objects the harness holds, identity of the member objects",
        "'or raises' of the property: an exception of the lazy op (or while reading its result) is never an oracle failure; "
        "it must however be predicted by the model (else: VIOLATION no-failing-input-found)",
        "cases the dense twin rejects are 'illegal argument' (no reference)",
        "member-level TensorDict indexing / shape ops carry the spec semantics of torch in the model (that is C02/C03's "
        "subject); member-level value coercion in td[idx] = value (expand / batch-size re-interpretation) is not modelled: "
        "those cases (counted as model:member-level-coercion-not-modelled) are left to the oracle",
        "advanced indices used for writes are generated duplicate-free (torch's own result is order-dependent otherwise); "
        "set_at_/update_at_ indices are generated without Ellipsis (the dense class applies them to leaves of higher rank)",
        "theorems: full for ints/slices/None/Ellipsis at any nesting depth; one advanced index BEFORE or AFTER the stack "
        "dim (flat stacks of plain members); "
        "transpose (every pair of dims), unsqueeze, insert/append, cat(out=) offsets; write plans for a slice and for an "
        "integer tensor on stack dim 0. Masks on / across the stack dim, tensors on it, permute/squeeze/unbind/split/"
        "repeat/expand/view, update*, stack: correspondence only",
        "deepening round: an integer tensor / list / range of any rank ON the stack dim: reads (any nesting depth) and the "
        "write plan (flat stacks; in place, routed by value) are theorems; a mask starting on the stack dim: what _split_index "
        "returns, cat_dim and split_dim are theorems (split_dim refuted with a None before the mask = C08-D36, a valid write "
        "that raises; 'or raises' keeps it out of the oracle, the repair is in fixes/C08); unbind along the stack dim: theorem. "
        "Focused stream: 1500 (quick) / 30000 (thorough) extra cases with the advanced index on the stack dim",
        "the model is in the state AFTER the fix: commits C08-D13/D23/D26/D27/D28/D29/D30/D31/D32/D33/D34/D35 (fixes/C08)",
    ]
    R.trusted = ["Spec/C08_Dense.res_shape/src_of validated against real torch indexing in this run (count in extra)",
                 "Spec/PySlice (shared, validated by C18 against CPython)"]
    R.step_prove()
    ok = R.step_driver()
    torch, tensordict = _imports()
    torch.set_num_threads(1)
    spec_bad = validate_spec(R, torch) if ok else 0
    rng = R.rng
    N = 20000 if R.quick else 400000
    cases = []
    cdir = os.path.join(os.path.dirname(os.path.dirname(os.path.abspath(__file__))), "corpus", "C08")
    if os.path.isdir(cdir):
        for f in sorted(os.listdir(cdir)):
            if f.endswith(".json"):
                cases.append(json.load(open(os.path.join(cdir, f)))["case"])
    cases += [json.loads(json.dumps(c)) for c in CORPUS]
    cases += [gen_case(rng, R.quick) for _ in range(N)]
    n_focus = 1500 if R.quick else 30000
    cases += [gen_case_on_stack(rng, R.quick) for _ in range(n_focus)]
    results = run_all(cases, 1 if R.quick else 16)
    # model
    tags, lines = [], []
    for ci, (c, r) in enumerate(zip(cases, results)):
        if r.get("vshape") is not None:
            c = dict(c, vshape=r["vshape"])
        for tag, line in (model_lines(c) if ok else []):
            tags.append((ci, tag))
            lines.append(line)
    answers = R.model(lines, shards=8 if R.quick else 16) if lines else []
    per_case = {}
    for (ci, tag), a in zip(tags, answers):
        per_case.setdefault(ci, {})[tag] = a
    for ci, (c, r) in enumerate(zip(cases, results)):
        k = c["op"][0]
        if r["verdict"] == "harness-error":
            raise RuntimeError("harness error on case " + json.dumps(c) + "\n" + r["detail"])
        R.case(json.dumps(c, sort_keys=True), nontrivial=is_nontrivial(c),
               sample={"case": c, "verdict": r["verdict"]} if ci % 3571 == 7 else None)
        R.count("op:" + k)
        R.count("verdict:" + r["verdict"])
        if k in ("getitem", "setitem", "set_at_", "update_at_"):
            items = c["op"][1]["items"]
            advs = [it for it in items if it[0] in ADV]
            R.count("index:" + (advs[0][0] if advs else "basic"))
            if k == "getitem" and r["verdict"] == "ok":
                # how many explored cases lie inside the domain of the index theorems (hypotheses evaluated on the case)
                if not advs:
                    R.count("theorem-domain:C08_getitem_ellipsis" if any(it[0] == "ell" for it in items) else "theorem-domain:C08_getitem_basic")
                elif c["tree"][2][0][0] == "td" and not any(it[0] == "ell" for it in items):
                    f = index_flags(c["tree"], items)
                    if not f["adv_at_or_before_stack_dim"] and not f["mask_covers_stack_dim"]:
                        R.count("theorem-domain:C08_getitem_adv_after_stack_dim")
                    elif not f["mask_covers_stack_dim"] and not f["int_tensor_alone_on_stack_dim_0"] and \
                            adv_is_before(c["tree"], items):
                        R.count("theorem-domain:C08_getitem_adv_before_stack_dim")
        if k in ("getitem", "setitem") and r["verdict"] in ("ok", "lazy-raise"):
            a = adv_on_top(c["tree"], c["op"][1]["items"])
            flat = c["tree"][2][0][0] == "td"
            if a and a["starts_on"] and a["basic_after"]:
                if a["kind"] == "int" and a["rank"] >= 1 and r["verdict"] == "ok":
                    if k == "getitem":
                        R.count("theorem-domain:C08_getitem_tensor_on_stack_dim" + ("" if flat else " (nested members)"))
                    elif flat and c["op"][2] == "td":
                        R.count("theorem-domain:C08_setitem_tensor_on_stack_dim" + (" rank>=2" if a["rank"] >= 2 else ""))
                if a["kind"] == "mask" and a["rank"] >= 1:
                    R.count("theorem-domain:C08_split_index_mask_on_stack_dim")
                    mk = [it for it in c["op"][1]["items"] if it[0] == "mask"][0]
                    if k == "getitem" and a["rank"] == 1 and flat and r["verdict"] == "ok" and any(mk[2]) and \
                            len(tree_shape(c["tree"])) >= 2:
                        R.count("theorem-domain:C08_getitem_mask1_on_stack_dim_partial")
                    if k == "setitem" and c["op"][2] == "td":
                        R.count("D36-region:write-through-mask-with-None-before:" + r["verdict"] if a["none_before"]
                                else "write-through-mask-no-None-before:" + r["verdict"])
        if k == "update_" and ci in per_case and "write" in per_case[ci]:
            R.count("model-stream:update_ (" + c["op"][1] + ")")
        if k == "unbind" and r["verdict"] == "ok":
            Rk = len(tree_shape(c["tree"]))
            if Rk and norm_d(c["op"][1], Rk) == c["tree"][1]:
                R.count("theorem-domain:C08_unbind_stackdim")
        if k == "transpose" and r["verdict"] == "ok" and c["tree"][2][0][0] == "td":
            R.count("theorem-domain:C08_transpose")
        if k == "unsqueeze" and r["verdict"] == "ok" and c["tree"][2][0][0] == "td":
            R.count("theorem-domain:C08_unsqueeze")
        if r["verdict"] == "fail":
            sig = signature(c, r)
            det = {kk: (vv if len(str(vv)) < 1500 else str(vv)[:1500] + "...") for kk, vv in r["detail"].items()}
            R.oracle_fail("lazy-vs-dense:" + k, c, det, sig)
        if ci in per_case:
            R.traces += compare_case(R, c, r, per_case[ci])
    if spec_bad:
        raise RuntimeError(f"{spec_bad} SPEC-MISMATCH lines: Spec/C08_Dense disagrees with torch (machinery bug)")


def replay(body):
    torch, tensordict = _imports()
    torch.set_num_threads(1)
    if body.get("kind") == "no-failing-input-found":
        print(json.dumps(body, indent=1, default=str)[:6000])
        items = [u for u in body.get("no_longer_checks", []) if "case" in u]
        for u in items[:3]:
            _replay_case(torch, tensordict, u["case"])
        return 0
    print("recorded detail:", json.dumps(body.get("detail"), default=str)[:3000])
    _replay_case(torch, tensordict, body["case"])
    return 0


def _replay_case(torch, tensordict, case):
    print("case:", json.dumps(case))
    r = execute(case, torch, tensordict)
    print("implementation vs dense oracle: verdict =", r["verdict"])
    print("   lazy raised:", r.get("lazy_raised"), " dense raised:", r.get("dense_raised"), " layout:", r.get("layout"))
    if r.get("detail"):
        print("   detail:", json.dumps(r["detail"], default=str)[:3000])
    print("signature:", signature(case, r))
    if r.get("vshape") is not None:
        case = dict(case, vshape=r["vshape"])
    ls = model_lines(case)
    if ls:
        ans = _run_model("C08", [l for _, l in ls])
        for (tag, l), a in zip(ls, ans):
            print(f"model[{tag}]: {l}\n    -> {str(a)[:3000]}")
        if "split" in r:
            print("implementation _split_index:", r["split"][0], norm_split_impl(r["split"][1]) if r["split"][0] == "ok" else r["split"][1])
        if r.get("value") is not None or r.get("lazy_raised"):
            print("implementation observation:", str(impl_read_obs(r))[:3000])
