"""C11 — in-memory serialisation round trips preserve content in every history (DESIGN.md §4 C11)."""
import json
import os
import time

import torch

from . import c11_impl as I
from .c11_impl import BY_SIZE, DT, FORMATS, KEYS, Scratch, call, carried, first_diff, obs, project
from .core import Sym, some, sx

STRUCTURAL = ("set", "del", "rename", "lock", "unlock", "names", "newsub")

# the case being executed is written to a file before every call that could take the process down (a wrong offset in the
# code under test writes out of bounds): when a worker dies, its last trace is the failing input
_TRACE = {"fd": None}


def trace(obj):
    fd = _TRACE["fd"]
    if fd is not None:
        data = json.dumps(obj, default=str).encode()
        os.lseek(fd, 0, 0)
        os.ftruncate(fd, 0)
        os.write(fd, data)


def trace_to(path):
    _TRACE["fd"] = os.open(path, os.O_RDWR | os.O_CREAT, 0o600)


def read_trace(path):
    try:
        return json.loads(open(path).read())
    except Exception:  # noqa: BLE001
        return {"tree": None, "ops": [], "format": "unknown (the process died before its first case)"}


# ------------------------------------------------------------------ generators (R.rng only)
def gen_dtype(rng, mix):
    """mix: a list of element sizes to draw from"""
    return rng.choice(BY_SIZE[rng.choice(mix)])


def gen_leaf(rng, bs, mix, seed):
    feat = rng.choice([[], [], [], [1], [2], [3], [5], [7], [0], [2, 3], [3, 1]])
    shape = list(bs) + feat
    view = rng.choice(["plain"] * 5 + ["offset"] * 3 + ["transpose", "step", "step"])
    return ["t", gen_dtype(rng, mix), shape, view, seed]


def gen_node(rng, bs, mix, depth, ctr, kinds, top=False, extra_ok=True, named=False):
    n = rng.choice([0, 1, 1, 2, 2, 3, 3, 4, 5])
    keys = rng.sample(KEYS, n)
    ents = []
    for k in keys:
        r = rng.random()
        ctr[0] += 1
        if r < 0.18 and depth > 0:
            # (a named tensordict cannot hold a nested one of higher batch rank: `refine_names` raises -- C01's subject)
            sub_bs = list(bs) + (rng.choice([[], [], [2], [1]]) if extra_ok else [])
            ents.append([k, ["td", gen_node(rng, sub_bs, mix, depth - 1, ctr, kinds, extra_ok=extra_ok)]])
        elif r < 0.25 and "nt" in kinds:
            ents.append([k, ["nt", rng.choice(["hello", "x", "a b", ""])]])
        elif r < 0.29 and "njt" in kinds and len(bs) == 1 and bs[0] > 0:
            ents.append([k, ["njt", rng.choice(["int64", "float32", "int16", "uint8"]), [rng.randrange(0, 4) for _ in range(bs[0])],
                             rng.choice([[], [], [2]]), ctr[0], rng.choice([None, False, True, True])]])
        elif r < 0.35 and r >= 0.32 and "tc" in kinds:
            ents.append([k, ["tc", gen_dtype(rng, [m for m in mix if m != 16] or [4]), ctr[0]]])
        elif r < 0.32 and "lazy" in kinds and depth > 0:
            nm = rng.choice([1, 2, 3])
            sd = rng.randrange(0, len(bs) + 1)
            inner = gen_node(rng, list(bs), mix, 0, ctr, set())
            members = []
            for i in range(nm):
                m = json.loads(json.dumps(inner))
                for e in m["ents"]:
                    e[1][4] = e[1][4] + 100 * i
                members.append(m)
            lbs = list(bs)
            lbs.insert(sd, nm)
            # the lazy stack's batch size must extend the parent's: only stack at the end or with equal sizes
            if lbs[:len(bs)] == list(bs) and extra_ok:
                ents.append([k, ["lazy", sd, members]])
            else:
                ents.append([k, gen_leaf(rng, bs, mix, ctr[0])])
        else:
            ents.append([k, gen_leaf(rng, bs, mix, ctr[0])])
    # twins: a second tensor with the dtype / shape / layout of an existing one (re-binding them keeps the metadata equal)
    tens = [e for e in ents if e[1][0] == "t"]
    if tens and len(ents) < len(KEYS) and rng.random() < 0.45:
        src = rng.choice(tens)
        free = [k for k in KEYS if k not in [e[0] for e in ents]]
        ctr[0] += 1
        ents.insert(rng.randrange(len(ents) + 1), [rng.choice(free), ["t", src[1][1], list(src[1][2]), src[1][3], ctr[0]]])
    names = None
    if bs and top and named:
        names = [rng.choice(["x", "y", "z", "w", None]) for _ in bs]
        if len(set(n for n in names if n)) != len([n for n in names if n]):
            names = [f"n{i}" for i in range(len(bs))]
    return {"bs": list(bs), "names": names, "dev": None, "ents": ents}


MIXES = [[1], [2], [4], [8], [16], [1, 16], [1, 8, 16], [2, 16], [4, 16], [1, 2], [1, 4], [1, 2, 4, 8], [1, 2, 4, 8, 16],
         [1, 2, 4, 8, 16], [8, 16], [2, 4]]
BATCHES = [[], [], [1], [2], [2], [3], [3], [2, 2], [3, 1], [0], [2, 0], [4]]


def gen_tree(rng, kinds=("nt", "njt", "lazy", "tc")):
    bs = rng.choice(BATCHES)
    mix = rng.choice(MIXES)
    named = bool(bs) and rng.random() < 0.3
    t = gen_node(rng, bs, mix, 2, [rng.randrange(1000)], set(kinds), top=True, extra_ok=not named, named=named)
    if rng.random() < 0.25:
        t["dev"] = "cpu"

        def setdev(n):
            n["dev"] = "cpu"
            for _, e in n["ents"]:
                if e[0] == "td":
                    setdev(e[1])
        setdev(t)
    return t, mix


def tensor_keys(td, want="tensor"):
    from tensordict.base import TensorDictBase
    from tensordict.utils import is_non_tensor
    out = []

    def go(x, path):
        if type(x).__name__ != "TensorDict":
            return
        for k, v in x.items():
            if isinstance(v, torch.Tensor) and not v.is_nested:
                if want == "tensor":
                    out.append((path, k))
            elif isinstance(v, TensorDictBase) and not is_non_tensor(v):
                if want == "node":
                    out.append((path, k))
                go(v, path + [k])
            if want == "any":
                out.append((path, k))
    go(td, [])
    return out


def node_paths(td):
    return [[]] + [p + [k] for (p, k) in tensor_keys(td, "node") if type(I.get_node(td, p + [k])).__name__ == "TensorDict"]


def gen_op(rng, td, mix, ctr, post, only=None):
    """one history step valid for the live tensordict (structure inspected on the live object)"""
    ctr[0] += 1
    kinds = ["set", "set", "set_", "set_", "copy_", "update_", "del", "rename", "lock", "unlock", "names", "newsub",
             "swap", "swap", "alias"]
    k = rng.choice(list(only) if only else kinds)
    paths = node_paths(td)
    path = rng.choice(paths) if rng.random() < 0.35 else []
    node = I.get_node(td, path)
    used = list(node.keys())
    free = [x for x in KEYS if x not in used]
    tks = [kk for (p, kk) in tensor_keys(td) if p == path]
    if k == "set":
        if tks and rng.random() < 0.5:
            key = rng.choice(tks)
            cur = node.get(key)
            if rng.random() < 0.6:   # same dtype and shape, new object
                return ["set", path, key, ["t", I.DT_BY_TORCH[cur.dtype], list(cur.shape), "plain", ctr[0]]]
            return ["set", path, key, gen_leaf(rng, list(node.batch_size), mix, ctr[0])]
        if free:
            return ["set", path, rng.choice(free), gen_leaf(rng, list(node.batch_size), mix, ctr[0])]
        return None
    if k in ("set_", "copy_", "update_"):
        if not tks:
            return None
        return [k, path, rng.choice(tks), ctr[0]]
    if k in ("swap", "alias"):
        # structural re-binding of existing tensors; twins (same dtype and shape) keep the metadata what it was
        if len(tks) < 2:
            return None
        spec = {kk: (node.get(kk).dtype, tuple(node.get(kk).shape)) for kk in tks}
        pairs = [(a, b) for a in tks for b in tks if a != b]
        twins = [(a, b) for (a, b) in pairs if spec[a] == spec[b]]
        a, b = rng.choice(twins) if twins and rng.random() < 0.85 else rng.choice(pairs)
        return [k, path, a, b]
    if k == "del":
        return ["del", path, rng.choice(used)] if used else None
    if k == "rename":
        return ["rename", path, rng.choice(used), rng.choice(free)] if used and free else None
    if k in ("lock", "unlock"):
        return [k, path if rng.random() < 0.3 else []]
    if k == "names":
        if not td.batch_dims:
            return None
        return ["names", [rng.choice(["x", "u", None]) if i == 0 else rng.choice([f"v{i}", None]) for i in range(td.batch_dims)]]
    if k == "newsub":
        if not free:
            return None
        sub = gen_node(rng, list(node.batch_size), mix, 0, ctr, {"nt"}, extra_ok=False)
        sub["dev"] = None if node.device is None else "cpu"
        if rng.random() < 0.25 and not any(e[1][0] == "t" and e[1][1] == "complex128" for e in sub["ents"]):
            return ["newsub", path, rng.choice(free), sub, {"consolidated": True}]
        return ["newsub", path, rng.choice(free), sub]
    return None


def gen_consolidate(rng):
    o = {"num_threads": rng.choice([None, 0, 0, 1, 4]), "metadata": rng.random() < 0.5}
    r = rng.random()
    if r < 0.15:
        o["share"] = True
    elif r < 0.30:
        o["file"] = True
        o["use_buffer"] = rng.random() < 0.3
    if rng.random() < 0.1 and not o.get("file"):
        o["inplace"] = True
    return o


WRITES = ("set_", "copy_", "update_")


def gen_case(rng, kinds=("nt", "njt", "lazy", "tc")):
    """tree + history.  Profiles: plain (never consolidated), fresh (consolidated last), inplace (only in-place writes after
    consolidation: they go through the storage), mutate (anything after consolidation)"""
    tree, mix = gen_tree(rng, kinds)
    profile = rng.choice(["plain", "fresh", "fresh", "inplace", "inplace", "mutate", "mutate", "mutate"])
    ops = []
    ctr = [rng.randrange(1000)]
    with Scratch() as scratch:
        trace({"tree": tree, "ops": [], "format": "construction"})
        td = I.build(tree)

        def apply(op):
            nonlocal td
            ops.append(op)
            trace({"tree": tree, "ops": ops, "format": "history"})
            td, _ = I.apply_op(td, op, scratch)
        for _ in range(rng.choice([0, 0, 1, 2, 3])):
            op = gen_op(rng, td, mix, ctr, False)
            if op:
                apply(op)
        if profile != "plain":
            apply(["consolidate", gen_consolidate(rng)])
            if profile in ("inplace", "mutate"):
                for _ in range(rng.choice([1, 1, 2, 3, 4])):
                    op = gen_op(rng, td, mix, ctr, True, only=WRITES if profile == "inplace" else None)
                    if op:
                        apply(op)
                if profile == "mutate" and rng.random() < 0.15:
                    ops.append(["consolidate", gen_consolidate(rng)])
    return {"tree": tree, "ops": ops, "mix": mix, "profile": profile}


# ------------------------------------------------------------------ classification (decidable patterns = finding signatures)
PAD_UNIT = 16   # fix: D11 (was 8)


def pad8(n):
    return n + ((PAD_UNIT - n % PAD_UNIT) % PAD_UNIT)


def misaligned16(td):
    """a 16-byte-element leaf whose offset in the 8-byte-padded flat layout is not a multiple of 16 (D11)"""
    start = 0
    for (_, esz, n) in I.flat_leaves(td):
        if esz == 16 and start % 16 != 0:
            return True
        start += pad8(esz * n)
    return False


def unviewable(td):
    """a leaf that cannot be viewed as flat bytes without a copy (torch's own rule, evaluated on the input)"""
    from tensordict.base import is_tensor_collection
    from tensordict.utils import is_non_tensor

    def go(x):
        if hasattr(x, "tensordicts"):
            return any(go(m) for m in x.tensordicts)
        for v in x.values():
            if is_non_tensor(v):
                continue
            if is_tensor_collection(v):
                if go(v):
                    return True
            elif isinstance(v, torch.Tensor) and not v.is_nested:
                if call(lambda: v.view(-1).view(torch.uint8))[0] != "ok":
                    return True
        return False
    return go(td)


def meta_misaligned16(td):
    """the snapshot of a consolidated tensordict places a 16-byte-element leaf at an offset that is not a multiple of 16"""
    m = getattr(td, "_consolidated", None)
    if not m or not m.get("metadata"):
        return False

    def go(md):
        for k, v in md.items():
            if k == "leaves":
                for (dt, _, start, _, _) in v.values():
                    if dt == "torch.complex128" and start % 16:
                        return True
            elif isinstance(v, dict) and k not in ("non_tensors", "cls_metadata"):
                if go(v):
                    return True
        return False
    return go(m["metadata"])


def has_kind(o, kind):
    if isinstance(o, list):
        return o[0] == kind
    if kind == "tc" and o.get("type") not in ("TensorDict", "LazyStackedTensorDict"):
        return True
    if "members" in o:
        return kind == "lazy" or any(has_kind(m, kind) for m in o["members"])
    return any(has_kind(v, kind) for v in o["ents"].values())


def touched(post_ops, diff):
    """is the differing field one that a successful step after the last consolidation changed without going through
    the consolidated storage?  (the exact class of D12: the snapshot is older than the content)"""
    path, field = diff[0], diff[1]
    comps = [c for c in path.split("/") if c]
    for (op, outcome) in post_ops:
        if outcome != "ok":
            continue
        k = op[0]
        if field == "locked" and k in ("lock", "unlock"):
            return True
        if field == "names" and k == "names":
            return True
        if field == "keys" and k in ("set", "del", "rename", "newsub") and list(op[1]) == comps:
            return True
        if k in ("swap", "alias") and (comps[:len(op[1]) + 1] in (list(op[1]) + [op[2]], list(op[1]) + [op[3]])):
            return True
        if k in ("set", "newsub", "del", "rename"):
            # the entry at [path] or an ancestor of it was rebound: everything below it (keys, values, metadata) is newer than the snapshot
            tgt = list(op[1]) + [op[2]]
            if comps[:len(tgt)] == tgt or (k == "rename" and comps[:len(tgt)] == list(op[1]) + [op[3]]):
                return True
    return False


# ------------------------------------------------------------------ running one case against the implementation + oracle
def fmt_plan(rng, quick):
    plan = [("pickle", {}), ("deepcopy", {}), ("consolidate", {"num_threads": rng.choice([None, 0, 1, 4]), "metadata": rng.random() < 0.5,
                                                                "share": rng.random() < 0.2}),
            ("consolidate_file", {"num_threads": rng.choice([None, 0, 1, 4]), "use_buffer": rng.random() < 0.3}),
            ("state_dict", {"mode": rng.choice(["like", "like", "flat", "assign", "pickled"])}),
            ("dict", {"mode": rng.choice(["bs", "bs", "auto", "plain", "any", "dims"])}),
            ("pytree", {"mode": rng.choice(["flatten", "map", "keys"])}),
            ("namedtuple", {"mode": rng.choice(["bs", "bs", "auto"])}),
            ("struct", {})]
    return plan


def applicable(fmt, opt, td, o):
    """formats outside their documented domain are skipped (never counted as failures)"""
    lazy = has_kind(o, "lazy")
    njt = has_kind(o, "njt")
    if has_kind(o, "tc") and fmt in ("dict", "namedtuple", "struct", "state_dict"):
        # a tensorclass entry becomes a plain dict / its own state-dict layout there: the class is not carried
        return False
    if fmt in ("dict", "namedtuple"):
        # a dict has no place for the members of a lazy stack / the raggedness of a nested tensor
        if lazy or njt:
            return False
        if fmt == "namedtuple" and not o["ents"]:
            return True
        return True
    if fmt == "struct":
        # documented domain: flat, batch rank 1, every entry a tensor of exactly the batch shape, numpy-representable dtype
        if len(o["bs"]) != 1 or o["bs"][0] == 0 or not o["ents"]:
            return False
        for v in o["ents"].values():
            if not isinstance(v, list) or v[0] != "t" or v[2] != o["bs"] or v[1] in ("bfloat16",):
                return False
        return True
    if fmt == "state_dict":
        if lazy or njt:
            return False
        if opt.get("mode") == "flat":
            # (flatten_keys of a NAMED tensordict with a nested one of higher batch rank raises in refine_names: C01's subject)
            if o.get("names") and deeper_rank(o, len(o["bs"])):
                return False
            return not any("." in k for k in all_keys(o))
        if opt.get("mode") == "assign":
            # loading into an EMPTY tensordict cannot re-create tensorclass entries (nothing says which class they had)
            return not has_kind(o, "nt")
        return True
    if fmt == "consolidate_file":
        return not td.is_consolidated()   # documented: an already consolidated tensordict ignores all arguments
    if fmt == "pytree":
        # jagged leaves are expanded by the pytree machinery itself; flatten_with_keys of a lazy stack is declared unimplemented
        return not njt and not (lazy and opt.get("mode") == "keys")
    return True


def deeper_rank(o, rank):
    if isinstance(o, list):
        return False
    if "members" in o:
        return True
    return len(o["bs"]) > rank or any(deeper_rank(v, rank) for v in o["ents"].values())


def all_keys(o):
    out = []
    if isinstance(o, dict) and "ents" in o:
        for k, v in o["ents"].items():
            out.append(k)
            out.extend(all_keys(v))
    return out


def has_empty_node(o, root=True):
    if isinstance(o, list):
        return False
    if "members" in o:
        return any(has_empty_node(m, False) for m in o["members"])
    if not root and not o["ents"]:
        return True
    return any(has_empty_node(v, False) for v in o["ents"].values())


def any_locked(o):
    if isinstance(o, list):
        return False
    if o.get("locked"):
        return True
    kids = o.get("members", []) if "members" in o else o["ents"].values()
    return any(any_locked(v) for v in kids)


def cons_info(td, o):
    """facts about one consolidate() call, computed from its input (they are the patterns of the known findings)"""
    return {"threads": o.get("num_threads") or 0, "file": bool(o.get("file")), "use_buffer": bool(o.get("file") and o.get("use_buffer")),
            "inplace": bool(o.get("inplace")),
            "src_locked": any_locked(obs(td)), "src_dev": None if td.device is None else str(td.device),
            "unviewable": unviewable(td), "misaligned16": misaligned16(td)}


def run_case(case, plan, on_result):
    """executes the history on the real code, then every applicable format; calls
    on_result(fmt, opt, before_obs, outcome, after_obs_or_msg, ctx, result_object) for each consolidation step and each format"""
    with Scratch() as scratch:
        td = I.build(case["tree"])
        log = []          # (op, outcome)
        cons_infos = []   # one per consolidate step
        nested_cons = []  # (index in log, path) of nested tensordicts inserted already consolidated
        last_cons = None  # index in log of the consolidation that produced the live object
        cons = None       # its cons_info
        for op in case["ops"]:
            if op[0] == "consolidate":
                before = obs(td)
                was_cons = td.is_consolidated()
                ci = cons_info(td, op[1])
                r = call(lambda: I.do_consolidate(td, op[1], scratch))
                ctx = {"step": len(log), "already_consolidated": was_cons, "post_ops": [], "cons": ci, "consolidated": was_cons}
                ci["effective"] = r[0] == "ok" and not was_cons
                cons_infos.append(ci)
                if r[0] != "ok" and ci["inplace"] and ci["src_locked"] and "locked" in r[1]:
                    # consolidate(inplace=True) rebinds the entries of self: refused on a locked tensordict (not a failure)
                    log.append((op, r[1]))
                    continue
                if r[0] == "ok":
                    after = obs(r[1])
                    if not op[1].get("file"):
                        # (the direct result of consolidate(filename) is not what the property compares: the file read back is)
                        on_result("consolidate", op[1], before, "ok", after, ctx, r[1])
                    if not was_cons:
                        last_cons, cons = len(log), ci
                    td = r[1]
                    log.append((op, "ok"))
                else:
                    on_result("consolidate_file" if op[1].get("file") else "consolidate", op[1], before, "raise", r[1], ctx, None)
                    log.append((op, r[1]))
                continue
            td, outcome = I.apply_op(td, op, scratch)
            if op[0] == "newsub" and len(op) > 4 and outcome == "ok":
                nested_cons.append((len(log), list(op[1]) + [op[2]]))
            log.append((op, outcome))
        before = obs(td)
        post = log[last_cons + 1:] if last_cons is not None else []
        # nested tensordicts inserted after the root's consolidation (or without one) that carry their own snapshot
        nested = [(p_, log[i + 1:]) for (i, p_) in nested_cons if last_cons is None or i > last_cons]
        for (fmt, opt) in plan:
            if not applicable(fmt, opt, td, before):
                continue
            is_cons = td.is_consolidated()
            ctx = {"step": "final", "consolidated": is_cons, "already_consolidated": is_cons, "post_ops": post, "nested": nested,
                   "cons": cons_info(td, dict(opt, file=fmt == "consolidate_file")) if fmt.startswith("consolidate") and not is_cons else cons,
                   "meta_misaligned16": meta_misaligned16(td)}
            trace({"tree": case["tree"], "ops": case["ops"], "format": fmt, "opt": opt})
            r = call(lambda: FORMATS[fmt][0](td, scratch, opt))
            if r[0] != "ok" and fmt == "consolidate" and opt.get("inplace") and before["locked"] and "locked" in r[1]:
                continue
            if r[0] == "ok" and fmt == "struct" and I.misaligned_entries(r[1]):
                # (observing such a tensor would take the process down: the finding is reported instead of the crash)
                on_result(fmt, opt, before, "raise", "MisalignedTensor: from_struct_array returned entries that do not start at a multiple of "
                          "their element size: " + str(I.misaligned_entries(r[1])), ctx, None)
            elif r[0] == "ok":
                rr = call(lambda: obs(r[1]))
                if rr[0] == "ok":
                    on_result(fmt, opt, before, "ok", rr[1], ctx, r[1])
                else:
                    on_result(fmt, opt, before, "raise", "observation of the result: " + rr[1], ctx, None)
            else:
                on_result(fmt, opt, before, "raise", r[1], ctx, None)
            # no format may change the tensordict it serialises
            again = obs(td)
            if again != before:
                on_result(fmt + ":source-changed", opt, before, "ok", again, ctx, None)
        log.append(("cons_infos", cons_infos, last_cons, cons, nested))
        return td, log


def struct_misaligned(o):
    """packed numpy record: some field's element size does not divide the record size (finding D111)"""
    sizes = [DT[v[1]][1] for v in o["ents"].values() if isinstance(v, list) and v[0] == "t" and v[1] in DT]
    tot = sum(sizes)
    return any(tot % s for s in sizes)


def struct_offset_may_misalign(o):
    """packed numpy record: some field's size is not a multiple of another field's size, so that a field can sit at an
    offset that is not a multiple of its own size (finding D118; the observation only has the key SET, not the order)"""
    sizes = [DT[v[1]][1] for v in o["ents"].values() if isinstance(v, list) and v[0] == "t" and v[1] in DT]
    return any(t % s for s in sizes for t in sizes)


RESERVED = ("leaves", "cls", "non_tensors", "cls_metadata", "size")


def unstackable_lazy(o):
    """a lazy stack whose members hold, under one key, tensors of different shapes or jagged tensors (D117)"""
    if isinstance(o, list):
        return False
    if "members" in o:
        seen = {}
        for m in o["members"]:
            if unstackable_lazy(m):
                return True
            for k, v in (m.get("ents") or {}).items():
                if isinstance(v, list) and v[0] == "njt":
                    return True
                if isinstance(v, list) and v[0] == "t" and seen.setdefault(k, v[2]) != v[2]:
                    return True
        return False
    return any(unstackable_lazy(v) for v in o["ents"].values())


MARKERS = ("<NJT>", "<NJT_VALUES>", "<NJT_LENGTHS>", "<NJT_OFFSETS>")


def marker_key(o):
    """an entry whose key starts with a marker of the consolidated codec, or a nested tensordict under a "<TD>..." key (D116)"""
    if isinstance(o, list) or "ents" not in o:
        return any(marker_key(m) for m in o.get("members", [])) if isinstance(o, dict) else False
    for k, v in o["ents"].items():
        if k.startswith(MARKERS) or (isinstance(v, dict) and k.startswith("<TD>")) or marker_key(v):
            return True
    return False


def has_reserved_sub(o):
    """a nested tensordict whose key is a field name of the metadata dict (D115)"""
    if isinstance(o, list) or "ents" not in o:
        return False
    return any((isinstance(v, dict) and k in RESERVED) or has_reserved_sub(v) for k, v in o["ents"].items())


def explain(base_fmt, outcome, after, d, ctx, before):
    """the decidable input pattern of a known finding that accounts for this failure, or 'unexplained'"""
    ci = ctx.get("cons") or {}
    if base_fmt in ("pickle", "deepcopy") and ctx["consolidated"] and has_reserved_sub(before) \
            and (outcome == "raise" or d[1] in ("keys", "kind")):
        return "nested-key-is-a-metadata-field"
    if marker_key(before) and (base_fmt in ("consolidate", "consolidate_file") or ctx["consolidated"]) \
            and (outcome == "raise" or d[1] in ("keys", "kind")):
        return "key-starts-with-codec-marker"
    if outcome == "raise":
        if base_fmt in ("consolidate", "consolidate_file") and not ctx["already_consolidated"]:
            if "Failed to stack tensors" in after and unstackable_lazy(before):
                return "lazy-stack-unstackable"
            if ci.get("misaligned16") and "must be divisible by 16" in after:
                return "elsize16-misaligned"
            if ci.get("threads", 0) >= 1 and ci.get("unviewable") and "RuntimeError" in after and "view" in after:
                return "noncontiguous-leaf-threaded"
        if base_fmt in ("pickle", "deepcopy") and ctx["consolidated"]:
            if ctx.get("meta_misaligned16") and "must be divisible by 16" in after:
                return "elsize16-misaligned"
            if ci.get("use_buffer"):
                return "use_buffer-storage"
        if base_fmt == "struct" and struct_misaligned(before) and "ValueError" in after:
            return "packed-record-unaligned-field"
        if base_fmt == "struct" and "MisalignedTensor" in after and struct_offset_may_misalign(before):
            return "packed-record-misaligned-offset"
        return "unexplained"
    field = d[1]
    if base_fmt in ("pickle", "deepcopy"):
        comps = [c for c in d[0].split("/") if c]
        for (p_, later) in ctx.get("nested", []):
            if comps[:len(p_)] == p_ and touched(later, d):
                return "consolidated-then-modified"     # D12 on a nested object: its own snapshot is older than its content
    if base_fmt in ("pickle", "deepcopy") and ctx["consolidated"]:
        if touched(ctx["post_ops"], d):
            return "consolidated-then-modified"
        if field == "locked" and ci.get("src_locked") and not any(o[0] in ("lock", "unlock") and oc == "ok" for (o, oc) in ctx["post_ops"]):
            return "source-locked-at-consolidation"
        if field == "dev" and ci.get("file") and ci.get("src_dev") is None and d[2] == "cpu" and d[3] is None:
            return "file-consolidated-device"
        if field == "values" and ci.get("threads", 0) > 1 and ci.get("unviewable"):
            return "noncontiguous-leaf-threaded"
    if base_fmt == "consolidate" and not ctx["already_consolidated"] and field == "locked" and d[2] is True and d[3] is False:
        return "locked-source"
    if base_fmt == "consolidate_file" and field == "values" and ci.get("threads", 0) > 1 and ci.get("unviewable"):
        return "noncontiguous-leaf-threaded"
    if base_fmt == "pytree" and field == "dev" and ctx["consolidated"] and ci.get("file") and ci.get("src_dev") is None and d[2] == "cpu" \
            and d[3] is None and has_kind(before, "nt"):
        return "file-consolidated-device"
    return "unexplained"


def judge(R, case, fmt, opt, before, outcome, after, ctx):
    """the spec oracle: decode(encode(td)) equals td on every field the format carries"""
    full = {"tree": case["tree"], "ops": case["ops"], "format": fmt, "opt": opt, "step": ctx["step"]}
    base_fmt = fmt.split(":")[0]
    sig = {"call": base_fmt}
    if fmt.endswith(":source-changed"):
        d = first_diff(before, after)
        R.oracle_fail(fmt, full, {"field": d[1], "at": d[0], "before": d[2], "after": d[3]}, dict(sig, pattern="source-changed", field=d[1]))
        return
    if outcome == "raise" and base_fmt in ("consolidate", "consolidate_file") and (ctx.get("cons") or {}).get("file") \
            and has_kind(before, "tc") and "Failed to convert the metatdata to json" in after:
        return   # declared limitation: the json metadata of a file cannot name a custom tensorclass
    if outcome == "raise":
        pattern = explain(base_fmt, outcome, after, None, ctx, before)
        if base_fmt == "consolidate_file" and pattern in ("elsize16-misaligned", "noncontiguous-leaf-threaded", "lazy-stack-unstackable"):
            sig["call"] = "consolidate"
        R.oracle_fail(fmt + ":raises", full, {"exception": after}, dict(sig, pattern=pattern, kind="raises"))
        return
    c = carried(base_fmt, opt)
    d = first_diff(project(before, c), project(after, c))
    if d is None:
        return
    pattern = explain(base_fmt, outcome, after, d, ctx, before)
    if base_fmt == "consolidate_file" and pattern == "noncontiguous-leaf-threaded":
        sig["call"] = "consolidate"
    R.oracle_fail(fmt + ":" + d[1], full, {"field": d[1], "at": d[0], "serialised": d[2], "restored": d[3]},
                  dict(sig, pattern=pattern, field=d[1]))


# ------------------------------------------------------------------ model side: live tensordict -> model tree
PAYLOADS = ["hello", "x", "a b", "", "hi"]


def names_sx(names, rank):
    if names is None:
        return [None] * rank
    return [None if n is None else [Sym("some"), n] for n in names]


def leaf_sx(v):
    dt = I.DT_BY_TORCH[v.dtype]
    return [DT[dt][2], DT[dt][1], list(v.shape), I.leaf_bytes(v)]


def storage_of(td):
    c = getattr(td, "_consolidated", None)
    return c["storage"] if c else None


def view_of(v, storage):
    """Some offset when the tensor is a view of the consolidated storage (identity of the untyped storage, never addresses)"""
    if storage is None or v.numel() == 0:
        return None
    if v.untyped_storage().data_ptr() != storage.untyped_storage().data_ptr():
        return None
    return v.storage_offset() * v.element_size() - storage.storage_offset()


def to_model(td, storage=None):
    """live TensorDict -> model tree (sexp as nested lists), None when something in it is outside the model (lazy stacks,
    jagged tensors, non-tensor stacks, unknown payloads)"""
    from tensordict import LazyStackedTensorDict
    from tensordict.base import TensorDictBase
    from tensordict.utils import is_non_tensor
    if type(td).__name__ != "TensorDict":
        return None
    ents = []
    for k, v in td.items():
        if k.startswith(MARKERS) or k.startswith("<TD>"):
            return None     # keys the codec mistakes for its markers (D116): Model/C11_Jagged.v has them, Model/C11_Tree.v does not
        if is_non_tensor(v):
            if isinstance(v, LazyStackedTensorDict) or v.data not in PAYLOADS:
                return None
            ents.append([Sym("nt"), k, PAYLOADS.index(v.data), list(v.batch_size)])
        elif isinstance(v, TensorDictBase):
            sub = to_model(v, storage)
            if sub is None:
                return None
            ents.append([Sym("td"), k, sub])
        elif isinstance(v, torch.Tensor) and not v.is_nested and v.dtype in I.DT_BY_TORCH:
            w = view_of(v, storage)
            ents.append([Sym("t"), k, leaf_sx(v), None if w is None else [Sym("some"), w]])
        else:
            return None
    names = list(td.names) if td._has_names() else None
    meta = [list(td.batch_size), names_sx(names, td.batch_dims), None if td.device is None else [Sym("some"), 0], bool(td.is_locked)]
    return [Sym("node"), meta, ents]


def opt_of(x):
    return None if x == "none" else x[1]


def model_obs(t, views=None, path=""):
    """model tree (parsed sexp) -> the same canonical form as c11_impl.obs; collects view flags into [views]"""
    _, meta, ents = t
    bs, names, dev, lk = meta
    names = [opt_of(n) for n in names]
    if all(n is None for n in names):
        names = None
    out = {}
    for e in ents:
        kind, k = e[0], str(e[1])
        if kind == "t":
            dtid, esz, shape, by = e[2]
            out[k] = ["t", I.DT_BY_ID[dtid], list(shape), list(by)]
            if views is not None and by:
                views[path + "/" + k] = opt_of(e[3])
        elif kind == "nt":
            out[k] = ["nt", repr(PAYLOADS[e[2]]), list(e[3])]
        else:
            out[k] = model_obs(e[2], views, path + "/" + k)
    return {"type": "TensorDict", "bs": list(bs), "names": names, "dev": None if dev == "none" else "cpu", "locked": lk == "t",
            "ents": dict(sorted(out.items()))}


def impl_views(td, storage, path=""):
    from tensordict.base import TensorDictBase
    from tensordict.utils import is_non_tensor
    out = {}
    for k, v in td.items():
        if is_non_tensor(v):
            continue
        if isinstance(v, TensorDictBase):
            out.update(impl_views(v, storage, path + "/" + k))
        elif v.numel():
            out[path + "/" + k] = view_of(v, storage)
    return out


def meta_records(md, path=""):
    """the leaf records of a real metadata dict, as {path: [dtype, shape, start, stop, pad]} + the per-node cls_metadata"""
    recs, nodes = {}, {}

    def go(m, p):
        cm = m["cls_metadata"]
        names = cm.get("names")
        if names is not None and all(n is None for n in names):
            names = None
        nodes[p or "/"] = [list(cm["batch_size"]), names, cm.get("device"), bool(cm.get("is_locked"))]
        for k, r in m["leaves"].items():
            recs[p + "/" + k] = [r[0].replace("torch.", ""), list(r[1]), r[2], r[3], r[4]]
        for k, v in m.items():
            if k not in ("cls", "non_tensors", "leaves", "cls_metadata"):
                go(v, p + "/" + (k[4:] if k.startswith("<TD>") else k))   # (fix: D115 escapes reserved names)
    go(md, path)
    return recs, nodes


def model_meta_records(mt, path=""):
    recs, nodes = {}, {}

    def go(m, p):
        _, meta, nts, lvs, subs = m
        bs, names, dev, lk = meta
        names = [opt_of(n) for n in names]
        if all(n is None for n in names):
            names = None
        nodes[p or "/"] = [list(bs), names, None if dev == "none" else "cpu", lk == "t"]
        for (k, dtid, esz, shape, sg) in lvs:
            recs[p + "/" + str(k)] = [I.DT_BY_ID[dtid], list(shape), sg[0], sg[1], sg[2]]
        for (k, sub) in subs:
            go(sub, p + "/" + str(k))
    go(mt, path)
    return recs, nodes


def model_ops(td, op, scratch_td=None):
    """the model's spelling of a history step, computed against the live object BEFORE the step (None = not modelled)"""
    k = op[0]
    if k == "set":
        t = I.build_entry(op[3], {"bs": []})
        return [Sym("set"), list(op[1]), op[2], leaf_sx(t)]
    if k in WRITES:
        try:
            cur = I.get_node(td, op[1]).get(op[2])
            new = I.make_tensor(I.DT_BY_TORCH[cur.dtype], list(cur.shape), "plain", op[3])
        except Exception:  # noqa: BLE001
            return None
        return [Sym("write"), list(op[1]), op[2], I.leaf_bytes(new)]
    if k in ("swap", "alias"):
        return [Sym(k), list(op[1]), op[2], op[3]]
    if k == "del":
        return [Sym("del"), list(op[1]), op[2]]
    if k == "rename":
        return [Sym("rename"), list(op[1]), op[2], op[3]]
    if k in ("lock", "unlock"):
        return [Sym(k), list(op[1])]
    if k == "names":
        return [Sym("names"), names_sx(op[1], len(op[1]))]
    if k == "newsub":
        if len(op) > 4:
            return None     # a nested tensordict with its own snapshot: the model has one snapshot per object (oracle only)
        sub = to_model(I.build(op[3]))
        return None if sub is None else [Sym("newsub"), list(op[1]), op[2], sub]
    if k == "consolidate":
        o = op[1]
        if o.get("inplace"):
            return None
        return [Sym("consolidate"), bool(o.get("file"))]
    return None


def exec_case(case, plan):
    """runs one case on the implementation; returns a JSON-able record: oracle inputs + everything the model comparison needs"""
    rec = {"case": case, "results": [], "model": None}
    results = rec["results"]
    keep = {}

    def on_result(fmt, opt, before, outcome, after, ctx, obj):
        results.append([fmt, opt, before, outcome, after, ctx])
        if obj is not None and ctx["step"] == "final":
            keep[fmt] = obj
    # model spelling of the history (needs the live object before each step): a second, identical run
    mops, modelable = [], True
    with Scratch() as scratch:
        td = I.build(case["tree"])
        t0 = to_model(td)
        if t0 is None:
            modelable = False
        aliased = False
        for op in case["ops"]:
            if not modelable:
                break
            if op[0] == "alias":
                aliased = True
            elif aliased and op[0] in WRITES:
                modelable = False   # one tensor under two keys: an in-place write shows under both (the model keeps one copy per key)
                break
            m = model_ops(td, op)
            if m is None:
                modelable = False
                break
            mops.append(m)
            td, _ = I.apply_op(td, op, scratch)
    td, log = run_case(case, plan, on_result)
    cons_infos = log.pop()[1]
    # known silent-corruption / unsupported configurations are outside the correspondence (the oracle still judges them):
    # worker threads (failures swallowed or raised where the single-thread path copies), the use_buffer storage
    # (before the repairs D113 / D112: worker threads on strided leaves and the use_buffer storage were excluded here)
    file_cons = any(op[0] == "consolidate" and op[1].get("file") for op in case["ops"])
    if modelable:
        storage = storage_of(td)
        m = {"t0": t0, "ops": mops, "outcomes": [oc == "ok" for (_, oc) in log], "final": obs(td), "views": impl_views(td, storage),
             "consolidated": td.is_consolidated()}
        if storage is not None and td._consolidated.get("metadata") is not None:
            guard_fn = getattr(__import__("tensordict._reductions", fromlist=["x"]), "_consolidated_is_current", None)
            # (a 0-size tensor has no memory: whether the guard sees it as a view of the storage is a matter of null pointers)
            if guard_fn is not None and all(n for (_, _, n) in I.flat_leaves(td)):
                v = call(lambda: bool(guard_fn(td, td._consolidated)))
                m["current"] = v[1] if v[0] == "ok" else "raise"
            m["storage"] = storage.reshape(-1).tolist()
            m["meta"] = meta_records(td._consolidated["metadata"])
        for (fmt, opt, before, outcome, after, ctx) in results:
            if fmt == "pickle" and ctx["step"] == "final":
                m["pickle"] = [outcome, after if outcome == "ok" else after.split(":")[0]]
                if outcome == "ok":
                    m["pickle_views"] = impl_views(keep["pickle"], storage_of(keep["pickle"]))
            if ctx["step"] == "final" and outcome == "ok" and fmt in ("dict", "pytree", "state_dict"):
                mode = opt.get("mode")
                if fmt == "dict" and mode in ("bs", "any"):
                    m["dict"] = [to_model(td, storage), list(td.batch_size), after]
                if fmt == "pytree" and not file_cons:
                    # (after consolidate(filename) the non-tensor entries keep device None inside a cpu tensordict: D114)
                    m["pytree"] = [to_model(td, storage), after]
                if fmt == "state_dict" and mode in ("like", "pickled"):
                    tgt = to_model(I.zero_target(td, reset_bs=True))
                    if tgt is not None:
                        m["state_dict"] = [to_model(td, storage), tgt, after]
        rec["model"] = m
    return rec


FULL = {"bs", "nested_bs", "names", "dev", "locked"}


def compare_model(R, recs):
    """extracted model vs implementation on the recorded cases"""
    lines, index = [], []
    for ri, rec in enumerate(recs):
        m = rec["model"]
        if not m:
            continue
        index.append((ri, "hist", len(lines)))
        lines.append(sx([Sym("hist"), m["t0"], m["ops"]]))
        for f in ("dict", "pytree", "state_dict"):
            if f in m and m[f][0] is not None:
                index.append((ri, f, len(lines)))
                if f == "dict":
                    lines.append(sx([Sym("dict"), m[f][0], m[f][1]]))
                elif f == "pytree":
                    lines.append(sx([Sym("pytree"), m[f][0]]))
                else:
                    lines.append(sx([Sym("state-dict"), m[f][0], m[f][1]]))
    if not lines:
        return
    out = R.model(lines)
    for (ri, kind, li) in index:
        rec, m, res = recs[ri], recs[ri]["model"], out[li]
        case = {"tree": rec["case"]["tree"], "ops": rec["case"]["ops"], "format": "model:" + kind}
        R.traces += 1
        if isinstance(res, list) and res and res[0] == "decode-error":
            R.mismatch("protocol", case, "n/a", res)
            continue
        if kind == "hist":
            outs, st, pk, cur_ok = res
            mo = [o == "t" for o in outs]
            if mo != m["outcomes"]:
                R.mismatch("history:step-outcomes", case, m["outcomes"], mo)
                continue
            views = {}
            cur = model_obs(st[0], views)
            d = first_diff(project(m["final"], FULL | {"type"}), project(cur, FULL | {"type"}))
            if d:
                R.mismatch("history:live-object", case, {"at": d[0], "field": d[1], "impl": d[2]}, {"model": d[3]})
                continue
            if (st[1] != "none") != m["consolidated"]:
                R.mismatch("history:is_consolidated", case, m["consolidated"], st[1] != "none")
                continue
            if m["consolidated"] and views != m["views"]:
                R.mismatch("history:views-of-the-storage", case, m["views"], views)
                continue
            if "meta" in m and st[1] != "none":
                mrec = model_meta_records(st[1][1])
                if [mrec[0], mrec[1]] != [m["meta"][0], m["meta"][1]]:
                    R.mismatch("consolidate:metadata", case, m["meta"], mrec)
                    continue
                if list(st[1][2]) != m["storage"]:
                    R.mismatch("consolidate:storage-bytes", case, m["storage"][:64], list(st[1][2])[:64])
                    continue
            if "current" in m and m["current"] != (cur_ok == "t"):
                # the guard of the reducer (_consolidated_is_current) against the model's snapshot_current
                R.mismatch("pickle:snapshot-is-current-verdict", case, m["current"], cur_ok == "t")
                continue
            if "pickle" in m:
                if pk[0] == "raised":
                    if m["pickle"][0] == "ok":
                        R.mismatch("pickle:outcome", case, "ok", pk)
                elif m["pickle"][0] != "ok":
                    R.mismatch("pickle:outcome", case, m["pickle"], "ok")
                else:
                    pviews = {}
                    po = model_obs(pk[1][0], pviews)
                    d = first_diff(project(m["pickle"][1], FULL | {"type"}), project(po, FULL | {"type"}))
                    if d:
                        R.mismatch("pickle:result", case, {"at": d[0], "field": d[1], "impl": d[2]}, {"model": d[3]})
                    elif m["consolidated"] and pviews != m["pickle_views"]:
                        R.mismatch("pickle:views-of-the-storage", case, m["pickle_views"], pviews)
        else:
            after = m[kind][-1]
            if kind == "pytree":
                if res == "bad-arity":
                    R.mismatch("pytree:arity", case, "ok", res)
                    continue
                mo = model_obs(res[1])
                car = FULL
            elif res == "unmodelled":
                R.count("model:state_dict-outside-domain")
                continue
            elif res[0] == "raised":
                R.mismatch(kind + ":outcome", case, "ok", res)
                continue
            else:
                mo = model_obs(res[1])
                # (names are not carried by a state dict; what the freshly built target shows is not compared)
                car = FULL - {"names"} if kind == "state_dict" else FULL
            d = first_diff(project(after, car), project(mo, car))
            if d:
                R.mismatch(kind + ":result", case, {"at": d[0], "field": d[1], "impl": d[2]}, {"model": d[3]})


def guard(R, label, case, f):
    """runs a block that touches the code under test; an exception that escapes is reported as an oracle failure"""
    try:
        return f()
    except Exception as e:  # noqa: BLE001
        import traceback
        where = traceback.format_exc().strip().split("\n")[-3].strip()[:160]
        R.oracle_fail(label + ":unexpected-exception", case, {"exception": type(e).__name__ + ": " + str(e)[:200], "where": where},
                      {"call": label, "kind": "crash", "pattern": "unexplained"})
        return None


# ------------------------------------------------------------------ layout grid: _reduce_vals_and_metadata / storage / decoder
GRID_SIZES = [(1, "uint8"), (2, "int16"), (4, "int32"), (8, "int64"), (16, "complex128")]
GRID_SHAPES = [[0], [1], [3], [8], [2, 3]]


def layout_grid(R, maxlen, sample):
    import itertools
    import pickle
    alpha = [(e, dt, sh) for (e, dt) in GRID_SIZES for sh in GRID_SHAPES]
    seqs = []
    for n in range(0, maxlen + 1):
        seqs.extend(itertools.product(alpha, repeat=n))
    if sample is not None and len(seqs) > sample:
        head = [s for s in seqs if len(s) <= 2]
        rest = [s for s in seqs if len(s) > 2]
        seqs = head + R.rng.sample(rest, min(len(rest), max(0, sample - len(head))))
    lines, meta = [], []

    def one(seq, case):
        td = I.build(case["tree"])
        leaves = [td.get(f"k{i}") for i in range(len(seq))]
        mis = misaligned16(td)
        r = call(lambda: td.consolidate(metadata=True))
        if r[0] != "ok":
            sig = {"call": "consolidate", "kind": "raises", "pattern": "elsize16-misaligned" if mis and "must be divisible by 16" in r[1] else "unexplained"}
            R.oracle_fail("consolidate:raises", case, {"exception": r[1]}, sig)
            impl = ("raise",)
        else:
            c = r[1]
            # oracle first: content equal, and the pickled copy equal
            d = first_diff(obs(td), obs(c))
            if d:
                R.oracle_fail("consolidate:" + d[1], case, {"field": d[1], "at": d[0], "serialised": d[2], "restored": d[3]},
                              {"call": "consolidate", "pattern": "unexplained", "field": d[1]})
            rp = call(lambda: obs(pickle.loads(pickle.dumps(c))))
            if rp[0] != "ok" or first_diff(obs(c), rp[1]):
                R.oracle_fail("pickle:grid", case, {"result": str(rp)[:200]}, {"call": "pickle", "pattern": "unexplained"})
            recs, _ = meta_records(c._consolidated["metadata"])
            impl = ("ok", [recs["/k%d" % i][2:] for i in range(len(seq))], c._consolidated["storage"].tolist(),
                    [I.leaf_bytes(c.get(f"k{i}")) for i in range(len(seq))])
        return impl, leaves

    for seq in seqs:
        tree = {"bs": [], "names": None, "dev": None,
                "ents": [[f"k{i}", ["t", dt, sh, "plain", 3 * i + 1]] for i, (e, dt, sh) in enumerate(seq)]}
        case = {"tree": tree, "ops": [], "format": "layout-grid"}
        R.case(("grid", json.dumps(seq)), nontrivial=len(seq) > 0, sample=case if len(seq) == 3 and len(R.samples) < 2 else None)
        R.count("grid:len%d" % len(seq))
        trace(case)
        got = guard(R, "consolidate", case, lambda: one(seq, case))
        if got is None:
            continue
        impl, leaves = got
        lines.append(sx([Sym("layout"), True, [[e, sh] for (e, dt, sh) in seq]]))
        lines.append(sx([Sym("encode"), True, [leaf_sx(v) for v in leaves]]))
        meta.append((case, seq, impl, leaves))
    out = R.model(lines)
    dec_lines, dec_idx = [], []
    for i, (case, seq, impl, leaves) in enumerate(meta):
        lay, enc = out[2 * i], out[2 * i + 1]
        segs, tot = lay
        R.traces += 1
        aligned = all(sg[0] % e == 0 for sg, (e, _, _) in zip(segs, seq))
        if impl[0] == "raise":
            if aligned:
                R.mismatch("layout:raise-but-model-aligned", case, "raise", segs)
            continue
        if not aligned:
            R.mismatch("layout:model-misaligned-but-no-raise", case, "ok", segs)
            continue
        if [list(s) for s in segs] != impl[1]:
            R.mismatch("layout:records", case, impl[1], segs)
            continue
        if list(enc) != impl[2] or tot != len(impl[2]):
            R.mismatch("layout:storage-bytes", case, impl[2][:64], list(enc)[:64])
            continue
        for j, ((e, dt, sh), sg) in enumerate(zip(seq, segs)):
            dec_idx.append((case, j, impl[3][j], (DT[dt][2], e, sh)))
            dec_lines.append(sx([Sym("decode"), list(enc), DT[dt][2], e, sh, sg[0], sg[1], sg[2]]))
    for (case, j, want, (dtid, e, sh)), got in zip(dec_idx, R.model(dec_lines)):
        R.traces += 1
        if not (isinstance(got, list) and got[0] == "ok" and list(got[1][3]) == want and list(got[1][2]) == list(sh)):
            R.mismatch("decode:leaf", dict(case, leaf=j), want[:32], got)


# ------------------------------------------------------------------ jagged nested tensors: 0..3 per node, with / without lengths
def jagged_tree(flags, where, seed=0):
    """[flags]: one bool per jagged tensor, in key order (True = built with lengths); a plain leaf sits between them"""
    def ents(tag):
        out = []
        for i, fl in enumerate(flags):
            out.append([f"{tag}j{i}", ["njt", ["int64", "float32", "int16"][(i + seed) % 3], [2 + (i + seed) % 2, 1, 3], [] if i % 2 == 0 else [2],
                                       10 * i + seed + 1, fl]])
            if i == 0:
                out.append([f"{tag}m", ["t", "int8", [3], "plain", 7 + seed]])
        return out
    root = {"bs": [3], "names": None, "dev": None, "ents": []}
    if where in ("root", "both"):
        root["ents"] += ents("r")
    root["ents"].append(["a", ["t", "float32", [3, 2], "plain", 3]])
    if where in ("nested", "both"):
        root["ents"].append(["n", ["td", {"bs": [3], "names": None, "dev": None, "ents": ents("n")}]])
    return root


def jagged_grid(R):
    import itertools
    recs = []
    for where in ("root", "nested", "both"):
        for n in range(0, 4):
            for flags in itertools.product([True, False], repeat=n):
                for nt in ((0, 2) if n else (0,)):
                    tree = jagged_tree(list(flags), where, seed=n)
                    for ops, plan in (([["consolidate", {"metadata": True, "num_threads": nt}]], [("pickle", {}), ("deepcopy", {})]),
                                      ([], [("consolidate_file", {"num_threads": nt}), ("consolidate", {"num_threads": nt, "metadata": True})])):
                        case = {"tree": tree, "ops": ops, "profile": "jagged-grid"}
                        trace(dict(case, format=plan[0][0]))
                        try:
                            recs.append(exec_case(case, plan))
                        except Exception as e:  # noqa: BLE001
                            recs.append({"case": case, "results": [], "model": None, "crash": type(e).__name__ + ": " + str(e)[:200]})
                        R.count("jagged-grid:%d-tensors" % n)
    consume(R, recs)



# ------------------------------------------------------------------ the codec with jagged tensors / lazy stacks / tensorclasses
def to_jmodel(td):
    """live tensor collection -> model jtree (Model/C11_Jagged.v), None when something in it is outside that model
    (non-tensor stacks, unknown payloads / dtypes)"""
    from tensordict import LazyStackedTensorDict
    from tensordict.base import TensorDictBase
    from tensordict.utils import is_non_tensor
    from tensordict.tensorclass import is_tensorclass
    if isinstance(td, LazyStackedTensorDict):
        ents = []
        for i, m in enumerate(td.tensordicts):
            sub = to_jmodel(m)
            if sub is None:
                return None
            ents.append([Sym("td"), str(i), sub])
        return [Sym("jnode"), [Sym("lazy"), td.stack_dim, some(td._td_dim_name), bool(td.is_locked)], ents]
    tc = is_tensorclass(td)
    inner = td._tensordict if tc else td
    if type(inner).__name__ != "TensorDict":
        return None
    ents = []
    for k, v in inner.items():
        if is_non_tensor(v):
            if isinstance(v, LazyStackedTensorDict) or v.data not in PAYLOADS:
                return None
            ents.append([Sym("nt"), k, PAYLOADS.index(v.data), list(v.batch_size)])
        elif isinstance(v, TensorDictBase) or is_tensorclass(v):
            sub = to_jmodel(v)
            if sub is None:
                return None
            ents.append([Sym("td"), k, sub])
        elif isinstance(v, torch.Tensor) and v.is_nested:
            if v.layout is not torch.jagged or v._values.dtype not in I.DT_BY_TORCH:
                return None
            ents.append([Sym("njt"), k, leaf_sx(v._values), None if v._lengths is None else [Sym("some"), leaf_sx(v._lengths)],
                         leaf_sx(v._offsets)])
        elif isinstance(v, torch.Tensor) and v.dtype in I.DT_BY_TORCH:
            ents.append([Sym("t"), k, leaf_sx(v)])
        else:
            return None
    names = list(inner.names) if inner._has_names() else None
    meta = [list(inner.batch_size), names_sx(names, inner.batch_dims), None if inner.device is None else [Sym("some"), 0], bool(inner.is_locked)]
    return [Sym("jnode"), [Sym("tc"), 0, meta] if tc else [Sym("td"), meta], ents]


def jmeta_of(md):
    """a real metadata dict in the printed form of the model's jmtree"""
    cm = md["cls_metadata"]
    if md["cls"] == "LazyStackedTensorDict":
        cls = [Sym("lazy"), cm["stack_dim"], some(cm["stack_dim_name"]), bool(cm["is_locked"])]
    else:
        meta = [list(cm["batch_size"]), names_sx(cm["names"], len(cm["batch_size"])), None if cm["device"] is None else [Sym("some"), 0],
                bool(cm["is_locked"])]
        cls = [Sym("td"), meta] if md["cls"] == "TensorDict" else [Sym("tc"), 0, meta]
    nts = [[k, PAYLOADS.index(v[0]), list(v[1])] for k, v in md["non_tensors"].items()]
    lvs = []
    for k, r in md["leaves"].items():
        dt = r[0].replace("torch.", "")
        lvs.append([k, DT[dt][2], DT[dt][1], list(r[1]), [r[2], r[3], r[4]]])
    subs = [[k, jmeta_of(v)] for k, v in md.items() if k not in ("cls", "non_tensors", "leaves", "cls_metadata")]
    return [Sym("mnode"), cls, nts, lvs, subs]


def jfeatures(t):
    """which of the newly modelled node / leaf kinds a jtree uses"""
    out = set()

    def go(n):
        out.add(str(n[1][0]))
        for e in n[2]:
            if e[0] == "njt":
                out.add("njt+lengths" if e[3] is not None else "njt")
            elif e[0] == "td":
                go(e[2])
    go(t)
    return out


def jcodec_trees(R, n):
    import itertools
    trees = []
    for where in ("root", "nested", "both"):
        for k in range(1, 4):
            for flags in itertools.product([True, False], repeat=k):
                trees.append(jagged_tree(list(flags), where, seed=k))
    # lazy stacks (members with different key sets, nested in / holding jagged tensors), tensorclass nodes, markers-free odd keys
    mem = lambda i, extra: {"bs": [3], "names": None, "dev": None,  # noqa: E731
                            "ents": [["x", ["t", "int16", [3], "plain", 5 + i]], ["y", ["t", "uint8", [3, 2], "plain", 9 + i]]] + extra}
    trees.append({"bs": [2, 3], "names": None, "dev": None, "ents": [["l", ["lazy", 0, [mem(0, []), mem(1, [["w", ["t", "int64", [3], "plain", 2]]])]]],
                                                                   ["z", ["t", "uint8", [2, 3], "plain", 1]]]})
    trees.append({"bs": [3], "names": None, "dev": None, "ents": [["z", ["t", "uint8", [3], "plain", 1]],
                                                                ["l", ["lazy", 1, [mem(0, [["j", ["njt", "int16", [2, 0, 1], [], 3, True]]]),
                                                                                  mem(1, [["j", ["njt", "int16", [1, 1, 1], [], 4, False]]]),
                                                                                  mem(2, [["j", ["njt", "int16", [0, 2, 2], [], 5, None]]])]]],
                                                                ["c", ["tc", "int32", 4]], ["leaves", ["td", mem(7, [["s", ["nt", "hello"]]])]]]})
    trees.append({"bs": [3], "names": ["t"], "dev": "cpu", "ents": [["c", ["tc", "float32", 4]], ["<x", ["t", "int8", [3], "plain", 1]],
                                                                   ["a>", ["njt", "int64", [1, 2, 3], [2], 6, True]]]})
    for _ in range(n):
        trees.append(gen_tree(R.rng)[0])
    return trees


def jcodec_stream(R, n):
    """writer and reader of the consolidated codec on trees with jagged tensors, lazy stacks and tensorclass nodes:
    metadata dict + storage bytes of consolidate(metadata=True) (single-threaded and through worker threads), and what
    _rebuild_tensordict_files_consolidated / pickle / from_consolidated make of them, against Model/C11_Jagged.v"""
    import pickle
    from tensordict import TensorDict
    from tensordict._reductions import _rebuild_tensordict_files_consolidated
    from .core import parse_sx
    norm = lambda x: parse_sx(sx(x))  # noqa: E731
    lines, meta = [], []
    for tree in jcodec_trees(R, n):
        case = {"tree": tree, "ops": [["consolidate", {"metadata": True}]], "format": "pickle", "opt": {}}
        trace(case)
        r = call(lambda: I.build(tree))
        if r[0] != "ok":
            R.count("jcodec:build-raises")
            continue
        td = r[1]
        jt = to_jmodel(td)
        if jt is None:
            R.count("jcodec:outside-the-model")
            continue
        feats = jfeatures(jt)
        obs_list = []
        for nt in (0, 2):
            rc = call(lambda: td.consolidate(metadata=True, num_threads=nt))
            if rc[0] != "ok":
                obs_list.append(("raise", nt, rc[1]))
                continue
            c = rc[1]
            md, st = c._consolidated["metadata"], c._consolidated["storage"]
            rb = call(lambda: to_jmodel(_rebuild_tensordict_files_consolidated(md, st)))
            pk = call(lambda: to_jmodel(pickle.loads(pickle.dumps(c))))
            obs_list.append(("ok", nt, norm(jmeta_of(md)), st.tolist(), rb, pk))
        if not any(f in feats for f in ("tc",)):
            with Scratch() as scratch:
                fn = os.path.join(scratch, "j.bin")
                rf = call(lambda: (td.consolidate(fn), to_jmodel(TensorDict.from_consolidated(fn)))[1])
        else:
            rf = None
        for f in sorted(feats):
            R.count("jcodec:" + f)
        R.case(("jcodec", json.dumps(tree, sort_keys=True)), nontrivial=bool(tree["ents"]))
        lines.append(sx([Sym("jcodec"), jt]))
        meta.append((case, obs_list, rf, feats))
    for (case, obs_list, rf, feats), res in zip(meta, R.model(lines)):
        R.traces += 1
        if isinstance(res, list) and res and res[0] == "decode-error":
            R.mismatch("jcodec:protocol", case, "n/a", res)
            continue
        mmeta, mstorage, mrb = res
        for o in obs_list:
            if o[0] == "raise":
                # (consolidate itself raised: the oracle streams judge that; nothing to compare the codec with)
                R.count("jcodec:consolidate-raises")
                continue
            _, nt, imeta, istorage, rb, pk = o
            if imeta != mmeta:
                R.mismatch("jcodec:metadata", dict(case, num_threads=nt), imeta, mmeta)
                break
            if istorage != list(mstorage):
                R.mismatch("jcodec:storage-bytes", dict(case, num_threads=nt), istorage[:64], list(mstorage)[:64])
                break
            for label, got in (("reader", rb), ("pickle", pk)):
                want = mrb
                if got[0] != "ok":
                    if want[0] != "raised":
                        R.mismatch("jcodec:%s-outcome" % label, dict(case, num_threads=nt), got[1], want)
                elif want[0] == "raised":
                    R.mismatch("jcodec:%s-outcome" % label, dict(case, num_threads=nt), "ok", want)
                elif got[1] is None or norm(got[1]) != want[1]:
                    R.mismatch("jcodec:%s-result" % label, dict(case, num_threads=nt), None if got[1] is None else norm(got[1]), want[1])
        if rf is not None and rf[0] == "ok" and mrb[0] == "ok":
            # the file keeps the metadata of the source; the tensordict read back has no device of its own at the root only if
            # the source had none: same reader, same records
            if rf[1] is None or norm(rf[1]) != mrb[1]:
                R.mismatch("jcodec:from_consolidated-result", case, None if rf[1] is None else norm(rf[1]), mrb[1])


# ------------------------------------------------------------------ worker threads: every completion order
def threads_stream(R, n):
    """consolidate(num_threads=3) under the permuting executor of harness/c12_thr.py (read-only import): the storage bytes
    after the copy tasks completed in a drawn order, against the model's run_tasks on a 0xFF-filled storage"""
    from .c12_thr import scheduled
    lines, meta = [], []
    trees = [t for t in jcodec_trees(R, n) if t["ents"]]
    for tree in trees:
        r = call(lambda: I.build(tree))
        if r[0] != "ok":
            continue
        td = r[1]
        fl = call(lambda: td._reduce_vals_and_metadata(requires_metadata=True, dtype=None)[1])
        if fl[0] != "ok":
            continue
        keys = list(fl[1].keys())
        owners = [i for i, k in enumerate(keys) if not k[-1].startswith("<NJT>")]
        vals = [fl[1][keys[i]] for i in owners]
        if not owners or any(v.dtype not in I.DT_BY_TORCH for v in vals):
            continue
        orders = [list(range(len(keys))), list(reversed(range(len(keys))))]
        for _ in range(2):
            o = list(range(len(keys)))
            R.rng.shuffle(o)
            orders.append(o)
        for order in orders:
            case = {"tree": tree, "ops": [], "format": "consolidate", "opt": {"num_threads": 3, "metadata": True}, "order": order}
            trace(case)

            def run():
                with scheduled(order=order) as s:
                    c = td.consolidate(metadata=True, num_threads=3)
                return c, list(s.ran), s.never_run
            rc = call(run)
            if rc[0] != "ok":
                R.count("threads:consolidate-raises")
                continue
            c, ran, never = rc[1]
            R.case(("threads", json.dumps(tree, sort_keys=True), tuple(order)), nontrivial=True)
            R.count("threads:%d-tasks" % min(len(owners), 8))
            # oracle: whatever the completion order, the consolidated tensordict equals its source
            d = first_diff(obs(td), obs(c))
            if d or never:
                R.oracle_fail("consolidate:" + (d[1] if d else "task-never-run"), case,
                              {"field": d[1], "at": d[0], "serialised": d[2], "restored": d[3]} if d else {"never_run": never},
                              {"call": "consolidate", "pattern": "unexplained", "field": d[1] if d else "values"})
            pos = {i: j for j, i in enumerate(owners)}
            lines.append(sx([Sym("threads"), [leaf_sx(v) for v in vals], [255] * c._consolidated["storage"].numel(),
                             [pos[i] for i in ran if i in pos]]))
            meta.append((case, c._consolidated["storage"].tolist()))
    for (case, istorage), res in zip(meta, R.model(lines)):
        R.traces += 1
        if list(res) != istorage:
            R.mismatch("threads:storage-bytes", case, istorage[:64], list(res)[:64])


def finding_grids(R):
    """small grids around the two defects found while modelling the codec (judged by the oracle, like every other case):
    lazy stacks whose members cannot be stacked densely (D117), keys that start with a marker of the codec (D116)"""
    recs = []
    mem = lambda i, feat, extra: {"bs": [3], "names": None, "dev": None,  # noqa: E731
                                  "ents": [["x", ["t", "int16", [3] + feat, "plain", 5 + i]]] + extra}
    lazies = [[mem(0, [2], []), mem(1, [4], [])],
              [mem(0, [], [["j", ["njt", "int16", [2, 0, 1], [], 3, True]]]), mem(1, [], [["j", ["njt", "int16", [1, 1, 1], [], 4, False]]])],
              [mem(0, [2], []), mem(1, [2], [["w", ["t", "int64", [3], "plain", 2]]])]]      # (different key sets: stackable)
    trees = [{"bs": [3], "names": None, "dev": None, "ents": [["z", ["t", "uint8", [3], "plain", 1]], ["l", ["lazy", 1, ms]]]} for ms in lazies]
    for key in ("<NJT_OFFSETS>x", "<NJT_VALUES>x", "<NJT_LENGTHS>x", "<NJT>x", "<x", "x<NJT>"):
        trees.append({"bs": [], "names": None, "dev": None, "ents": [[key, ["t", "int32", [3], "plain", 2]], ["y", ["t", "uint8", [2], "plain", 1]]]})
    for key in ("<TD>x", "<TD>", "<T"):
        trees.append({"bs": [], "names": None, "dev": None,
                      "ents": [[key, ["td", {"bs": [], "names": None, "dev": None, "ents": [["a", ["t", "int32", [3], "plain", 2]]]}]],
                               ["y", ["t", "uint8", [2], "plain", 1]]]})
    for tree in trees:
        for nt in (0, 2):
            for ops, plan in (([["consolidate", {"metadata": True, "num_threads": nt}]], [("pickle", {}), ("deepcopy", {})]),
                              ([], [("consolidate_file", {"num_threads": nt}), ("consolidate", {"num_threads": nt, "metadata": True}),
                                    ("pickle", {}), ("deepcopy", {})])):
                case = {"tree": tree, "ops": ops, "profile": "finding-grid"}
                trace(dict(case, format=plan[0][0]))
                try:
                    recs.append(exec_case(case, plan))
                except Exception as e:  # noqa: BLE001
                    recs.append({"case": case, "results": [], "model": None, "crash": type(e).__name__ + ": " + str(e)[:200]})
                R.count("finding-grid")
    consume(R, recs)

# ------------------------------------------------------------------ numpy structured arrays
NP_DTYPES = ["uint8", "int8", "bool", "int16", "float16", "int32", "float32", "int64", "float64", "complex64", "complex128"]


def struct_grid(R, maxlen):
    import itertools
    lines, meta = [], []
    for n in range(1, maxlen + 1):
        for combo in itertools.product(NP_DTYPES, repeat=n):
            if n == 3 and R.quick and R.rng.random() > 0.25:
                continue
            tree = {"bs": [3], "names": None, "dev": None, "ents": [[f"k{i}", ["t", dt, [3], "plain", i + 2]] for i, dt in enumerate(combo)]}
            case = {"tree": tree, "ops": [], "format": "struct", "opt": {}, "step": "final"}
            trace(case)
            td = I.build(tree)
            before = obs(td)
            r0 = call(lambda: FORMATS["struct"][0](td, None, {}))
            if r0[0] == "ok" and I.misaligned_entries(r0[1]):
                r = ("ok", None)
                bad = "MisalignedTensor: from_struct_array returned entries that do not start at a multiple of their element size: " \
                    + str(I.misaligned_entries(r0[1]))
            else:
                r, bad = (call(lambda: obs(r0[1])) if r0[0] == "ok" else r0), None
            R.case(("struct", combo), nontrivial=True)
            R.count("struct:%d-fields" % n)
            ctx = {"step": "final", "consolidated": False, "already_consolidated": False, "post_ops": [], "cons": None}
            judge(R, case, "struct", {}, before, "raise" if bad or r[0] != "ok" else "ok", bad or r[1], ctx)
            lines.append(sx([Sym("struct-ok"), [DT[d][1] for d in combo]]))
            meta.append((case, r[0] == "ok"))
    for (case, ok), m in zip(meta, R.model(lines)):
        R.traces += 1
        if (m == "t") != ok:
            R.mismatch("struct:accepts", case, ok, m)


# ------------------------------------------------------------------ reserved metadata keys
def reserved_keys(R):
    import pickle
    for key in ("leaves", "cls", "non_tensors", "cls_metadata", "size", "device", "names", "batch_size"):
        for where in ("sub", "leaf"):
            ent = ["td", {"bs": [2], "names": None, "dev": None, "ents": [["a", ["t", "int16", [2], "plain", 5]]]}] if where == "sub" \
                else ["t", "int32", [2], "plain", 9]
            tree = {"bs": [2], "names": None, "dev": None, "ents": [["b", ["t", "uint8", [2, 3], "plain", 1]], [key, ent]]}
            case = {"tree": tree, "ops": [["consolidate", {}]], "format": "pickle", "opt": {}, "step": "final"}
            trace(case)
            pre = guard(R, "consolidate", case, lambda: (lambda td: (td, obs(td)))(I.build(tree).consolidate()))
            if pre is None:
                continue
            td, before = pre
            r = call(lambda: obs(pickle.loads(pickle.dumps(td))))
            R.case(("reserved", key, where), nontrivial=True)
            R.count("reserved-key")
            clash = where == "sub" and key in ("leaves", "cls", "non_tensors", "cls_metadata", "size")
            if r[0] != "ok":
                R.oracle_fail("pickle:raises", case, {"exception": r[1]},
                              {"call": "pickle", "kind": "raises", "pattern": "nested-key-is-a-metadata-field" if clash else "unexplained"})
            else:
                d = first_diff(before, r[1])
                if d:
                    R.oracle_fail("pickle:" + d[1], case, {"field": d[1], "at": d[0], "serialised": d[2], "restored": d[3]},
                                  {"call": "pickle", "field": d[1], "pattern": "nested-key-is-a-metadata-field" if clash else "unexplained"})
            # model
            t0 = to_model(I.build(tree))
            res = R.model([sx([Sym("hist"), t0, [[Sym("consolidate"), False]]])])[0]
            R.traces += 1
            pk = res[2]
            if (pk[0] == "raised") != (r[0] != "ok"):
                R.mismatch("reserved:outcome", case, r[0], pk[0])
            elif r[0] == "ok":
                d = first_diff(project(r[1], FULL), project(model_obs(pk[1][0]), FULL))
                if d:
                    R.mismatch("reserved:result", case, {"at": d[0], "field": d[1], "impl": d[2]}, {"model": d[3]})


# ------------------------------------------------------------------ pickling across processes
def _child_loop(qin, qout):
    torch.set_num_threads(1)
    qout.put(("ready", "ok", None))
    while True:
        try:
            item = qin.get()
        except Exception as e:  # noqa: BLE001 -- unpickling in the child raised: that IS the observation
            qout.put((None, "raise", type(e).__name__ + ": " + str(e)[:160]))
            continue
        if item is None:
            return
        tag, buf = item
        try:
            from multiprocessing.reduction import ForkingPickler
            td = ForkingPickler.loads(buf)
            qout.put((tag, "ok", obs(td)))
        except Exception as e:  # noqa: BLE001
            qout.put((tag, "raise", type(e).__name__ + ": " + str(e)[:120]))


def cross_process(R, n):
    """the same tensordict sent to a forked and to a spawned child through a multiprocessing queue (ForkingPickler: the
    reducer registered by tensordict._reductions), observed there"""
    import multiprocessing as mp
    import multiprocessing.spawn as sp
    from multiprocessing.reduction import ForkingPickler
    cases = []
    tries = 0
    while len(cases) < n and tries < 20 * n:
        tries += 1
        c = guard(R, "history", {"tree": None, "ops": [], "format": "pickle"}, lambda: gen_case(R.rng, kinds=("nt",)))
        if c is None or any(op[0] == "consolidate" and (op[1].get("file") or op[1].get("inplace")) for op in c["ops"]):
            continue
        cases.append(c)
    # always: jagged tensors with lengths before one without (root and nested), and twins that traded places after consolidate()
    for where in ("root", "nested"):
        cases.append({"tree": jagged_tree([True, False, True], where, seed=1), "ops": [["consolidate", {"metadata": True}]], "profile": "jagged"})
    cases.append({"tree": {"bs": [3], "names": None, "dev": None, "ents": [["a", ["t", "float32", [3], "plain", 1]], ["p", ["t", "int8", [3], "plain", 2]],
                                                                            ["b", ["t", "float32", [3], "plain", 3]]]},
                  "ops": [["consolidate", {"metadata": True}], ["swap", [], "a", "b"]], "profile": "swap"})
    orig = sp.get_preparation_data

    def no_main(name):  # the spawned child must not re-run harness.main (it has no __main__ guard); it imports harness.c11_child only
        d = orig(name)
        d.pop("init_main_from_name", None)
        d.pop("init_main_from_path", None)
        return d
    for method in ("fork", "spawn"):
        ctx = mp.get_context(method)
        qin, qout = ctx.Queue(), ctx.Queue()
        sp.get_preparation_data = no_main
        try:
            from . import c11_child
            p = ctx.Process(target=c11_child.loop, args=(qin, qout), daemon=True)
            p.start()
        finally:
            sp.get_preparation_data = orig
        try:
            ready = qout.get(timeout=600)
        except Exception:  # noqa: BLE001 -- the child did not come up (overloaded machine): no verdict from this transport
            R.count("xproc:%s-child-not-ready" % method)
            p.terminate()
            continue
        try:
            for ci, case in enumerate(cases):
                full = dict(case, format="pickle", opt={"process": method}, step="final")

                def one():
                    td, log = run_case(case, [], lambda *a: None)
                    _, _, last, ci_info, nested = log.pop()
                    before = obs(td)
                    post = log[last + 1:] if last is not None else []
                    ctx_ = {"step": "final", "consolidated": td.is_consolidated(), "already_consolidated": td.is_consolidated(),
                            "post_ops": post, "cons": ci_info, "meta_misaligned16": meta_misaligned16(td), "nested": nested}
                    try:
                        buf = bytes(ForkingPickler.dumps(td))   # what Queue.put does in its feeder thread
                    except Exception as e:  # noqa: BLE001
                        buf, outcome, after = None, "raise", type(e).__name__ + ": " + str(e)[:100]
                    if buf is not None:
                        import queue
                        qin.put(((method, ci), buf))
                        try:
                            while True:
                                tag, outcome, after = qout.get(timeout=600)
                                if tag == (method, ci) or tag is None:
                                    break
                        except queue.Empty:
                            R.count("xproc:%s-timeout" % method)   # no answer: not a verdict
                            return True
                    R.case(("xproc", method, json.dumps(case, sort_keys=True)), nontrivial=bool(before["ents"]))
                    R.count("format:pickle-" + method)
                    judge(R, full, "pickle", {"process": method}, before, outcome, after, ctx_)
                    return True
                guard(R, "pickle", full, one)
        finally:
            try:
                qin.put(None)
                p.join(timeout=20)
            except Exception:  # noqa: BLE001
                pass
            if p.is_alive():
                p.terminate()


# ------------------------------------------------------------------ main
def _work(args):
    import random
    seed, n = args
    torch.set_num_threads(1)
    rng = random.Random(seed)
    out = []
    for _ in range(n):
        case = None
        try:
            case = gen_case(rng)
            out.append(exec_case(case, fmt_plan(rng, True)))
        except Exception as e:  # noqa: BLE001 -- an exception escaping the guarded calls is an observation too
            import traceback
            out.append({"case": case or {"tree": None, "ops": [], "profile": "crash"}, "results": [], "model": None,
                        "crash": type(e).__name__ + ": " + str(e)[:200] + " @ " + traceback.format_exc().strip().split("\n")[-3].strip()[:160]})
    return out


def consume(R, recs):
    for rec in recs:
        case = rec["case"]
        if rec.get("crash"):
            R.case(("crash", json.dumps(case, sort_keys=True, default=str)), nontrivial=True)
            R.oracle_fail("history:unexpected-exception", {"tree": case.get("tree"), "ops": case.get("ops"), "format": "pickle"},
                          {"exception": rec["crash"]}, {"call": "history", "kind": "crash", "pattern": "unexplained"})
            continue
        R.count("profile:" + case["profile"])
        for op in case["ops"]:
            R.count("op:" + op[0])
        for (fmt, opt, before, outcome, after, ctx) in rec["results"]:
            R.case((json.dumps(case, sort_keys=True), fmt, json.dumps(opt, sort_keys=True), ctx["step"]), nontrivial=bool(before["ents"]),
                   sample={"tree": case["tree"], "ops": case["ops"], "format": fmt, "opt": opt} if R.evaluations % 4001 == 7 else None)
            R.count("format:" + fmt)
            judge(R, case, fmt, opt, before, outcome, after, ctx)
        if rec["model"]:
            R.count("model:history-in-domain")
    compare_model(R, recs)


def _job_worker(group, tmp):
    """runs jobs one after the other; results of job i go to res<i>.pkl, the case in flight to trace<i>.json"""
    import pickle
    for (ji, job) in group:
        trace_to(os.path.join(tmp, f"trace{ji}.json"))
        recs = _work(job)
        with open(os.path.join(tmp, f"res{ji}.tmp"), "wb") as f:
            pickle.dump(recs, f)
        os.rename(os.path.join(tmp, f"res{ji}.tmp"), os.path.join(tmp, f"res{ji}.pkl"))
    os._exit(0)


def cpu_seconds(pid):
    """user+system CPU time consumed by a process (to tell a non-terminating call from a starved machine)"""
    try:
        f = open(f"/proc/{pid}/stat").read().rsplit(")", 1)[1].split()
        return (int(f[11]) + int(f[12])) / os.sysconf("SC_CLK_TCK")
    except Exception:  # noqa: BLE001
        return 0.0


class Starved(RuntimeError):
    pass


def died(R, what, tr, detail):
    case = read_trace(tr)
    R.case(("died", json.dumps(case, sort_keys=True, default=str)), nontrivial=True)
    R.oracle_fail(what, case, detail, {"call": str(case.get("format")), "kind": "process-died", "pattern": "unexplained"})


def run_jobs(R, jobs, nproc, timeout):
    """histories x formats in worker processes; a worker that dies (segfault in the code under test) or hangs is a failing
    input, not a crash of the check"""
    import multiprocessing as mp
    import pickle
    import shutil
    import tempfile
    ctx = mp.get_context("fork")
    tmp = tempfile.mkdtemp(prefix="c11-jobs-")
    pending = list(enumerate(jobs))
    rounds = 0
    try:
        while pending and rounds < 6:
            rounds += 1
            groups = [g for g in (pending[i::nproc] for i in range(nproc)) if g]
            procs = []
            for g in groups:
                p = ctx.Process(target=_job_worker, args=(g, tmp), daemon=True)
                p.start()
                procs.append((p, g))
            pending = []
            t_end = time.time() + timeout
            for p, g in procs:
                p.join(timeout=max(1.0, t_end - time.time()))
                hung = p.is_alive()
                if hung:
                    cpu = cpu_seconds(p.pid)
                    p.kill()
                    p.join(5)
                    if cpu < 0.4 * timeout:
                        raise Starved(f"a worker got {cpu:.0f}s of CPU in {timeout}s: the machine is overloaded, no verdict")
                rest = []
                for (ji, job) in g:
                    fn = os.path.join(tmp, f"res{ji}.pkl")
                    if os.path.exists(fn) and not rest:
                        consume(R, pickle.load(open(fn, "rb")))
                        os.remove(fn)
                    else:
                        rest.append((ji, job))
                if rest:
                    died(R, "history:process-" + ("hung" if hung else "died"), os.path.join(tmp, f"trace{rest[0][0]}.json"),
                         {"exitcode": p.exitcode, "note": "the worker process did not survive this case"})
                    pending.extend(rest[1:])
    finally:
        shutil.rmtree(tmp, ignore_errors=True)


R_FIELDS = ("evaluations", "distinct", "samples", "hist", "mismatches", "oracle_failures", "broken", "traces", "extra")


def supervised(R, name, f, timeout):
    """one section of the check in a forked child: what it recorded comes back through a file; if the child dies the last
    traced case is reported as a failing input"""
    import multiprocessing as mp
    import pickle
    import shutil
    import tempfile
    tmp = tempfile.mkdtemp(prefix="c11-sec-")
    tr, out = os.path.join(tmp, "trace.json"), os.path.join(tmp, "out.pkl")

    def child():
        trace_to(tr)
        try:
            f(R)
            state = {k: getattr(R, k) for k in R_FIELDS}
            state["rng"] = R.rng.getstate()
            with open(out + ".tmp", "wb") as fh:
                pickle.dump(state, fh)
            os.rename(out + ".tmp", out)
        except BaseException:  # noqa: BLE001
            import traceback
            with open(os.path.join(tmp, "error.txt"), "w") as fh:
                fh.write(traceback.format_exc())
        os._exit(0)
    p = mp.get_context("fork").Process(target=child)
    p.start()
    p.join(timeout)
    hung = p.is_alive()
    if hung:
        cpu = cpu_seconds(p.pid)
        p.kill()
        p.join(5)
        if cpu < 0.4 * timeout:
            shutil.rmtree(tmp, ignore_errors=True)
            raise Starved(f"section {name} got {cpu:.0f}s of CPU in {timeout}s: the machine is overloaded, no verdict")
    try:
        if os.path.exists(out):
            state = pickle.load(open(out, "rb"))
            R.rng.setstate(state.pop("rng"))
            for k, v in state.items():
                setattr(R, k, v)
        elif os.path.exists(os.path.join(tmp, "error.txt")):
            raise RuntimeError(f"section {name} of the check raised:\n" + open(os.path.join(tmp, "error.txt")).read())
        else:
            died(R, name + ":process-" + ("hung" if hung else "died"), tr,
                 {"exitcode": p.exitcode, "note": f"section '{name}' of the check did not survive this case"})
    finally:
        shutil.rmtree(tmp, ignore_errors=True)


def main(R):
    torch.set_num_threads(1)
    R.rule = ("trees (depth <= 2, 0-5 entries per node, batch shapes of rank 0-2 incl. 0-size dims, names, device None/cpu) whose leaves "
              "draw dtypes from a mix of element sizes in {1,2,4,8,16} (12 dtypes), shapes with 0-size / rank-0 feature dims, "
              "memory layouts plain / storage-offset / transposed / strided; non-tensor data, jagged nested tensors, lazy stacks; "
              "histories in 4 profiles (plain, fresh, in-place-only after consolidation, arbitrary mutation after consolidation) "
              "of set / set_ / copy_ / update_ / del / rename / lock / unlock / names / new nested td at any node, consolidate with "
              "num_threads in {None,0,1,4} x metadata x plain/shared/file(+use_buffer)/inplace; then EVERY applicable format "
              "(pickle, deepcopy, consolidate, consolidate-to-file + from_consolidated, state_dict x4 modes, to_dict/from_dict x5, "
              "pytree x3, namedtuple x2, struct array); + exhaustive layout grid over (element size, shape) sequences, struct-array "
              "dtype grid, reserved-key grid, fork/spawn transport.  A case = (tree, history, format, options); non-trivial = the "
              "serialised tensordict has at least one entry")
    R.assumptions = ["byte copies (torch.cat / copy_ / view / pickle of a storage) are torch's and trusted; leaves hold small integers "
                     "(exact in every dtype) and are compared bitwise",
                     "fields compared per format: pickle/deepcopy/consolidate/from_consolidated: keys, dtypes, shapes, values, batch sizes, "
                     "names, device, lock state, container types; state_dict: keys, values, batch sizes (documented: no names); "
                     "pytree: all but lock state; to_dict/namedtuple/struct array: keys, values (+ the batch size the caller passes again)",
                     "key ORDER is not compared (equality of tensordicts is by key)",
                     "the history model (Model/C11_Tree.v) covers TensorDict trees with tensor and NonTensorData entries (every consolidate "
                     "configuration incl. worker threads, file and use_buffer targets); the codec model (Model/C11_Jagged.v) adds jagged tensors "
                     "(values / lengths / offsets records), lazy stacks and tensorclass nodes to the writer (metadata dict + storage bytes) and "
                     "to the reader (_rebuild_tensordict_files_consolidated, pickle of a current snapshot, from_consolidated), and the copy "
                     "tasks of consolidate(num_threads>0) in every completion order (permuting executor of harness/c12_thr.py); histories "
                     "on trees with those entries, in-place consolidation and nested tensordicts carrying their own snapshot are judged by "
                     "the oracle only"]
    R.trusted = ["harness/c11_impl.py (builders, canonical observation) and the per-format table of carried fields",
                 "torch's view / copy / pickling of storages; multiprocessing transport"]
    R.step_prove()
    if not R.step_driver():
        return
    q = R.quick
    # 0. the corpus of minimised cases (known defects, cases that caught a seeded mutation) always runs first

    def sec_corpus(R):
        import glob
        recs = []
        for fn in sorted(glob.glob(os.path.join(os.path.dirname(os.path.dirname(os.path.abspath(__file__))), "corpus", "C11", "*.json"))):
            c = json.load(open(fn))
            case = {"tree": c["tree"], "ops": c["ops"], "profile": "corpus"}
            trace(dict(case, format=c["format"], opt=c.get("opt", {})))
            try:
                recs.append(exec_case(case, [(c["format"], c.get("opt", {}))]))
            except Exception as e:  # noqa: BLE001
                recs.append({"case": case, "results": [], "model": None, "crash": type(e).__name__ + ": " + str(e)[:200]})
        consume(R, recs)
    supervised(R, "corpus", sec_corpus, 900 if q else 3000)
    # 1. arithmetic core: exhaustive small grid (+ struct-array and reserved-key grids)

    def sec_grid(R):
        layout_grid(R, 3, 700 if q else None)
        if not q:
            layout_grid(R, 4, 6000)
        struct_grid(R, 2 if q else 3)
        reserved_keys(R)
        jagged_grid(R)
        finding_grids(R)
        jcodec_stream(R, 150 if q else 4000)
        threads_stream(R, 25 if q else 600)
    t0 = time.time()
    supervised(R, "layout-grid", sec_grid, 900 if q else 3000)
    R.extra["grid_wall_s"] = round(time.time() - t0, 1)
    # 2. histories x formats
    n_cases = 1600 if q else 48000
    chunk = 50
    jobs = [(R.rng.getrandbits(62), chunk) for _ in range(n_cases // chunk)]
    t0 = time.time()
    run_jobs(R, jobs, 8 if q else 14, 900 if q else 3000)   # (the timeout only bounds a genuine non-termination)
    R.extra["histories_wall_s"] = round(time.time() - t0, 1)
    # 3. across processes
    t0 = time.time()
    supervised(R, "cross-process", lambda R: cross_process(R, 6 if q else 40), 900 if q else 3000)
    R.extra["cross_process_wall_s"] = round(time.time() - t0, 1)
    R.exhaustive = False


def replay(body):
    from .core import build_driver, run_model
    case = body["case"]
    fmt = case.get("format", "pickle").split(":")[0]
    opt = case.get("opt", {})
    print("tree:", json.dumps(case["tree"]))
    print("history:", json.dumps(case["ops"]))
    print("format:", fmt, opt)
    if fmt in ("layout-grid", "model"):
        fmt = "pickle"

    class RR:
        oracle_failures = []

        def oracle_fail(self, label, c, detail, sig=None):
            self.oracle_failures.append((label, detail, sig))
    rr = RR()
    rec = exec_case(dict(case, profile=case.get("profile", "replay")), [(fmt, opt)] if fmt in FORMATS else [])
    for (f, o, before, outcome, after, ctx) in rec["results"]:
        print(f"implementation [{f} @ step {ctx['step']}]: {outcome}", (after if outcome == "raise" else ""))
        if outcome == "ok":
            d = first_diff(project(before, carried(f.split(':')[0], o)), project(after, carried(f.split(':')[0], o)))
            print("   first difference (serialised vs restored):", d)
        judge(rr, case, f, o, before, outcome, after, ctx)
    print("oracle:", "FAIL " + json.dumps([(l, d, s) for (l, d, s) in rr.oracle_failures], default=str) if rr.oracle_failures else "ok")
    ok, _ = build_driver("C11")
    if ok and rec["model"]:
        res = run_model("C11", [sx([Sym("hist"), rec["model"]["t0"], rec["model"]["ops"]])])[0]
        print("model step outcomes:", res[0], " implementation:", rec["model"]["outcomes"])
        print("snapshot is current -- model:", res[3], " implementation guard:", rec["model"].get("current"))
        print("model pickle round trip:", res[2][0], "" if res[2][0] == "raised" else json.dumps(model_obs(res[2][1][0]))[:600])
    elif not rec["model"]:
        print("model: the case is outside the modelled structures (lazy stack / jagged tensor / threaded non-contiguous)")
    return 0
