"""C05 reflection stream: fixtures (locked trees of every container kind), structure snapshots, argument synthesis
from signatures, and the oracle "a locked tree's structure and bindings are unchanged by any public call".
Nothing here depends on the Coq model."""
import gc
import inspect
import pickle
import shutil
import signal
import tempfile

_T = {}


def T():
    """lazy imports (tensordict must be imported after cext.install())"""
    if not _T:
        import torch
        import tensordict
        from tensordict import TensorDict, LazyStackedTensorDict, TensorDictParams, tensorclass, lazy_stack
        from tensordict._td import _SubTensorDict
        from tensordict.utils import is_non_tensor
        from tensordict.base import _is_tensor_collection
        try:
            from tensordict.tensorclass import is_tensorclass
        except Exception:  # noqa: BLE001
            from tensordict import is_tensorclass

        @tensorclass
        class C05TC:
            x: torch.Tensor
            n: TensorDict
            y: torch.Tensor = None
            label: str = "text"

        C05TC.__module__ = __name__
        globals()["C05TC"] = C05TC
        gc.collect()
        gc.freeze()  # the import-time heap is permanent: later gc.collect() calls (tensordict's unlock retry) stay cheap
        _T.update(torch=torch, tensordict=tensordict, TD=TensorDict, Lazy=LazyStackedTensorDict, Params=TensorDictParams,
                  Sub=_SubTensorDict, TC=C05TC, lazy_stack=lazy_stack, is_non_tensor=is_non_tensor,
                  is_tc=is_tensorclass, is_coll=_is_tensor_collection)
    return _T


class Timeout(Exception):
    pass


def _alarm(signum, frame):
    raise Timeout()


# ------------------------------------------------------------------------------------------------ fixtures
# A fixture is built from its name; it returns (roots, handles, tmpdirs, meta):
#   roots   : dict name -> object whose tree must stay frozen (each was locked by a public call)
#   handles : dict name -> object through which calls are issued (root, nested node, lazy member, sub-tensordict ...)
#   meta    : {"locked_by": how the tree became locked, "member_handles": names of handles that are strict members}
def _leaf(bs, feat=(), v=1.0):
    return T()["torch"].full(tuple(bs) + tuple(feat), float(v))


def _nested(bs=(3,), nt=False):
    t = T()
    d = {"a": _leaf(bs, (), 1), "b": _leaf(bs, (2,), 2),
         "n": {"c": _leaf(bs, (), 3), "m": {"d": _leaf(bs, (), 4)}, "e": _leaf(bs, (2,), 5)}}
    td = t["TD"](d, batch_size=list(bs))
    if nt:
        td.set_non_tensor("s", "str")
        td["n"].set_non_tensor("s2", "str2")
    return td


def fx_nested(how="lock_"):
    td = _nested()
    tmp = []
    if how == "lock_":
        td.lock_()
    elif how == "ctor":
        t = T()
        td = t["TD"]({"a": _leaf((3,), (), 1), "b": _leaf((3,), (2,), 2),
                      "n": {"c": _leaf((3,)), "m": {"d": _leaf((3,))}, "e": _leaf((3,), (2,))}}, batch_size=[3], lock=True)
    elif how == "memmap_":
        d = tempfile.mkdtemp(prefix="c05-")
        tmp.append(d)
        td.memmap_(d)
    elif how == "share_memory_":
        td.share_memory_()
    elif how == "pickle":
        td.lock_()
        td = pickle.loads(pickle.dumps(td))
    elif how == "with":
        td.lock_()
    elif how == "is_locked=":
        td.is_locked = True
    elif how == "relock":
        td.lock_()
        td.unlock_()
        td["n"].lock_()
        td.lock_()
    elif how == "child_first":
        td["n", "m"].lock_()
        td["n"].lock_()
        td.lock_()
    return ({"root": td},
            {"root": td, "n": td["n"], "n.m": td["n", "m"]},
            tmp, {"locked_by": how, "members": ["n", "n.m"]})


def fx_nested_nt():
    td = _nested(nt=True).lock_()
    return {"root": td}, {"root": td, "n": td["n"]}, [], {"locked_by": "lock_", "members": ["n"]}


def fx_lazy(hetero=False, how="lock_"):
    t = T()
    m0, m1 = _nested(), _nested()
    if hetero:
        m1["only1"] = _leaf((3,))
        m0["n", "only0"] = _leaf((3,))
    L = t["lazy_stack"]([m0, m1], 0)
    if how == "lock_":
        L.lock_()
    elif how == "members_first":
        m0.lock_()
        m1.lock_()
        L.lock_()
    elif how == "pickle":
        L.lock_()
        L = pickle.loads(pickle.dumps(L))
    ms = L.tensordicts
    return ({"root": L}, {"root": L, "m0": ms[0], "m1.n": ms[1]["n"], "n": L["n"]}, [],
            {"locked_by": "lazy." + how, "members": ["m0", "m1.n"], "derived": ["n"]})


def fx_td_lazy():
    t = T()
    L = t["lazy_stack"]([_nested(), _nested()], 0)
    td = t["TD"]({"a": _leaf((2,)), "L": L, "n": {"L2": t["lazy_stack"]([_nested((2,)), _nested((2,))], 1)}}, batch_size=[2])
    td.lock_()
    return ({"root": td}, {"root": td, "L": td["L"], "L.m0": td["L"].tensordicts[0], "n.L2.m1.n": td["n", "L2"].tensordicts[1]["n"]},
            [], {"locked_by": "lock_", "members": ["L", "L.m0", "n.L2.m1.n"]})


def fx_td_empty_lazy():
    t = T()
    L = t["Lazy"](stack_dim=0)
    td = t["TD"]({"a": _leaf(()), "L": L}, batch_size=[]).lock_()
    return ({"root": td}, {"root": td, "L": L}, [], {"locked_by": "lock_", "members": ["L"], "hollow": ["L"]})


def fx_lazy_lazy():
    t = T()
    inner0 = t["lazy_stack"]([_nested(), _nested()], 0)
    inner1 = t["lazy_stack"]([_nested(), _nested()], 0)
    L = t["lazy_stack"]([inner0, inner1], 0)
    L.lock_()
    return ({"root": L}, {"root": L, "i0": L.tensordicts[0], "i0.m1": L.tensordicts[0].tensordicts[1]}, [],
            {"locked_by": "lock_", "members": ["i0", "i0.m1"]})


def fx_tc(how="lock_"):
    t = T()
    tc = t["TC"](x=_leaf((3,)), n=_nested(), y=_leaf((3,), (2,)), batch_size=[3])
    if how == "lock_":
        tc.lock_()
    return ({"root": tc}, {"root": tc, "n": tc.n, "n.n": tc.n["n"]}, [], {"locked_by": "tc.lock_", "members": ["n", "n.n"]})


def fx_td_tc():
    t = T()
    tc = t["TC"](x=_leaf((3,)), n=_nested(), y=_leaf((3,), (2,)), batch_size=[3])
    td = t["TD"]({"a": _leaf((3,)), "tc": tc}, batch_size=[3]).lock_()
    return ({"root": td}, {"root": td, "tc": td["tc"], "tc.n": td["tc"].n}, [], {"locked_by": "lock_", "members": ["tc", "tc.n"]})


def fx_params(lock_content=False):
    t = T()
    p = t["Params"](_nested(), lock=lock_content)
    p.lock_()
    return ({"root": p}, {"root": p, "n": p["n"]}, [], {"locked_by": "params(lock=True).lock_" if lock_content else "params.lock_", "members": ["n"],
                                                         "content_stays_locked": bool(lock_content)})


def fx_td_params():
    t = T()
    p = t["Params"](_nested())
    td = t["TD"]({"a": _leaf((3,)), "p": p}, batch_size=[3]).lock_()
    return ({"root": td}, {"root": td, "p": td["p"]}, [], {"locked_by": "lock_", "members": ["p"]})


def fx_sub():
    td = _nested().lock_()
    return ({"root": td}, {"sub0": td._get_sub_tensordict(0), "subslice": td._get_sub_tensordict(slice(0, 2))}, [],
            {"locked_by": "lock_", "members": []})


def fx_shared_node():
    t = T()
    s = t["TD"]({"c": _leaf((3,)), "k": {"z": _leaf((3,))}}, batch_size=[3])
    r1 = t["TD"]({"x": s, "y": {"w": s}, "a": _leaf((3,))}, batch_size=[3]).lock_()
    r2 = t["TD"]({"q": s, "b": _leaf((3,))}, batch_size=[3]).lock_()
    return ({"r1": r1, "r2": r2}, {"r1": r1, "r2": r2, "s": s, "s.k": s["k"]}, [],
            {"locked_by": "lock_ x2", "members": ["s", "s.k"], "coroots": ["r1", "r2"]})


def fx_unlocked_parent():
    """a locked tree held inside an unlocked container: calls through the unlocked parent must not change the locked subtree"""
    t = T()
    inner = _nested().lock_()
    outer = t["TD"]({"inner": inner, "o": _leaf((3,))}, batch_size=[3])
    return ({"root": inner}, {"outer": outer, "inner": inner, "inner.n": inner["n"]}, [],
            {"locked_by": "lock_", "members": ["inner.n"], "outside": ["outer"], "unlock_roots": ["outer", "inner"]})


FIXTURES = {
    "nested": lambda: fx_nested("lock_"),
    "nested_ctor": lambda: fx_nested("ctor"),
    "nested_memmap": lambda: fx_nested("memmap_"),
    "nested_shared": lambda: fx_nested("share_memory_"),
    "nested_pickle": lambda: fx_nested("pickle"),
    "nested_setter": lambda: fx_nested("is_locked="),
    "nested_relock": lambda: fx_nested("relock"),
    "nested_child_first": lambda: fx_nested("child_first"),
    "nested_nt": fx_nested_nt,
    "lazy": lambda: fx_lazy(False),
    "lazy_hetero": lambda: fx_lazy(True),
    "lazy_members_first": lambda: fx_lazy(False, "members_first"),
    "lazy_pickle": lambda: fx_lazy(False, "pickle"),
    "td_lazy": fx_td_lazy,
    "lazy_lazy": fx_lazy_lazy,
    "td_empty_lazy": fx_td_empty_lazy,
    "tc": fx_tc,
    "td_tc": fx_td_tc,
    "params": lambda: fx_params(False),
    "params_lockcontent": lambda: fx_params(True),
    "td_params": fx_td_params,
    "sub": fx_sub,
    "shared_node": fx_shared_node,
    "unlocked_parent": fx_unlocked_parent,
}
QUICK_FIXTURES = ["nested", "nested_memmap", "nested_shared", "nested_pickle", "nested_nt", "lazy", "lazy_hetero",
                  "lazy_members_first", "td_lazy", "tc", "td_tc", "params", "td_params", "sub", "shared_node",
                  "unlocked_parent", "nested_ctor", "lazy_lazy", "td_empty_lazy", "params_lockcontent"]


# ------------------------------------------------------------------------------------------------ snapshot
def kind_of(o):
    t = T()
    if isinstance(o, t["torch"].Tensor):
        return "tensor"
    try:
        if t["is_non_tensor"](o):
            return "nontensor"
    except Exception:  # noqa: BLE001
        pass
    if isinstance(o, t["Params"]):
        return "params"
    if isinstance(o, t["Sub"]):
        return "sub"
    if isinstance(o, t["Lazy"]):
        return "lazy"
    if isinstance(o, t["TD"]):
        return "td"
    if t["is_tc"](o):
        return "tc"
    return "other"


def children(o, k=None):
    """(label, child) pairs of a container node, read from the storage the class really uses"""
    k = k or kind_of(o)
    if k == "td":
        return [(("k", key), v) for key, v in o._tensordict.items()]
    if k == "lazy":
        return [(("i", i), m) for i, m in enumerate(o.tensordicts)]
    if k == "params":
        return [(("p", "_param_td"), o._param_td)]
    if k == "sub":
        return [(("p", "_source"), o._source)]
    if k == "tc":
        out = [(("p", "_tensordict"), o._tensordict)]
        nt = getattr(o, "_non_tensordict", None)
        if isinstance(nt, dict):
            out += [(("nk", key), None) for key in nt]
        return out
    return []


class Snap:
    """recursive structure snapshot: path -> (kind, identity class, lock flag).  Holds every object alive so that id()s stay unique."""

    def __init__(self, roots):
        self.keep = []
        self.ids = {}
        self.rows = {}
        for rn, r in sorted(roots.items()):
            self._walk((rn,), r, 0)

    def _cls(self, o):
        i = id(o)
        if i not in self.ids:
            self.ids[i] = len(self.ids)
            self.keep.append(o)
        return self.ids[i]

    def _walk(self, path, o, depth):
        k = kind_of(o)
        if depth > 12:
            self.rows[path] = ("too-deep",)
            return
        if o is None and path and path[-1][0] == "nk":
            self.rows[path] = ("nontensor-field",)
            return
        if k == "tensor":
            try:
                ptr = o.untyped_storage().data_ptr() if o.device.type == "cpu" else -1
            except Exception:  # noqa: BLE001
                ptr = -2
            self.rows[path] = ("tensor", id(o), ptr, tuple(o.shape))
            self.keep.append(o)
            return
        if k == "nontensor":
            self.rows[path] = ("nontensor",)
            return
        if k == "other":
            self.rows[path] = ("other", type(o).__name__)
            return
        try:
            locked = bool(o.is_locked)
        except Exception as e:  # noqa: BLE001
            locked = "raise:" + type(e).__name__
        self.rows[path] = (k, id(o), locked)
        self.keep.append(o)
        for lab, c in children(o, k):
            self._walk(path + (lab,), c, depth + 1)

    def structure(self):
        """what the property freezes: the set of paths, the kind at each path, identity of nodes and tensor leaves"""
        out = {}
        for p, r in self.rows.items():
            out[p] = r[:2] if r[0] in ("tensor", "td", "lazy", "tc", "params", "sub") else r[:1]
        return out

    def keyset(self):
        return {p: r[0] for p, r in self.rows.items()}

    def ptrs(self):
        return {p: r[2] for p, r in self.rows.items() if r[0] == "tensor"}

    def locks(self):
        return {p: r[2] for p, r in self.rows.items() if r[0] in ("td", "lazy", "tc", "params", "sub")}


def fmt_path(p):
    return "/".join(str(x[1]) if isinstance(x, tuple) else str(x) for x in p)


def diff_struct(a, b):
    """human-readable difference of two structure dicts"""
    out = []
    for p in sorted(set(a) | set(b), key=repr):
        if p not in b:
            out.append("removed " + fmt_path(p))
        elif p not in a:
            out.append("added " + fmt_path(p))
        elif a[p] != b[p]:
            out.append(("rebound " if a[p][0] == b[p][0] else "retyped ") + fmt_path(p))
    return out


# ------------------------------------------------------------------------------------------------ method discovery
DUNDERS = ["__setitem__", "__delitem__", "__iadd__", "__isub__", "__imul__", "__itruediv__", "__ipow__", "__iand__", "__ior__",
           "__ixor__", "__setattr__", "__delattr__"]

# calls that cannot run in this sandbox / would block; counted in the evidence as excluded, with the reason
EXCLUDED = {
    "send": "distributed", "recv": "distributed", "isend": "distributed", "irecv": "distributed", "reduce": "distributed",
    "gather_and_stack": "distributed", "all_reduce": "distributed", "all_gather": "distributed", "broadcast": "distributed",
    "init_remote": "distributed", "from_remote_init": "distributed",
    "map": "process pool", "map_iter": "process pool",
    "cuda": "no CUDA (raises only)", "share_memory": "nn.Module alias", "ipu": "no device", "xpu": "no device", "mtia": "no device",
    "compile": "nn.Module.compile (dynamo)", "to_h5": "h5py backend is another container class",
}

# documented exceptions of the property (storage conversion): bindings may change; key set must not (make_memmap*: the named key)
STORAGE_CONVERSION = {"memmap_", "share_memory_", "make_memmap", "make_memmap_from_storage", "make_memmap_from_tensor"}
# in-place loaders of the memory-mapped family: they replace the content by what is on disk (entries may come and go with the
# directory); the lock state they leave behind is still judged
LOADERS = {"load_", "load_memmap_", "memmap_refresh_"}
UNLOCKERS = {"unlock_", "unlock"}


def pattern_of(obs, label):
    """the minimal input pattern of the recorded defects (findings.d/C05.json): a decidable predicate of the observation.
    Anything that does not fit one of these shapes has pattern None and is reported as a new violation."""
    m, meta, kw = obs["method"], obs["meta"], obs.get("kwargs") or {}
    inplace = isinstance(kw, dict) and kw.get("inplace") is True
    lb, hk, ok = meta["locked_by"], obs.get("handle_kind"), obs["outcome"] == "ok"
    args = obs.get("args") or []
    if label == "locked_frozen:structure":
        if m == "exclude" and inplace and ok:
            return "exclude-inplace-on-locked"
        if m == "expand" and inplace and ok and hk == "lazy":
            return "lazy-expand-inplace-on-locked"
        if m == "to_empty" and ok and hk == "params":
            return "params-module-_apply-on-locked"
        if m == "update" and ok and inplace and lb == "params(lock=True).lock_" and hk == "params":
            return "params-lock-content-update-inplace-adds-key"
        if m == "__setitem__" and ok and obs.get("rebound_under_lazy") and args and \
                (isinstance(args[0], list) or (isinstance(args[0], str) and args[0].startswith("tensor(")) or args[0] == "range"):
            return "lazy-setitem-sequence-index-on-locked"
    if label == "member_cannot_unlock:unlocked" and m in UNLOCKERS and ok:
        if lb == "memmap_":
            return "member-unlock:parent-locked-by-memmap_"
        if lb == "lazy.members_first":
            return "member-unlock:lazy-stack-locked-after-members"
        if obs["handle"] in meta.get("hollow", []):
            return "member-unlock:hollow-lazy-stack"
    if label in ("locked_frozen:unlocked-by-call", "member_cannot_unlock:flags-not-restored") and not ok:
        if m in LOADERS:
            return "memmap-loader-raises-leaves-unlocked"
        if m == "update" and lb == "params(lock=True).lock_" and inplace:
            return "params-lock-content-update-raises-leaves-content-unlocked"
    return None


def public_methods(cls):
    out = []
    skipped = {"property": 0, "class/static": 0, "excluded": 0, "noncallable": 0}
    for n in sorted(dir(cls)):
        if n.startswith("_") and n not in DUNDERS:
            continue
        a = inspect.getattr_static(cls, n)
        if isinstance(a, (classmethod, staticmethod)):
            skipped["class/static"] += 1
            continue
        if isinstance(a, property):
            skipped["property"] += 1
            continue
        if not callable(getattr(cls, n, None)):
            skipped["noncallable"] += 1
            continue
        if n in EXCLUDED:
            skipped["excluded"] += 1
            continue
        out.append(n)
    return out, skipped


# ------------------------------------------------------------------------------------------------ argument synthesis
class Ctx:
    """what the synthesiser knows about the handle: keys present (leaf / node / nested), an absent key, batch size"""

    def __init__(self, h, rng, tmpdirs):
        t = T()
        self.h, self.rng, self.tmpdirs = h, rng, tmpdirs
        self.torch = t["torch"]
        try:
            self.bs = tuple(h.batch_size)
        except Exception:  # noqa: BLE001
            self.bs = ()
        leaf, node, nested = [], [], []
        try:
            for k in h.keys():
                v = h.get(k)
                (node if t["is_coll"](type(v)) and not t["is_non_tensor"](v) else leaf).append(k)
            nested = [k for k in h.keys(True, True) if isinstance(k, tuple)]
        except Exception:  # noqa: BLE001
            pass
        self.leaf = leaf or ["a"]
        self.node = node
        self.nested = nested
        self.absent = "zz"

    def tmp(self):
        d = tempfile.mkdtemp(prefix="c05-")
        self.tmpdirs.append(d)
        return d

    def shape_of(self, key):
        try:
            return tuple(self.h.get(key).shape)
        except Exception:  # noqa: BLE001
            return self.bs

    def ones(self, shape, v=7.0):
        return self.torch.full(tuple(shape), float(v))

    def twin(self, extra=False, drop=False):
        """a tensordict with the same keys/shapes as the handle (what update/copy_ want), optionally with one more / one less key"""
        t = T()
        try:
            tw = self.h.to_tensordict() if hasattr(self.h, "to_tensordict") else self.h.clone()
            if t["is_tc"](tw) and not t["is_non_tensor"](tw):
                tw = tw._tensordict
            tw = tw.clone()
            if tw.is_locked:
                tw.unlock_()
            if extra:
                tw[self.absent] = self.ones(self.bs)
            if drop and self.leaf:
                tw = tw.exclude(self.leaf[0])
            return tw
        except Exception:  # noqa: BLE001
            return t["TD"]({self.leaf[0]: self.ones(self.bs)}, batch_size=list(self.bs))


def _keys_new(c):
    out = [c.absent]
    if c.node:
        out.append((c.node[0], c.absent))
    out.append((c.absent, "deep"))
    out.append(c.leaf[0])
    return out


def _keys_old(c):
    out = [c.leaf[0]]
    if c.nested:
        out.append(c.nested[0])
    if c.node:
        out.append(c.node[0])
    out.append(c.absent)
    if len(c.leaf) > 1:
        out.append(c.leaf[1])
    return out


def _values(c, key=None):
    t = T()
    shp = c.shape_of(key) if key is not None and not (isinstance(key, str) and key == c.absent) else c.bs
    out = [c.ones(shp), c.ones(c.bs + (2,)), c.ones((7,)), 1.0,
           {"u": c.ones(c.bs)}, t["TD"]({"u": c.ones(c.bs)}, batch_size=list(c.bs)), "text"]
    return out


def _tds(c):
    t = T()
    return [{c.absent: c.ones(c.bs)},
            ({c.node[0]: {c.absent: c.ones(c.bs)}} if c.node else {c.absent: {"deep": c.ones(c.bs)}}),
            c.twin(extra=True), c.twin(), {c.leaf[0]: c.ones(c.shape_of(c.leaf[0]))},
            c.twin(drop=True), t["TD"]({}, batch_size=list(c.bs))]


def _fn(c):
    return [lambda *xs: xs[-1] + 1 if hasattr(xs[-1], "shape") else xs[-1],
            lambda *xs: None,
            lambda *xs: (xs[-1].clone() if hasattr(xs[-1], "clone") else xs[-1])]


def _idx(c):
    to = c.torch
    out = [0, slice(None), slice(0, 1), to.tensor([0]), Ellipsis]
    if c.bs:
        out.append(to.ones(c.bs[:1], dtype=to.bool))
    return out


def _module(c):
    to = c.torch
    return [to.nn.Linear(2, 2), to.nn.Sequential(to.nn.Linear(1, 1))]


def _names(c):
    return [[None] * len(c.bs), ["t%d" % i for i in range(len(c.bs))]]


def _bsz(c):
    return [list(c.bs), [], list(c.bs[:1]), [5]]


def _dim(c):
    return [0, -1, len(c.bs)]


# parameter name -> candidate generator (ctx, chosen-so-far) -> list
CAND = {
    "key": lambda c, a: _keys_old(c) + _keys_new(c)[:2],
    "old_key": lambda c, a: _keys_old(c), "in_key": lambda c, a: _keys_old(c), "mask_key": lambda c, a: [None, c.leaf[0]],
    "new_key": lambda c, a: _keys_new(c), "out_key": lambda c, a: _keys_new(c) + [None], "name": lambda c, a: _keys_new(c),
    "target": lambda c, a: _keys_old(c),
    "item": lambda c, a: _values(c, a.get("key")), "value": lambda c, a: _values(c, a.get("key")),
    "tensor": lambda c, a: _values(c, a.get("key"))[:3], "default": lambda c, a: [None, c.ones(c.bs), 0.0],
    "fill_value": lambda c, a: [0.0, 3], "data": lambda c, a: _values(c)[:2], "input": lambda c, a: _values(c)[:2] + _tds(c)[:2],
    "param": lambda c, a: [c.torch.nn.Parameter(c.ones(c.bs))],
    "other": lambda c, a: [c.twin(), 2.0, c.ones(c.bs), c.twin(extra=True), c.twin(drop=True)],
    "other1": lambda c, a: [c.twin(), 2.0], "other2": lambda c, a: [c.twin(), 2.0], "weight": lambda c, a: [0.5, c.twin()],
    "end": lambda c, a: [c.twin()], "src": lambda c, a: [c.twin(), c.twin(extra=True), 0], "dst": lambda c, a: [0],
    "min": lambda c, a: [0.0, None], "max": lambda c, a: [1.0, None], "alpha": lambda c, a: [None, 2.0],
    "input_dict_or_td": lambda c, a: _tds(c), "input_dict": lambda c, a: _tds(c), "tensordict": lambda c, a: _tds(c)[:3] + [_nested()],
    "state_dict": lambda c, a: [_state_dict(c)], "others": lambda c, a: [(), (c.twin(),)],
    "inplace": lambda c, a: [True, False], "ignore_lock": lambda c, a: [False, False, True],
    "clone": lambda c, a: [False, True], "strict": lambda c, a: [True, False], "safe": lambda c, a: [False, True],
    "recurse": lambda c, a: [True, False], "assign": lambda c, a: [False, True], "update_batch_size": lambda c, a: [False, True],
    "keys_to_update": lambda c, a: [None, [c.leaf[0]], [c.absent]],
    "dim": lambda c, a: _dim(c), "dim0": lambda c, a: [0], "dim1": lambda c, a: [-1, 0], "start_dim": lambda c, a: [0],
    "end_dim": lambda c, a: [-1], "index": lambda c, a: _idx(c), "idx": lambda c, a: _idx(c),
    "mask": lambda c, a: [c.torch.ones(c.bs, dtype=c.torch.bool)], "condition": lambda c, a: [c.torch.ones(c.bs, dtype=c.torch.bool)],
    "fn": lambda c, a: _fn(c), "hook": lambda c, a: _fn(c), "func": lambda c, a: _fn(c),
    "dtype": lambda c, a: [c.torch.float64, c.torch.float32, None], "dst_type": lambda c, a: [c.torch.float64],
    "device": lambda c, a: ["cpu", "meta", None], "batch_size": lambda c, a: _bsz(c), "size": lambda c, a: _bsz(c),
    "shape": lambda c, a: _bsz(c), "unflattened_size": lambda c, a: [list(c.bs[:1])], "names": lambda c, a: _names(c),
    "separator": lambda c, a: [".", "_"], "prefix": lambda c, a: [c.tmp(), None, c.tmp() + "/missing"], "filename": lambda c, a: [None, c.tmp() + "/f"],
    "num_threads": lambda c, a: [0, 2], "return_early": lambda c, a: [False], "module": lambda c, a: _module(c),
    "split_size": lambda c, a: [1, [1] * (c.bs[0] if c.bs else 1)], "chunks": lambda c, a: [1, 2], "repeats": lambda c, a: [1, 2],
    "batch_dims": lambda c, a: [len(c.bs), 0, None], "nested_keys": lambda c, a: [False, True],
    "key_sets": lambda c, a: [([c.leaf[0]],)], "rename_map": lambda c, a: [{c.leaf[0]: c.absent}],
    "storage": lambda c, a: [c.torch.zeros(c.bs).untyped_storage()], "memo": lambda c, a: [{}],
    "pad": lambda c, a: [[0, 1]], "padding": lambda c, a: [0], "output_size": lambda c, a: [None], "correction": lambda c, a: [1],
    "state": lambda c, a: [None], "group": lambda c, a: [None], "dest_cls": lambda c, a: [None], "lock": lambda c, a: [False, True],
    "mode": lambda c, a: [True], "destination": lambda c, a: [None], "keep_vars": lambda c, a: [False],
    "set_to_none": lambda c, a: [True, False], "requires_grad": lambda c, a: [False, True], "persistent": lambda c, a: [True],
    "stream": lambda c, a: [None], "convert_tensors": lambda c, a: [False], "swap_dest": lambda c, a: [None],
}
VARARG = {
    "keys": lambda c: [(c.leaf[0],), (c.absent,), tuple(c.nested[:1]) or (c.leaf[0],), (c.node[0],) if c.node else (c.leaf[0],),
                       tuple(c.leaf[:2]), ()],
    "others": lambda c: [(), (c.twin(),)],
    "dims_list": lambda c: [tuple(range(len(c.bs)))], "dims": lambda c: [tuple(range(len(c.bs)))],
    "shape": lambda c: [tuple(c.bs), (-1,)], "size": lambda c: [tuple(c.bs)], "names": lambda c: [tuple(_names(c)[1])],
    "repeats": lambda c: [(1,) * len(c.bs)],
}
# presets for methods whose signature is only (*args, **kwargs): tried in this order
GENERIC = [
    lambda c: ((), {}),
    lambda c: ((c.twin(),), {}),
    lambda c: ((c.leaf[0],), {}),
    lambda c: ((c.absent, c.ones(c.bs)), {}),
    lambda c: ((c.leaf[0], c.ones(c.shape_of(c.leaf[0]))), {}),
    lambda c: ((2.0,), {}),
    lambda c: ((0,), {}),
    lambda c: ((c.twin(extra=True),), {}),
    lambda c: ((c.absent,), {}),
    lambda c: (({c.absent: c.ones(c.bs)},), {}),
    lambda c: (({c.absent: c.ones(c.bs)},), {"inplace": True}),
    lambda c: ((c.absent, c.ones(c.bs)), {"inplace": True}),
    lambda c: ((c.leaf[0], c.absent), {}),
    lambda c: ((c.twin(), c.twin()), {}),
    lambda c: ((c.torch.float64,), {}),
    lambda c: ((lambda *xs: xs[-1] + 1,), {}),
    lambda c: ((lambda *xs: xs[-1] + 1,), {"inplace": True}),
    lambda c: ((0, c.twin()), {}),
]
# __setitem__ / __setattr__ / __delitem__ have positional-only style signatures: explicit presets
SPECIAL = {
    "__setitem__": [lambda c: ((c.absent, c.ones(c.bs)), {}),
                    lambda c: ((c.torch.arange(c.bs[0]) if c.bs else 0, c.twin()), {}),
                    lambda c: ((0, c.twin()[0] if c.bs else c.twin()), {}),
                    lambda c: (((c.node[0], c.absent) if c.node else (c.absent, "q"), c.ones(c.bs)), {}),
                    lambda c: ((list(range(c.bs[0])) if c.bs else 0, c.twin()), {}),
                    lambda c: ((slice(None), c.twin(extra=True)), {}),
                    lambda c: ((c.leaf[0], c.ones(c.shape_of(c.leaf[0]))), {}),
                    lambda c: ((c.leaf[0], c.ones((7,))), {}),
                    lambda c: ((c.node[0] if c.node else c.absent, {"u": c.ones(c.bs)}), {}),
                    lambda c: ((0, {c.absent: c.ones(c.bs[1:])}), {}),
                    lambda c: ((c.leaf[0], "text"), {}),
                    lambda c: ((c.torch.ones(c.bs[:1], dtype=c.torch.bool) if c.bs else 0, c.twin()), {}),
                    lambda c: ((range(c.bs[0]) if c.bs else 0, c.twin(extra=True)), {})],
    "__delitem__": [lambda c: ((c.leaf[0],), {}), lambda c: ((c.nested[0] if c.nested else c.absent,), {}), lambda c: ((c.absent,), {}),
                    lambda c: ((c.node[0] if c.node else c.leaf[0],), {})],
    "__setattr__": [lambda c: ((c.leaf[0], c.ones(c.shape_of(c.leaf[0]))), {}), lambda c: ((c.absent, c.ones(c.bs)), {}),
                    lambda c: ((c.node[0] if c.node else c.leaf[0], _nested()), {}), lambda c: (("batch_size", list(c.bs)), {}),
                    lambda c: ((c.leaf[0], None), {})],
    "__delattr__": [lambda c: ((c.leaf[0],), {}), lambda c: ((c.node[0] if c.node else c.absent,), {})],
    "insert": [lambda c: ((0, _member_like(c)), {}), lambda c: ((1, _member_like(c)), {})],
    "append": [lambda c: ((_member_like(c),), {})],
    "__exit__": [lambda c: ((None, None, None), {})],
}


def _member_like(c):
    try:
        return c.h.tensordicts[0].clone().unlock_() if hasattr(c.h, "tensordicts") else c.twin()
    except Exception:  # noqa: BLE001
        return c.twin()


def _state_dict(c):
    try:
        return c.h.state_dict()
    except Exception:  # noqa: BLE001
        return {}


def signature_of(obj, name):
    """signature used for synthesis; falls back to TensorDict's when the class only exposes (*args, **kwargs)"""
    t = T()
    try:
        sig = inspect.signature(getattr(obj, name))
    except (ValueError, TypeError):
        return None
    ps = list(sig.parameters.values())
    generic = all(p.kind in (p.VAR_POSITIONAL, p.VAR_KEYWORD) for p in ps) and len(ps) > 0
    if generic:
        for cls in (t["TD"], t["tensordict"].TensorDictBase):
            f = getattr(cls, name, None)
            if f is None:
                continue
            try:
                s2 = inspect.signature(f)
            except (ValueError, TypeError):
                continue
            p2 = list(s2.parameters.values())[1:]
            if p2 and not all(p.kind in (p.VAR_POSITIONAL, p.VAR_KEYWORD) for p in p2):
                return s2.replace(parameters=p2)
        return "generic"
    return sig


def synthesise(obj, name, variant, rng, tmpdirs):
    """returns (args, kwargs, how) or (None, None, reason).  variant 0.. enumerates candidates in a mixed-radix way so that the
    first variants are the structure-attacking ones (absent key, inplace=True)"""
    c = Ctx(obj, rng, tmpdirs)
    if name in SPECIAL:
        ps = SPECIAL[name]
        if variant >= len(ps):
            return None, None, "exhausted"
        a, k = ps[variant](c)
        return list(a), k, "special"
    sig = signature_of(obj, name)
    if sig is None:
        return None, None, "no-signature"
    if sig == "generic":
        if variant >= len(GENERIC):
            return None, None, "exhausted"
        a, k = GENERIC[variant](c)
        return list(a), k, "generic"
    args, kwargs, chosen = [], {}, {}
    v = variant
    nchoices = 1
    for p in sig.parameters.values():
        if p.kind == p.VAR_KEYWORD:
            continue
        if p.kind == p.VAR_POSITIONAL:
            gen = VARARG.get(p.name)
            if gen is None:
                if p.name == "args":
                    # e.g. to(*args), view(*shape) style: small presets
                    cs = [(), ("cpu",), (c.torch.float64,), tuple(c.bs)]
                else:
                    continue
            else:
                cs = gen(c)
            nchoices *= len(cs)
            args.extend(cs[v % len(cs)])
            v //= len(cs)
            continue
        gen = CAND.get(p.name)
        has_default = p.default is not inspect.Parameter.empty
        if gen is None:
            if has_default:
                continue
            return None, None, "no-candidate:" + p.name
        cs = gen(c, chosen)
        if has_default and p.name not in ("inplace", "key", "item", "value", "default", "strict", "ignore_lock", "clone", "safe",
                                          "dtype", "device", "batch_size", "dim", "separator", "names", "update_batch_size", "keys_to_update",
                                          "prefix", "recurse", "assign"):
            # optional, rarely relevant: keep the default on most variants
            if rng.random() < 0.75:
                continue
        nchoices *= len(cs)
        val = cs[v % len(cs)]
        v //= len(cs)
        chosen[p.name] = val
        if p.kind == p.KEYWORD_ONLY or (has_default and p.kind != p.POSITIONAL_ONLY):
            kwargs[p.name] = val
        else:
            args.append(val)
    if variant >= nchoices and variant > 0:
        return None, None, "exhausted"
    return args, kwargs, "signature"


def describe(x, depth=0):
    """JSON-able description of a synthesised argument (for samples / replay files)"""
    t = T()
    if isinstance(x, t["torch"].Tensor):
        return f"tensor{tuple(x.shape)}:{str(x.dtype).replace('torch.', '')}"
    if isinstance(x, (str, int, float, bool, type(None))):
        return x
    if isinstance(x, range):
        return "range"
    if isinstance(x, (list, tuple)) and depth < 3:
        return [describe(y, depth + 1) for y in x]
    if isinstance(x, dict) and depth < 3:
        return {str(k): describe(v, depth + 1) for k, v in x.items()}
    if t["is_coll"](type(x)):
        try:
            return f"{type(x).__name__}(keys={sorted(map(str, x.keys(True, True)))}, bs={list(x.batch_size)})"
        except Exception:  # noqa: BLE001
            return type(x).__name__
    if callable(x):
        return "<fn>"
    return type(x).__name__


# ------------------------------------------------------------------------------------------------ one reflected call
def exc_enum(e):
    if isinstance(e, Timeout):
        return "timeout"
    if isinstance(e, TypeError):
        return "TypeError"
    if isinstance(e, KeyError):
        return "KeyError"
    if isinstance(e, (RuntimeError,)):
        return "RuntimeError"
    if isinstance(e, (ValueError, IndexError, AttributeError, NotImplementedError)):
        return type(e).__name__
    return "other:" + type(e).__name__


def run_call(fixture, handle, method, variant, seed, keep=False):
    """builds the fixture, issues ONE call, returns the observation dict (never raises)"""
    import random
    rng = random.Random(f"{seed}/{fixture}/{handle}/{method}/{variant}")
    obs = {"fixture": fixture, "handle": handle, "method": method, "variant": variant}
    tmpdirs = []
    try:
        roots, handles, tmp, meta = FIXTURES[fixture]()
        tmpdirs.extend(tmp)
    except Exception as e:  # noqa: BLE001
        obs.update(status="fixture-error", detail=f"{type(e).__name__}: {e}"[:300])
        return obs
    try:
        h = handles[handle]
        try:
            args, kwargs, how = synthesise(h, method, variant, rng, tmpdirs)
        except Exception as e:  # noqa: BLE001 -- a candidate that cannot be built for this handle (e.g. indexing an empty batch)
            args, kwargs, how = None, None, "candidate-not-constructible:" + type(e).__name__
        if args is None:
            obs.update(status="unsynth", detail=how)
            return obs
        obs["args"] = describe(args)
        obs["kwargs"] = describe(kwargs)
        obs["how"] = how
        before = Snap(roots)
        obs["locked_before"] = all(v is True for v in before.locks().values())
        f = getattr(h, method)
        old = signal.signal(signal.SIGALRM, _alarm)
        signal.alarm(60)
        outcome = "timeout"
        try:
            try:
                r = f(*args, **kwargs)
                outcome = "ok"
                # generators / lazy results: drain a little so that deferred work happens
                if inspect.isgenerator(r):
                    for _i, _x in zip(range(3), r):
                        pass
            except Timeout:
                outcome = "timeout"
            except BaseException as e:  # noqa: BLE001
                if isinstance(e, (KeyboardInterrupt, SystemExit)):
                    raise
                outcome = exc_enum(e)
                obs["exc"] = f"{type(e).__name__}: {e}"[:200]
        except Timeout:
            outcome = "timeout"      # the alarm went off while the exception of the call was being recorded
        finally:
            signal.alarm(0)
            signal.signal(signal.SIGALRM, old)
        r = None
        after = Snap(roots)
        obs["outcome"] = outcome
        sdiff = diff_struct(before.structure(), after.structure())
        kdiff = diff_struct(before.keyset(), after.keyset())
        bs_, as_ = before.structure(), after.structure()
        ldiff = sorted(fmt_path(p) for p, v in after.locks().items()
                       if v is not True and before.locks().get(p) is True and bs_.get(p) == as_.get(p))   # same object, no longer locked
        pb, pa = before.ptrs(), after.ptrs()
        pdiff = sorted(fmt_path(p) for p in pb if p in pa and pa[p] != pb[p] and p not in
                       {q for q in before.structure() if before.structure()[q] != after.structure().get(q)})
        lazy_paths = [p for p, r in before.rows.items() if r[0] == "lazy"]
        changed = [p for p in set(bs_) | set(as_) if bs_.get(p) != as_.get(p)]
        obs["still_locked"] = sorted(fmt_path(p) for p, v in after.locks().items() if v is True)
        obs["rebound_under_lazy"] = bool(changed) and all(any(p[:len(lp)] == lp and len(p) > len(lp) for lp in lazy_paths) for p in changed)
        obs.update(status="called", struct_diff=sdiff, key_diff=kdiff, unlocked=ldiff, ptr_diff=pdiff,
                   meta=meta, is_root_handle=(handle in roots) or handle in meta.get("unlock_roots", []), nodes=len(before.locks()),
                   handle_kind=kind_of(h))
        if keep:
            obs["_objects"] = (roots, handles, before, after)
        return obs
    except Exception as e:  # noqa: BLE001
        import traceback
        obs.update(status="harness-error", detail=traceback.format_exc()[-600:])
        return obs
    finally:
        for d in tmpdirs:
            shutil.rmtree(d, ignore_errors=True)


def judge(obs):
    """the oracle.  Returns list of (label, detail, signature) for this observation; empty = property respected.
    Demands exactly the property: on a tree locked by a public call, no public call adds/removes/renames/rebinds an entry,
    and no member gets unlocked; except unlock_ issued on a root, and the documented storage conversions."""
    if obs.get("status") != "called":
        return []
    out = _judge(obs)
    return [(label, detail, dict(sig, pattern=pattern_of(obs, label))) for (label, detail, sig) in out]


def _judge(obs):
    m, meta = obs["method"], obs["meta"]
    out = []
    sig_base = {"call": m, "fixture_kind": meta["locked_by"]}
    struct, keyd, unl = obs["struct_diff"], obs["key_diff"], obs["unlocked"]
    if m in LOADERS:
        if unl:
            out.append(("locked_frozen:unlocked-by-call", unl,
                        dict(sig_base, effect="unlocked-on-raise" if obs["outcome"] != "ok" else "unlocked")))
        return out
    if m in STORAGE_CONVERSION:
        # bindings may change (that is the conversion); entries may not disappear; make_memmap* may add the key it was given
        removed = [d for d in keyd if not d.startswith("added")]
        if removed:
            out.append(("locked_frozen:storage-conversion-removed", removed, dict(sig_base, effect="removed")))
        if keyd and not m.startswith("make_memmap") and [d for d in keyd if d.startswith("added")]:
            out.append(("locked_frozen:storage-conversion-added", keyd, dict(sig_base, effect="added")))
        if unl:
            out.append(("locked_frozen:unlocked-by-call", unl, dict(sig_base, effect="unlocked")))
        return out
    if m in UNLOCKERS and obs["is_root_handle"] and not meta.get("coroots"):
        # unlocking the root is the documented way out; structure must still be intact, and the whole tree is writable again
        if struct:
            out.append(("locked_frozen:structure", struct, dict(sig_base, effect="structure")))
        if obs["outcome"] == "ok" and obs.get("still_locked") and not meta.get("content_stays_locked"):   # (TensorDictParams(lock=True): documented)
            out.append(("unlock_root_frees:still-locked", obs["still_locked"], dict(sig_base, effect="still-locked")))
        return out
    if struct:
        effect = "rebound" if all(d.startswith("rebound") for d in struct) else "keys"
        out.append(("locked_frozen:structure", struct, dict(sig_base, effect=effect, inplace_kw=bool((obs.get("kwargs") or {}).get("inplace")) if isinstance(obs.get("kwargs"), dict) else False)))
    if obs["ptr_diff"] and not struct:
        out.append(("locked_frozen:storage-swapped", obs["ptr_diff"], dict(sig_base, effect="storage")))
    if unl and not struct:      # (with a structure change the lock state of the replaced part is a consequence of it)
        if obs["outcome"] == "ok":
            out.append(("member_cannot_unlock:unlocked", unl, dict(sig_base, effect="unlocked", handle_is_root=obs["is_root_handle"])))
        else:
            out.append(("member_cannot_unlock:flags-not-restored", unl, dict(sig_base, effect="unlocked-on-raise", handle_is_root=obs["is_root_handle"])))
    return out
