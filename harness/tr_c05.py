"""C05 translator: from /repo's current source (pure ast, nothing imported) to coq/Gen/C05_Tables.v:
  * every method carrying @lock_blocked, per class,
  * every method whose body writes the container's own storage (TensorDict._tensordict, LazyStackedTensorDict.tensordicts,
    TensorDictParams._param_td, tensorclass _tensordict/_non_tensordict) with the guard it carries:
      GDecorator  @lock_blocked on the method
      GInline     an `if ... is_locked ...: raise` inside the body (TensorDict._set_str, _select)
      GNone       no guard in the method itself
The finite theorem C05_guard_table (Props/C05.v) is over these rows."""
import ast
import os

from .core import COQ, REPO
from .translate import TranslateError, coq_list, coq_str, translator, write_if_changed

FILES = {
    "_td.py": {"TensorDict": ["_tensordict"], "_SubTensorDict": ["_source"]},
    "_lazy.py": {"LazyStackedTensorDict": ["tensordicts"]},
    "base.py": {"TensorDictBase": ["_tensordict"]},
    "nn/params.py": {"TensorDictParams": ["_param_td"]},
    "tensorclass.py": {"<module>": ["_tensordict"]},   # _non_tensordict holds plain python payloads: not part of the structure snapshot
}
MUTATING_CALLS = {"pop", "popitem", "clear", "update", "setdefault", "insert", "append", "remove", "extend", "__setitem__", "__delitem__",
                  "sort", "reverse"}


def _is_storage_attr(node, stores):
    return isinstance(node, ast.Attribute) and node.attr in stores


def _alias_names(fn, stores):
    """local names bound (anywhere in the function) to <obj>.<storage>"""
    names = set()
    for n in ast.walk(fn):
        if isinstance(n, ast.Assign) and len(n.targets) == 1 and isinstance(n.targets[0], ast.Name):
            v = n.value
            cands = [v] + ([v.body, v.orelse] if isinstance(v, ast.IfExp) else [])
            if any(_is_storage_attr(c, stores) for c in cands):
                names.add(n.targets[0].id)
    return names


def _writes(fn, stores):
    alias = _alias_names(fn, stores)

    def is_store_expr(e):
        return _is_storage_attr(e, stores) or (isinstance(e, ast.Name) and e.id in alias)
    kinds = set()
    for n in ast.walk(fn):
        targets = []
        if isinstance(n, ast.Assign):
            targets = n.targets
        elif isinstance(n, (ast.AugAssign, ast.AnnAssign)):
            targets = [n.target]
        elif isinstance(n, ast.Delete):
            targets = n.targets
        for t in targets:
            for tt in (t.elts if isinstance(t, (ast.Tuple, ast.List)) else [t]):
                if _is_storage_attr(tt, stores):
                    kinds.add("rebind-storage")
                if isinstance(tt, ast.Subscript) and is_store_expr(tt.value):
                    kinds.add("delete-item" if isinstance(n, ast.Delete) else "set-item")
        if isinstance(n, ast.Call) and isinstance(n.func, ast.Attribute) and n.func.attr in MUTATING_CALLS and is_store_expr(n.func.value):
            kinds.add("call-" + n.func.attr)
        # self.__dict__["_tensordict"] = ...
        if isinstance(n, ast.Assign):
            for t in n.targets:
                if isinstance(t, ast.Subscript) and isinstance(t.value, ast.Attribute) and t.value.attr == "__dict__" and \
                        isinstance(t.slice, ast.Constant) and t.slice.value in stores:
                    kinds.add("rebind-storage")
    return kinds


def _decorators(fn):
    out = []
    for d in fn.decorator_list:
        if isinstance(d, ast.Name):
            out.append(d.id)
        elif isinstance(d, ast.Attribute):
            out.append(d.attr)
        elif isinstance(d, ast.Call):
            f = d.func
            out.append(f.id if isinstance(f, ast.Name) else getattr(f, "attr", "?"))
    return out


def _inline_guard(fn):
    """an `if <...is_locked...>: raise` anywhere in the body"""
    for n in ast.walk(fn):
        if isinstance(n, ast.If):
            mentions = any(isinstance(x, ast.Attribute) and x.attr in ("is_locked", "_is_locked") for x in ast.walk(n.test))
            raises = any(isinstance(x, ast.Raise) for b in n.body for x in ast.walk(b))
            if mentions and raises:
                return True
    return False


def extract():
    rows = []          # (file, class, method, guard, kinds)
    blocked = []       # (file, class, method)
    seen_lock_blocked_def = False
    upath = os.path.join(REPO, "tensordict", "utils.py")
    try:
        utree = ast.parse(open(upath).read())
    except (OSError, SyntaxError) as e:
        raise TranslateError(f"cannot parse {upath}: {e}")
    for n in utree.body:
        if isinstance(n, ast.FunctionDef) and n.name == "lock_blocked":
            seen_lock_blocked_def = True
            src = ast.unparse(n)
            # the decorator must test is_locked and raise; its kwargs escapes are part of the recognised shape
            if "is_locked" not in src or "raise" not in src:
                raise TranslateError("utils.lock_blocked no longer tests is_locked / raises")
            escapes = sorted(k for k in ("ignore_lock", "inplace") if f'"{k}"' in src or f"'{k}'" in src)
    if not seen_lock_blocked_def:
        raise TranslateError("utils.lock_blocked not found")
    for rel, classes in FILES.items():
        path = os.path.join(REPO, "tensordict", rel)
        try:
            tree = ast.parse(open(path).read())
        except (OSError, SyntaxError) as e:
            raise TranslateError(f"cannot parse {path}: {e}")
        found = set()
        for cls in tree.body:
            if not isinstance(cls, ast.ClassDef) or cls.name not in classes:
                continue
            found.add(cls.name)
            stores = classes[cls.name]
            for fn in cls.body:
                if not isinstance(fn, (ast.FunctionDef, ast.AsyncFunctionDef)):
                    continue
                decs = _decorators(fn)
                if "lock_blocked" in decs:
                    blocked.append((rel, cls.name, fn.name))
                kinds = _writes(fn, stores)
                if cls.name in ("TensorDictParams", "_SubTensorDict"):
                    kinds &= {"rebind-storage"}     # their storage is a TensorDict: item writes are delegations to its guarded API
                if kinds:
                    guard = "GDecorator" if "lock_blocked" in decs else ("GInline" if _inline_guard(fn) else "GNone")
                    rows.append((rel, cls.name, fn.name, guard, sorted(kinds)))
        if "<module>" in classes:
            found.add("<module>")
            stores = classes["<module>"]

            def walk_fns(body):
                for fn in body:
                    if isinstance(fn, (ast.FunctionDef, ast.AsyncFunctionDef)):
                        yield fn
                        yield from walk_fns(fn.body)
            for fn in walk_fns(tree.body):
                args = [a.arg for a in fn.args.args]
                if not args or args[0] != "self":
                    continue
                # the storage of a tensorclass is itself a TensorDict: item writes go through its guarded API; only rebinding is raw
                kinds = _writes(fn, stores) & {"rebind-storage"}
                if kinds:
                    decs = _decorators(fn)
                    guard = "GDecorator" if "lock_blocked" in decs else ("GInline" if _inline_guard(fn) else "GNone")
                    rows.append((rel, "tensorclass", fn.name, guard, sorted(kinds)))
        missing = set(classes) - found
        if missing:
            raise TranslateError(f"{rel}: class(es) {sorted(missing)} not found")
    if not any(r[2] == "_set_str" and r[1] == "TensorDict" for r in rows):
        raise TranslateError("TensorDict._set_str is no longer recognised as a writer of _tensordict (source shape changed)")
    if len(blocked) < 5:
        raise TranslateError("fewer than 5 @lock_blocked methods found: decorator spelled differently?")
    return rows, blocked, escapes


@translator("c05_tables")
def run():
    rows, blocked, escapes = extract()
    lines = ["(* GENERATED by harness/tr_c05.py from /repo's source on every run -- do not edit. *)",
             "From Coq Require Import List String.", "Import ListNotations.", "Open Scope string_scope.", "",
             "Inductive guard := GDecorator | GInline | GNone.", "",
             "(* (file, class, method) carrying @lock_blocked *)",
             "Definition lock_blocked_methods : list (string * string * string) :=",
             "  " + coq_list([f"({coq_str(a)}, {coq_str(b)}, {coq_str(c)})" for a, b, c in sorted(blocked)]) + ".", "",
             "(* kwargs that switch the decorator off *)",
             "Definition lock_blocked_escapes : list string := " + coq_list([coq_str(e) for e in escapes]) + ".", "",
             "(* (file, class, method, guard found in the method itself) for every method that writes the container's own storage *)",
             "Definition storage_writers : list (string * string * string * guard) :=",
             "  " + coq_list([f"({coq_str(a)}, {coq_str(b)}, {coq_str(c)}, {g})" for a, b, c, g, _k in sorted(rows)]) + ".", ""]
    path = os.path.join(COQ, "Gen", "C05_Tables.v")
    changed = write_if_changed(path, "\n".join(lines))
    return {"lock_blocked": len(blocked), "storage_writers": len(rows), "unguarded_writers": sorted(f"{b}.{c}" for a, b, c, g, _ in rows if g == "GNone"),
            "escapes": escapes, "rewritten": changed}
