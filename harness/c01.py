"""C01 — batch-shape, device and dim-name coherence in every reachable state (DESIGN.md §4 C01).

Two comparisons, kept apart:
  * ORACLE (model-independent): after EVERY public mutating call — also the raising ones — the real object is walked
    recursively from the root (batch_size / device / names / entries; members of lazy stacks; the tensordict inside a
    tensorclass; NonTensorData entries) and `coherent(snapshot)` is evaluated: leading dims of every entry = batch size of
    its container, nested batch sizes extend the parent's, entries live on the container's device when it has one, one
    dim name per batch dim.  A failure is a concrete replayable history (fixture + op list).
  * CORRESPONDENCE: for histories over plain TensorDict trees (tensor leaves, nested TensorDicts, NonTensorData entries)
    every step is also evaluated by the extracted Coq model (Model/C01_Tree.v, C01_Ops.v) from the snapshot of the real
    pre-state; outcome (ok / raised) and the snapshot of the real post-state must equal the model's.  The model's own
    `coherentb` and `in_scopeb` are evaluated on the same snapshots (the boolean twin used by the theorems must agree with
    the oracle written here)."""
import json
import os
import random
import sys

import torch
from tensordict import LazyStackedTensorDict, NonTensorData, NonTensorStack, TensorDict, lazy_stack, tensorclass
from tensordict.base import TensorDictBase

from .core import Sym, some, sx

PID = "C01"


@tensorclass
class TCab:
    a: torch.Tensor = None
    b: torch.Tensor = None
    n: TensorDict = None


ELL = "..."     # JSON spelling of Ellipsis in refine_names


# ====================================================================================================== building values
def build(d):
    """value descriptor (JSON) -> python object handed to tensordict.  Everything goes through public constructors."""
    k = d[0]
    if k == "t":
        return torch.zeros(tuple(d[1]), dtype=torch.int64, device=d[2])
    if k == "sc":
        return 1
    if k == "str":
        return d[1]
    if k == "td":
        _, bs, dev, names, ents = d
        return TensorDict({key: build(v) for key, v in ents}, batch_size=list(bs), device=dev, names=names)
    if k == "dict":
        return {key if isinstance(key, str) else tuple(key): build(v) for key, v in d[1]}
    if k == "ntd":
        return NonTensorData("x", batch_size=list(d[1]))
    if k == "lazy":
        return lazy_stack([build(m) for m in d[2]], d[1])
    if k == "tc":
        return TCab._from_tensordict(build(d[1]))
    raise ValueError(d)


def build_idx(d):
    k = d[0]
    if k == "int":
        return d[1]
    if k == "sl":
        return slice(d[1], d[2], d[3])
    if k == "list":
        return list(d[1])
    if k == "ten":
        return torch.tensor(d[1], dtype=torch.int64)
    if k == "mask":
        return torch.tensor(d[1], dtype=torch.bool)
    if k == "ten2":
        return torch.tensor(d[1], dtype=torch.int64)        # integer index array of rank 2
    if k == "ell":
        return Ellipsis
    if k == "non":
        return None
    if k == "tup":
        return tuple(build_idx(x) for x in d[1])
    raise ValueError(d)


# ====================================================================================================== snapshots
def _dev(x):
    d = getattr(x, "device", None)
    return None if d is None else d.type


def _safe_empty(v):
    try:
        return bool(v.is_empty())
    except Exception:  # noqa: BLE001
        return False


def _names(x):
    try:
        n = x.names
    except Exception as e:  # noqa: BLE001
        return ["<names raised %s>" % type(e).__name__]
    return None if n is None else list(n)


def snap(x, seen=None, onpath=frozenset()):
    """recursive, value-free snapshot of a real object; `seen` collects ids of container nodes (alias detection)"""
    if seen is None:
        seen = {}
    if isinstance(x, torch.Tensor):
        return {"k": "leaf", "shape": list(x.shape), "dev": x.device.type}
    if id(x) in onpath or len(onpath) > 60:
        # an object graph with a cycle (a tensordict reachable from one of its own non-tensor entries): not walked further
        return {"k": "unknown-cycle"}
    onpath = onpath | {id(x)}
    if isinstance(x, LazyStackedTensorDict) and not isinstance(x, NonTensorStack):
        seen[id(x)] = seen.get(id(x), 0) + 1
        out = {"k": "lazy", "bs": list(x.batch_size), "dev": _dev(x), "names": _names(x), "dim": x.stack_dim,
               "members": [snap(m, seen, onpath) for m in x.tensordicts], "view": []}
        try:
            keys = list(x.keys())
        except Exception:  # noqa: BLE001
            keys = []
        for key in keys:
            try:
                v = x.get(key)
            except Exception:  # noqa: BLE001
                continue      # entries that cannot be stacked densely have no public shape
            if isinstance(v, torch.Tensor):
                out["view"].append([key, {"k": "leaf", "shape": list(v.shape), "dev": v.device.type}])
            elif isinstance(v, TensorDictBase) or hasattr(v, "batch_size"):
                out["view"].append([key, {"k": "shape-only", "bs": list(v.batch_size), "dev": _dev(v),
                                          "nt": isinstance(v, (NonTensorData, NonTensorStack)),
                                          "empty": _safe_empty(v)}])
        return out
    if isinstance(x, (NonTensorData, NonTensorStack)):
        seen[id(x)] = seen.get(id(x), 0) + 1
        hidden = []
        inner = getattr(x, "_tensordict", None)
        if isinstance(x, NonTensorData) and isinstance(inner, TensorDict):
            hidden = [[key, snap(v, seen, onpath)] for key, v in inner._tensordict.items()]      # entries written THROUGH the non-tensor node
        return {"k": "nt" if isinstance(x, NonTensorData) else "nts", "bs": list(x.batch_size), "dev": _dev(x), "names": _names(x),
                "ents": hidden}
    if isinstance(x, TensorDict):
        seen[id(x)] = seen.get(id(x), 0) + 1
        return {"k": "td", "bs": list(x.batch_size), "dev": _dev(x), "names": _names(x),
                "ents": [[key, snap(v, seen, onpath)] for key, v in x._tensordict.items()]}
    if isinstance(x, TensorDictBase):
        seen[id(x)] = seen.get(id(x), 0) + 1
        return {"k": "other-" + type(x).__name__, "bs": list(x.batch_size), "dev": _dev(x), "names": _names(x),
                "ents": [[key, snap(v, seen, onpath)] for key, v in x.items()]}
    if hasattr(x, "_tensordict") and hasattr(x, "batch_size"):      # tensorclass instance
        seen[id(x)] = seen.get(id(x), 0) + 1
        inner = snap(x._tensordict, seen, onpath)
        return {"k": "tc", "bs": list(x.batch_size), "dev": _dev(x), "names": _names(x), "ents": inner.get("ents", []),
                "inner": inner}
    return {"k": "unknown-" + type(x).__name__}


def canon_names(n):
    if n is None or all(v is None for v in n):
        return None
    return list(n)


# ====================================================================================================== the oracle
def duplicate_names(s, path=(), out=None):
    """dim-name coherence as the library itself defines it (names setter, constructor, _rename_subtds all refuse a name used
    for two dims): non-None names of a node are pairwise different.  Evaluated on the RESULTS of indexed reads."""
    if out is None:
        out = []
    n = s.get("names")
    if n is not None and not (n and str(n[0]).startswith("<names raised")):
        named = [x for x in n if x is not None]
        if len(set(named)) != len(named):
            out.append({"what": "names-duplicate", "at": list(path), "names": list(n), "batch_size": s.get("bs")})
    for key, v in (s.get("ents") or []):
        if isinstance(v, dict) and v.get("k") in ("td", "tc", "nt"):
            duplicate_names(v, path + (key,), out)
    return out


def coherent(s, pbs=None, pdev=None, path=(), out=None):
    """problems of a snapshot (empty list = coherent): exactly the four clauses of the property"""
    if out is None:
        out = []
    k = s["k"]
    if k == "leaf":
        if pbs is not None and s["shape"][:len(pbs)] != pbs:
            out.append({"what": "entry-shape", "at": list(path), "shape": s["shape"], "container_batch_size": pbs})
        if pdev is not None and s["dev"] != pdev:
            out.append({"what": "entry-device", "at": list(path), "device": s["dev"], "container_device": pdev})
        return out
    if k.startswith("unknown") or k == "shape-only":
        if k == "shape-only" and pbs is not None and s["bs"][:len(pbs)] != pbs:
            out.append({"what": "nested-batch", "at": list(path), "batch_size": s["bs"], "parent_batch_size": pbs})
        return out
    bs = s["bs"]
    if pbs is not None and bs[:len(pbs)] != pbs:
        out.append({"what": "nested-batch", "at": list(path), "batch_size": bs, "parent_batch_size": pbs})
    if pdev is not None and s["dev"] != pdev and not (k in ("nt", "nts") and s["dev"] is None):
        out.append({"what": "nested-device", "at": list(path), "device": s["dev"], "parent_device": pdev})
    n = s["names"]
    if n is not None and len(n) != len(bs):
        out.append({"what": "names-count", "at": list(path), "names": n, "batch_size": bs})
    if k == "lazy":
        dim = s["dim"]
        for i, m in enumerate(s["members"]):
            coherent(m, None, s["dev"], path + ("<member %d>" % i,), out)
            mb = list(m.get("bs", []))
            if 0 <= dim <= len(mb):
                want = mb[:dim] + [len(s["members"])] + mb[dim:]
                if want != bs:
                    out.append({"what": "lazy-batch", "at": list(path), "batch_size": bs, "member": i, "member_batch_size": mb})
            else:
                out.append({"what": "lazy-batch", "at": list(path), "batch_size": bs, "member": i, "member_batch_size": mb})
        for key, v in s["view"]:
            coherent(v, bs, s["dev"], path + (key,), out)
        return out
    if k == "tc" and s.get("inner") is not None:
        inner = s["inner"]
        if inner.get("bs") != bs:
            out.append({"what": "tensorclass-batch", "at": list(path), "batch_size": bs, "inner": inner.get("bs")})
    for key, v in s.get("ents", []):
        coherent(v, bs, s["dev"], path + (key,), out)
    return out


# ====================================================================================================== executing ops
def key_of(k):
    """JSON key (list of strings) -> the public spelling: a string for length 1, a tuple otherwise"""
    return k[0] if len(k) == 1 else tuple(k)


def handle(root, path):
    h = root
    for p in path:
        h = h.get(p)
    return h


def names_arg(ns):
    return None if ns is None else [Ellipsis if n == ELL else n for n in ns]


def run_op(root, op):
    """execute one op on the real object; returns ("ok"|"raise"|"skip", detail)"""
    try:
        h = handle(root, op.get("path", []))
    except Exception as e:  # noqa: BLE001
        return ("skip", "handle:" + type(e).__name__)
    if not hasattr(h, "batch_size") or isinstance(h, torch.Tensor):
        return ("skip", "handle-not-a-container")
    o = op["op"]
    val = None
    if "value" in op:
        try:
            val = build(op["value"])
        except Exception as e:  # noqa: BLE001
            return ("skip", "value:" + type(e).__name__)
        if isinstance(val, LazyStackedTensorDict) and any(d < 0 for d in val.batch_size):
            # lazy_stack() of members with different batch sizes is tensordict's RAGGED stack: its batch size has -1 along the
            # heterogeneous dims, so "the stack's batch size = the members' with the count inserted" is undefined for it.
            # Such a value is not handed over (seen once in ~1.2 M thorough calls: a false alarm of the lazy-batch clause).
            return ("skip", "value:ragged-lazy-stack")
    try:
        if o == "set":
            h.set(key_of(op["key"]), val, inplace=op.get("inplace", False))
        elif o == "setitem":
            h[key_of(op["key"])] = val
        elif o == "set_":
            h.set_(key_of(op["key"]), val)
        elif o == "set_at_":
            h.set_at_(key_of(op["key"]), val, build_idx(op["idx"]))
        elif o == "setitem_idx":
            h[build_idx(op["idx"])] = val
        elif o == "update":
            kw = {}
            if op.get("inplace"):
                kw["inplace"] = True
            if op.get("ubs"):
                kw["update_batch_size"] = True
            if op.get("ktu") is not None:
                kw["keys_to_update"] = [key_of(k) for k in op["ktu"]]
            h.update(val, **kw)
        elif o == "update_":
            h.update_(val)
        elif o == "update_at_":
            h.update_at_(val, build_idx(op["idx"]))
        elif o == "del":
            h.del_(key_of(op["key"]))
        elif o == "delitem":
            del h[key_of(op["key"])]
        elif o == "pop":
            if op.get("default"):
                h.pop(key_of(op["key"]), None)
            else:
                h.pop(key_of(op["key"]))
        elif o == "popitem":
            h.popitem()
        elif o == "rename_key_":
            h.rename_key_(key_of(op["key"]), key_of(op["new"]), safe=op.get("safe", False))
        elif o == "batch_size":
            h.batch_size = torch.Size(op["bs"]) if op.get("as_size") else list(op["bs"])
        elif o == "names":
            h.names = None if op["names"] is None else list(op["names"])
        elif o == "refine_names":
            h.refine_names(*names_arg(op["names"]))
        elif o == "rename_":
            h.rename_(*names_arg(op["names"]))
        elif o == "auto_batch_size_":
            h.auto_batch_size_(op.get("k"))
        elif o == "flatten_keys":
            h.flatten_keys(op.get("sep", "."), inplace=True)
        elif o == "unflatten_keys":
            h.unflatten_keys(op.get("sep", "."), inplace=True)
        elif o == "select":
            h.select(*[key_of(k) for k in op["keys"]], inplace=True, strict=op.get("strict", True))
        elif o == "exclude":
            h.exclude(*[key_of(k) for k in op["keys"]], inplace=True)
        elif o == "create_nested":
            h.create_nested(key_of(op["key"]))
        elif o == "setdefault":
            h.setdefault(key_of(op["key"]), val)
        elif o == "clear":
            h.clear()
        elif o == "set_non_tensor":
            h.set_non_tensor(key_of(op["key"]), "s")
        elif o == "lazy_append":
            h.append(val)
        elif o == "lazy_insert":
            h.insert(op["i"], val)
        elif o == "getitem":
            r = h[build_idx(op["idx"])]
            return ("ok", r)
        else:
            return ("skip", "unknown-op")
    except Exception as e:  # noqa: BLE001
        return ("raise", type(e).__name__)
    return ("ok", None)


# ====================================================================================================== generators
DIMS = [0, 1, 1, 2, 2, 3, 3]
KEYPOOL = ["a", "b", "c", "n", "m", "x.y", "n.z", "n.m.q", "s"]
NAMEPOOL = ["p", "q", "r", "u"]
DEVS = ["cpu", "meta"]


def rshape(rng, lo=0, hi=2):
    return [rng.choice(DIMS) for _ in range(rng.randint(lo, hi))]


def rnames(rng, rank, p_none=0.4):
    """a well-formed names list for `rank` dims (unique non-None names), or None"""
    if rank == 0 or rng.random() < 0.35:
        return None
    pool = NAMEPOOL[:]
    rng.shuffle(pool)
    out = [None if rng.random() < p_none else pool[i % len(pool)] for i in range(rank)]
    return out if any(v is not None for v in out) else None


def gen_td(rng, bs, depth=2, dev=None, named=False, specials=False, empty_ok=True):
    """descriptor of a coherent tensordict value with batch size bs"""
    ents = []
    nkeys = rng.choice([0, 1, 2, 2, 3]) if empty_ok else rng.choice([1, 2, 3])
    keys = rng.sample(KEYPOOL[:6], nkeys)
    for key in keys:
        r = rng.random()
        if depth > 0 and r < 0.35:
            cbs = bs + (rshape(rng, 0, 1) if rng.random() < 0.5 else [])
            cdev = dev if dev is not None else (rng.choice(DEVS) if rng.random() < 0.15 else None)
            cnames = None
            ents.append([key, gen_td(rng, cbs, depth - 1, cdev, False, specials)])
        elif specials and r < 0.45:
            ents.append([key, ["str", "hello"]])
        else:
            ldev = dev if dev is not None else (rng.choice(DEVS) if rng.random() < 0.15 else "cpu")
            ents.append([key, ["t", bs + rshape(rng, 0, 2), ldev]])
    names = rnames(rng, len(bs)) if named else None
    return ["td", list(bs), dev, names, ents]


def gen_fixture(rng, wide):
    """(root kind, descriptor).  root kinds: td | lazy | tc"""
    bs = rshape(rng, 0, 3)
    dev = rng.choice([None, None, None, "cpu", "meta"])
    named = rng.random() < 0.4
    kind = "td"
    if wide:
        kind = rng.choice(["td", "td", "lazy", "tc", "td-special"])
    if kind == "lazy":
        n = rng.choice([1, 2, 3])
        mbs = rshape(rng, 0, 2)
        proto = gen_td(rng, mbs, 1, dev, named, False, empty_ok=False)
        members = [proto] + [json.loads(json.dumps(proto)) for _ in range(n - 1)]
        if rng.random() < 0.3 and n > 1:
            # heterogeneous member: one extra key
            members[-1][4].append(["het", ["t", mbs + [2], dev or "cpu"]])
        return kind, ["lazy", rng.randint(0, len(mbs)), members]
    if kind == "tc":
        ents = [["a", ["t", bs + rshape(rng, 0, 2), dev or "cpu"]]]
        if rng.random() < 0.7:
            ents.append(["b", ["t", bs + rshape(rng, 0, 1), dev or "cpu"]])
        if rng.random() < 0.7:
            ents.append(["n", gen_td(rng, bs + (rshape(rng, 0, 1) if rng.random() < 0.5 else []), 1, dev)])
        return kind, ["tc", ["td", bs, dev, rnames(rng, len(bs)) if named else None, ents]]
    d = gen_td(rng, bs, rng.choice([1, 2, 2, 3]), dev, named, specials=(kind == "td-special"))
    if kind == "td-special":
        # a lazy stack and / or a tensorclass as nested entries
        if rng.random() < 0.6:
            m = gen_td(rng, bs, 1, dev, False, False, empty_ok=False)
            d[4].append(["lz", ["lazy", len(bs), [m, json.loads(json.dumps(m))]]])
        if rng.random() < 0.6:
            d[4].append(["tcv", ["tc", ["td", bs, dev, None, [["a", ["t", bs + [2], dev or "cpu"]]]]]])
        if rng.random() < 0.5:
            d[4].append(["nd", ["ntd", bs]])
        return "td", d
    return "td", d


def containers(s, path=(), out=None, parent=None):
    """all container nodes reachable through string keys: (path, snapshot, parent snapshot)"""
    if out is None:
        out = []
    if s["k"] in ("td", "tc", "lazy") or s["k"].startswith("other"):
        out.append((list(path), s, parent))
        ents = s.get("ents") if s["k"] != "lazy" else None
        for key, v in (ents or []):
            containers(v, path + (key,), out, s)
    return out


def all_keys(s, prefix=(), out=None, depth=3):
    """nested keys (as lists) of a container snapshot, leaves and nodes"""
    if out is None:
        out = []
    ents = s.get("ents") if s["k"] != "lazy" else [[k, v] for k, v in s.get("view", [])]
    for key, v in (ents or []):
        out.append((list(prefix + (key,)), v))
        if depth > 0 and v["k"] in ("td", "tc"):
            all_keys(v, prefix + (key,), out, depth - 1)
    return out


def bad_shape(rng, bs):
    """a shape whose leading dims are NOT bs (when possible)"""
    if not bs:
        return rshape(rng, 0, 2)     # rank-0 batch: every shape is compatible
    r = rng.random()
    if r < 0.4:
        i = rng.randrange(len(bs))
        s = list(bs)
        s[i] = s[i] + rng.choice([1, 2])
        return s + rshape(rng, 0, 1)
    if r < 0.7:
        return list(bs[:-1])        # too short
    if r < 0.85:
        return list(bs[1:]) + rshape(rng, 0, 1)
    return [rng.choice([1, 2, 3])] + list(bs)


def gen_value(rng, node, kinds=None, good=True):
    bs, dev = list(node["bs"]), node["dev"]
    k = rng.choice(kinds or ["t", "t", "t", "td", "td", "dict", "str", "sc", "ntd"])
    if k == "t":
        shape = bs + rshape(rng, 0, 2) if good else bad_shape(rng, bs)
        vdev = dev or "cpu"
        if rng.random() < 0.25:
            vdev = rng.choice(DEVS)        # ill-placed: must be moved (or kept when the container has no device)
        return ["t", shape, vdev]
    if k == "td":
        r = rng.random()
        if good:
            vbs = bs + (rshape(rng, 0, 1) if r < 0.4 else [])
            if r > 0.85:
                vbs = bs[:rng.randint(0, len(bs))]     # shorter batch: coerced by clone + batch_size when entries allow
        else:
            vbs = bad_shape(rng, bs)
        vdev = rng.choice([None, None, dev, "cpu", "meta"])
        named = rng.random() < 0.4
        return gen_td(rng, vbs, rng.choice([0, 1, 1, 2]), vdev, named, specials=rng.random() < 0.1)
    if k == "dict":
        ents = []
        for key in rng.sample(KEYPOOL[:6], rng.choice([1, 2, 3])):
            r = rng.random()
            if r < 0.25:
                ents.append([key, gen_value(rng, node, ["dict"], good)])
            elif r < 0.4:
                ents.append([key, gen_value(rng, node, ["td"], good)])
            else:
                ents.append([key, gen_value(rng, node, ["t"], good if rng.random() < 0.8 else not good)])
        return ["dict", ents]
    if k == "str":
        return ["str", "hello"]
    if k == "sc":
        return ["sc"]
    if k == "ntd":
        return ["ntd", bs if good else bad_shape(rng, bs)]
    raise ValueError(k)


def gen_key(rng, node, existing=None, fresh=None):
    """a key (list of strings) relative to `node`: existing / fresh / nested"""
    keys = all_keys(node, depth=2)
    r = rng.random()
    want_existing = existing if existing is not None else r < 0.5
    if want_existing and keys:
        return rng.choice(keys)[0]
    # fresh: new leaf name, possibly under an existing nested node or a new chain
    nodes = [k for k, v in keys if v["k"] in ("td", "tc")]
    leaves = [k for k, v in keys if v["k"] == "leaf"]
    r = rng.random()
    name = rng.choice(KEYPOOL)
    if r < 0.45:
        return [name]
    if r < 0.75 and nodes:
        return rng.choice(nodes) + [name]
    if r < 0.85 and leaves:
        return rng.choice(leaves) + [name]          # path through a tensor: KeyError after nothing was created
    return [rng.choice(KEYPOOL[:5]), rng.choice(KEYPOOL[:5])] + ([name] if rng.random() < 0.3 else [])


def gen_idx(rng, bs, good=True):
    """a simple index into a batch of shape bs"""
    if not bs:
        return rng.choice([["ell"], ["tup", []], ["non"]]) if good else ["int", 0]
    n = bs[0]
    r = rng.random()
    if not good:
        # (indices longer than the batch rank are C03's finding D25 and are left to C03)
        return rng.choice([["int", n + 1], ["int", -n - 1], ["list", [n + 3]]])
    if r < 0.3 and n > 0:
        return ["int", rng.randrange(-n, n)]
    if r < 0.55:
        return ["sl", rng.choice([None, 0, 1]), rng.choice([None, 1, 2, -1]), rng.choice([None, 1, 2])]
    if r < 0.65 and n > 0:
        return ["list", [rng.randrange(n) for _ in range(rng.choice([1, 2]))]]
    if r < 0.72 and n > 0:
        return ["ten", [rng.randrange(n) for _ in range(rng.choice([1, 2]))]]
    if r < 0.8:
        return ["mask", [rng.random() < 0.6 for _ in range(n)]]
    if r < 0.9 and len(bs) >= 2:
        def flat(x):        # an index tuple holds plain items only (no tuple inside a tuple)
            return x if x[0] != "tup" else ["sl", None, None, None]
        return ["tup", [flat(gen_idx(rng, bs[:1])), flat(gen_idx(rng, bs[1:2]))]]
    return rng.choice([["ell"], ["tup", [["ell"], ["sl", None, None, None]]], ["tup", [["non"], ["sl", None, None, None]]]])


def indexed_shape(bs, idx):
    try:
        return list(torch.zeros(tuple(bs))[build_idx(idx)].shape)
    except Exception:  # noqa: BLE001
        return None


OPS_ROOT = [("set", 14), ("setitem", 8), ("set_", 5), ("set_at_", 4), ("setitem_idx", 6), ("update", 10), ("update_", 3),
            ("update_at_", 3), ("del", 3), ("delitem", 2), ("pop", 3), ("popitem", 1), ("rename_key_", 7), ("batch_size", 10),
            ("names", 7), ("refine_names", 4), ("rename_", 2), ("auto_batch_size_", 5), ("flatten_keys", 2), ("unflatten_keys", 3),
            ("select", 2), ("exclude", 2), ("create_nested", 3), ("setdefault", 3), ("clear", 1), ("set_non_tensor", 2),
            ("getitem", 3)]


def gen_op(rng, S, parent_of=None):
    """one op descriptor for the current root snapshot S"""
    cs = containers(S)
    if len(cs) > 1 and rng.random() < 0.4:
        path, node, parent = rng.choice(cs[1:])
    else:
        path, node, parent = cs[0]
    names, weights = zip(*OPS_ROOT)
    o = rng.choices(names, weights)[0]
    if node["k"] == "lazy" and rng.random() < 0.15:
        o = rng.choice(["lazy_append", "lazy_insert"])
    good = rng.random() < 0.72
    bs = list(node["bs"])
    op = {"op": o, "path": path}
    if o in ("set", "setitem", "setdefault"):
        op["key"] = gen_key(rng, node)
        op["value"] = gen_value(rng, node, good=good)
        if o == "set":
            op["inplace"] = rng.random() < 0.3
    elif o == "set_":
        op["key"] = gen_key(rng, node, existing=rng.random() < 0.85)
        op["value"] = gen_value(rng, node, ["t", "t", "td", "sc"], good=good)
    elif o == "set_at_":
        op["key"] = gen_key(rng, node, existing=rng.random() < 0.85)
        op["idx"] = gen_idx(rng, bs, good=rng.random() < 0.85)
        ish = indexed_shape(bs, op["idx"])
        sub = dict(node, bs=ish if ish is not None else bs)
        op["value"] = gen_value(rng, sub, ["t", "t", "sc"], good=good)
    elif o == "setitem_idx":
        op["idx"] = gen_idx(rng, bs, good=rng.random() < 0.9)
        ish = indexed_shape(bs, op["idx"])
        sub = dict(node, bs=ish if ish is not None else bs)
        r = rng.random()
        if r < 0.3:
            op["value"] = ["sc"]
        elif r < 0.45:
            op["value"] = ["t", (ish or []) if good else bad_shape(rng, ish or bs), node["dev"] or "cpu"]
        else:
            # a tensordict / dict with (mostly) the destination's keys and matching feature dims; sometimes the value's batch
            # size is a SUFFIX of the indexed one (expanded on the left) or a PREFIX (copy + batch_size assignment)
            ents = []
            vb = list(sub["bs"])
            mode = rng.random()
            drop = rng.randint(1, len(vb)) if (mode < 0.15 and vb) else 0
            for key, v in node.get("ents") or []:
                if v["k"] == "leaf" and rng.random() < 0.8:
                    feat = v["shape"][len(bs):]
                    shp = (vb + feat) if good or rng.random() < 0.5 else bad_shape(rng, vb) + feat
                    ents.append([key, ["t", shp[drop:], v["dev"] if rng.random() < 0.9 else rng.choice(DEVS)]])
                elif v["k"] == "td" and rng.random() < 0.5:
                    # a nested destination: existing and missing keys one level down
                    extra = list(v["bs"][len(bs):])
                    sub_ents = []
                    for k2, v2 in v.get("ents") or []:
                        if v2["k"] == "leaf" and rng.random() < 0.7:
                            sub_ents.append([k2, ["t", (vb + v2["shape"][len(bs):])[drop:], v2["dev"]]])
                    if rng.random() < 0.4:
                        sub_ents.append([rng.choice(KEYPOOL), ["t", (vb + extra + rshape(rng, 0, 1))[drop:], node["dev"] or "cpu"]])
                    ents.append([key, ["td", (vb + extra)[drop:], None, None, sub_ents]])
            if rng.random() < 0.5:
                ents.append([rng.choice(KEYPOOL), ["t", (vb + rshape(rng, 0, 1))[drop:], node["dev"] or "cpu"]])     # auto-created key
            if rng.random() < 0.25:
                g = gen_td(rng, vb, 1, node["dev"])                                                                 # auto-created node
                if drop == 0:
                    ents.append([rng.choice(KEYPOOL[:5]), g])
            vbs = vb[drop:]
            if mode > 0.92 and vb:
                vbs = vb[:rng.randint(0, len(vb) - 1)]
            seen_k = set()
            ents = [e for e in ents if not (e[0] in seen_k or seen_k.add(e[0]))]
            op["value"] = ["td", vbs, rng.choice([None, node["dev"]]), None, ents] if rng.random() < 0.7 else ["dict", ents]
    elif o in ("update", "update_", "update_at_"):
        if o == "update_at_":
            op["idx"] = gen_idx(rng, bs, good=rng.random() < 0.9)
            ish = indexed_shape(bs, op["idx"])
            sub = dict(node, bs=ish if ish is not None else bs)
        else:
            sub = node
        ents = []
        # payload mixing existing keys (with matching or mismatching shapes) and new keys
        for key, v in (node.get("ents") or []):
            if rng.random() < 0.5:
                if v["k"] == "leaf":
                    feat = v["shape"][len(bs):]
                    g = good or rng.random() < 0.6
                    ents.append([key, ["t", (sub["bs"] + feat) if g else bad_shape(rng, sub["bs"]) + feat, v["dev"] if rng.random() < 0.8 else rng.choice(DEVS)]])
                elif v["k"] == "td" and o != "update_at_":
                    ents.append([key, gen_value(rng, v, ["td", "dict"], good or rng.random() < 0.6)])
        if o == "update" or rng.random() < 0.2:
            for key in rng.sample(KEYPOOL[:6], rng.choice([0, 1, 2])):
                if all(key != e[0] for e in ents):
                    ents.append([key, gen_value(rng, sub, ["t", "t", "td", "dict"], good or rng.random() < 0.6)])
        rng.shuffle(ents)
        if rng.random() < 0.55:
            vbs = sub["bs"] if (good or rng.random() < 0.5) else bad_shape(rng, sub["bs"])
            if rng.random() < 0.15:
                vbs = sub["bs"][:rng.randint(0, len(sub["bs"]))]
            ents = [e for e in ents if e[1][0] != "dict"]
            op["value"] = ["td", vbs, rng.choice([None, node["dev"], "cpu"]), rnames(rng, len(vbs)) if rng.random() < 0.2 else None, ents]
        else:
            op["value"] = ["dict", ents]
        if o == "update":
            op["inplace"] = rng.random() < 0.25
            op["ubs"] = rng.random() < 0.2
            if rng.random() < 0.1 and ents:
                op["ktu"] = [[rng.choice(ents)[0]]]
    elif o in ("del", "delitem", "pop"):
        op["key"] = gen_key(rng, node, existing=rng.random() < 0.8)
        if o == "pop":
            op["default"] = rng.random() < 0.4
    elif o == "rename_key_":
        op["key"] = gen_key(rng, node, existing=rng.random() < 0.9)
        op["new"] = gen_key(rng, node, existing=rng.random() < 0.2)
        op["safe"] = rng.random() < 0.3
    elif o == "batch_size":
        r = rng.random()
        if good:
            # candidates that have a chance: prefixes of the current one, extensions by dims of the entries
            cands = [bs[:i] for i in range(len(bs) + 1)]
            for key, v in (node.get("ents") or []):
                sh = v.get("shape") or v.get("bs") or []
                cands += [sh[:i] for i in range(len(bs), len(sh) + 1)]
            new = list(rng.choice(cands))
        else:
            new = bad_shape(rng, bs) if r < 0.7 else bs + [rng.choice([1, 2, 3])]
        if parent is not None and rng.random() < 0.9:
            # through a nested handle: stay in scope (the new batch size extends the parent's) most of the time
            pbs = list(parent["bs"])
            if new[:len(pbs)] != pbs:
                new = pbs + new[len(pbs):]
        op["bs"] = new
        op["as_size"] = rng.random() < 0.5
    elif o in ("names", "refine_names", "rename_"):
        rank = len(bs)
        r = rng.random()
        if r < 0.15 and o == "names":
            ns = None
        elif good:
            ns = rnames(rng, rank, 0.3) or [None] * rank
            if node["names"] and o == "refine_names" and rng.random() < 0.6:
                ns = [a if a is not None else b for a, b in zip(node["names"], ns)]
                if len(set(n for n in ns if n is not None)) != len([n for n in ns if n is not None]):
                    ns = list(node["names"])
            if o == "refine_names" and rank and rng.random() < 0.3:
                i = rng.randrange(rank)
                ns = ns[:i] + [ELL] + ns[i + rng.randint(1, rank - i):]
        else:
            ns = [rng.choice(NAMEPOOL + [None]) for _ in range(max(0, rank + rng.choice([-1, 0, 0, 1])))]
        op["names"] = ns
    elif o == "auto_batch_size_":
        op["k"] = rng.choice([None, None, 0, 1, 2, 3])
        if parent is not None and op["k"] is not None and op["k"] < len(parent["bs"]) and rng.random() < 0.9:
            op["k"] = len(parent["bs"])
    elif o in ("flatten_keys", "unflatten_keys"):
        op["sep"] = rng.choice([".", ".", ".", "_"])
    elif o in ("select", "exclude"):
        op["keys"] = [gen_key(rng, node, existing=rng.random() < 0.85) for _ in range(rng.choice([0, 1, 1, 2]))]
        if o == "select":
            op["strict"] = rng.random() < 0.6
    elif o in ("create_nested", "set_non_tensor"):
        op["key"] = gen_key(rng, node, existing=rng.random() < 0.25)
    elif o in ("lazy_append", "lazy_insert"):
        mb = list(node["members"][0]["bs"]) if node.get("members") else []
        # mostly on the stack's device, sometimes on another one (insert compares with the first member's device)
        vdev = rng.choice([node["dev"], node["dev"], node["dev"], "cpu", "meta", None])
        op["value"] = gen_td(rng, mb if good else bad_shape(rng, mb), 1, vdev)
        op["i"] = rng.randint(0, len(node.get("members") or []))
    elif o == "getitem":
        op["idx"] = gen_idx(rng, bs, good=rng.random() < 0.9)
        if bs and rng.random() < 0.2:
            # an integer index ARRAY of rank 2 (first dim, or second dim behind a full slice)
            d = 1 if (len(bs) >= 2 and rng.random() < 0.4) else 0
            if bs[d] > 0:
                nr, nc = rng.choice([1, 2]), rng.choice([1, 2, 3])
                arr = ["ten2", [[rng.randrange(bs[d]) for _ in range(nc)] for _ in range(nr)]]
                op["idx"] = arr if d == 0 else ["tup", [["sl", None, None, None], arr]]
    lazify(rng, op, node)
    return op


def desc_of(s):
    """snapshot -> value descriptor that rebuilds an object of the same structure (None when not expressible)"""
    k = s["k"]
    if k == "leaf":
        return ["t", list(s["shape"]), s["dev"]]
    if k == "nt":
        return ["ntd", list(s["bs"])]
    if k == "td":
        ents = []
        for key, v in s.get("ents") or []:
            d = desc_of(v)
            if d is None:
                return None
            ents.append([key, d])
        return ["td", list(s["bs"]), s["dev"], None, ents]
    if k == "lazy":
        ms = [desc_of(m) for m in s.get("members") or []]
        if not ms or any(m is None for m in ms):
            return None
        return ["lazy", s["dim"], ms]
    return None


def lazy_like(rng, lz):
    """a lazy-stack value shaped like the lazy stack `lz` (snapshot): fewer, as many, or MORE members, mostly on the same
    stack dim, sometimes on another one; members are copies of lz's first member, sometimes with one key more / less"""
    members = lz.get("members") or []
    if not members:
        return None
    proto = desc_of(members[0])
    if proto is None or proto[0] != "td":
        return None
    n = len(members)
    k = rng.choice([max(1, n - 1), n, n, n + 1, n + 1, n + 2, n + 3])
    mb = list(members[0]["bs"])
    dim = lz["dim"]
    if rng.random() < 0.2:
        others = [d for d in range(len(mb) + 1) if d != dim]
        if others:
            dim = rng.choice(others)
    out = []
    for i in range(k):
        m = json.loads(json.dumps(proto))
        r = rng.random()
        if r < 0.1 and m[4]:
            m[4].pop(rng.randrange(len(m[4])))
        elif r < 0.2:
            m[4].append([rng.choice(KEYPOOL[:5]) + "2", ["t", mb + rshape(rng, 0, 1), m[2] or "cpu"]])
        elif r < 0.25:
            m[1] = bad_shape(rng, mb)
            m[4] = []
        out.append(m)
    return ["lazy", dim, out]


def lazify(rng, op, node):
    """lazy-stack sources and values: update / update_ / update_at_ / index assignment / key assignment / append / insert
    with a lazy stack, issued on a lazy stack or on the tensordict that holds one"""
    o = op["op"]
    if node["k"] == "lazy":
        if o in ("update", "update_", "update_at_", "setitem_idx") and rng.random() < 0.5:
            lv = lazy_like(rng, node)
            if lv is not None:
                op["value"] = lv
                if o in ("update_at_", "setitem_idx") and rng.random() < 0.5:
                    op["idx"] = ["sl", None, None, None] if node["bs"] else ["ell"]
                if o == "update":
                    op.pop("ktu", None)
        elif o in ("lazy_append", "lazy_insert") and rng.random() < 0.3 and node.get("members"):
            mb = list(node["members"][0]["bs"])
            if mb:
                d = rng.randrange(len(mb))
                inner = mb[:d] + mb[d + 1:]
                cnt = mb[d] if rng.random() < 0.8 else mb[d] + 1
                if 0 < cnt <= 4:
                    proto = gen_td(rng, inner, 1, node["dev"], empty_ok=False)
                    op["value"] = ["lazy", d, [json.loads(json.dumps(proto)) for _ in range(cnt)]]
        return
    lazies = [(key, v) for key, v in (node.get("ents") or []) if v["k"] == "lazy"]
    if not lazies or rng.random() > 0.45:
        return
    key, lz = rng.choice(lazies)
    lv = lazy_like(rng, lz)
    if lv is None:
        return
    if o in ("update", "update_", "update_at_"):
        if o == "update_at_":
            return
        if rng.random() < 0.5:
            op["value"] = ["dict", [[key, lv]]]
        else:
            op["value"] = ["td", list(node["bs"]), None, None, [[key, lv]]]
        op.pop("ktu", None)
    elif o in ("set", "setitem", "setdefault", "set_"):
        op["key"] = [key]
        op["value"] = lv


# ====================================================================================================== scope
def in_scope(S, op):
    """the property's stated exclusion: a batch size is changed through a handle to a nested node and no longer extends
    the parent's (the child has no back-pointer).  Decided from the pre-state and the op alone."""
    path = op.get("path") or []
    if not path:
        return True
    parent = S
    for p in path[:-1]:
        parent = dict(parent.get("ents") or []).get(p)
        if parent is None:
            return True
    pbs = list(parent["bs"])
    o = op["op"]
    if o == "batch_size":
        return list(op["bs"])[:len(pbs)] == pbs
    if o == "auto_batch_size_":
        return op.get("k") is None or op["k"] >= len(pbs)
    if o == "update" and op.get("ubs"):
        v = op["value"]
        if v[0] == "lazy":
            # re-initialises the stack from the source's members: the stack dim must not be one of the parent's dims
            return v[1] >= len(pbs)
        return v[0] == "td" and list(v[1])[:len(pbs)] == pbs
    if o in ("lazy_append", "lazy_insert"):
        node = dict(parent.get("ents") or []).get(path[-1]) or {}
        return node.get("dim", 0) >= len(pbs)      # growing a stack dim that is one of the parent's batch dims
    return True


# ====================================================================================================== histories
def run_history(seed, length, wide, on_step=None):
    """one history on the real objects; yields records (for the oracle and, later, the correspondence)"""
    rng = random.Random(seed)
    kind, fx = gen_fixture(rng, wide)
    try:
        root = build(fx)
    except Exception as e:  # noqa: BLE001
        return {"fixture": fx, "kind": kind, "built": False, "err": type(e).__name__, "steps": []}
    seen = {}
    S = snap(root, seen)
    rec = {"fixture": fx, "kind": kind, "built": True, "steps": [], "init": S, "init_problems": coherent(S)}
    for i in range(length):
        op = gen_op(rng, S)
        if not in_scope(S, op):
            rec["steps"].append({"op": op, "out": "out-of-scope"})
            continue
        res = run_op(root, op)
        step = {"op": op, "out": res[0], "exc": res[1] if res[0] != "ok" else None}
        if res[0] == "skip":
            rec["steps"].append(step)
            continue
        if op["op"] == "getitem" and res[0] == "ok":
            rs = snap(res[1])
            step["result_problems"] = coherent(rs) + duplicate_names(rs)
            step["result"] = rs
        seen = {}
        S2 = snap(root, seen)
        step["aliased"] = any(c > 1 for c in seen.values())
        step["pre"] = S
        step["post"] = S2
        step["problems"] = coherent(S2)
        rec["steps"].append(step)
        S = S2
        if step["problems"]:
            break       # an incoherent state: later failures of this history would be consequences
    return rec


def dev(n=300, length=25, wide=True, seed0=0):
    import collections
    import warnings
    warnings.filterwarnings("ignore")
    torch.set_num_threads(1)
    kinds = collections.Counter()
    outs = collections.Counter()
    shown = collections.Counter()
    for h in range(n):
        rec = run_history(seed0 * 1000003 + h, length, wide)
        if not rec["built"]:
            outs["fixture-not-built:" + rec["err"]] += 1
            continue
        if rec["init_problems"]:
            print("INIT INCOHERENT", rec["fixture"], rec["init_problems"])
        for i, st in enumerate(rec["steps"]):
            outs[st["op"]["op"] + ":" + st["out"] + (":" + str(st.get("exc")) if st["out"] == "skip" else "")] += 1
            for p in st.get("problems") or []:
                sig = (st["op"]["op"], p["what"], st["out"])
                kinds[sig] += 1
                if shown[sig] < 2:
                    shown[sig] += 1
                    print("PROBLEM", sig, "seed", seed0 * 1000003 + h, "step", i)
                    print("   op:", json.dumps(st["op"]))
                    print("   pre:", json.dumps(st["pre"]))
                    print("   post:", json.dumps(st["post"]))
                    print("   problem:", p, "exc", st.get("exc"))
            for p in st.get("result_problems") or []:
                sig = ("getitem-result", p["what"])
                kinds[sig] += 1
                if shown[sig] < 2:
                    shown[sig] += 1
                    print("RESULT-PROBLEM", sig, json.dumps(st["op"]), json.dumps(st["pre"]), json.dumps(st["result"]), p)
    print(dict(kinds))
    for k in sorted(outs):
        print("  ", k, outs[k])


# ====================================================================================================== signatures
OP_CLASS = {"batch_size": "bs", "auto_batch_size_": "bs", "set": "write", "setitem": "write", "setdefault": "write", "update": "write",
            "set_": "write", "set_non_tensor": "write", "set_at_": "index", "setitem_idx": "index", "update_at_": "index",
            "update_": "write", "rename_key_": "rename", "unflatten_keys": "rename", "flatten_keys": "rename", "names": "names",
            "refine_names": "names", "rename_": "names", "lazy_append": "lazy-grow", "lazy_insert": "lazy-grow"}


def sub_snapshot(S, path):
    for p in path:
        if S is None:
            return None
        if isinstance(p, str) and p.startswith("<member "):
            i = int(p[len("<member "):-1])
            ms = S.get("members") or []
            S = ms[i] if i < len(ms) else None
        elif S.get("k") == "lazy":
            S = dict((k, v) for k, v in S.get("view", [])).get(p)
        else:
            S = dict((k, v) for k, v in (S.get("ents") or [])).get(p)
    return S


def holds_tensor(s):
    if s is None:
        return False
    if s["k"] == "leaf":
        return True
    if s["k"] == "lazy":
        # LazyStackedTensorDict.is_empty() looks at the keys COMMON to all members
        return any(holds_tensor(v) for _, v in s.get("view", []))
    if s["k"] == "shape-only":
        return not (s.get("nt") or s.get("empty"))
    return any(holds_tensor(v) for _, v in (s.get("ents") or []))


def idx_has_int_array(d):
    if not d:
        return False
    if d[0] in ("ten", "list"):
        return True
    if d[0] == "tup":
        return any(idx_has_int_array(x) for x in d[1])
    return False


def signature(step, problem):
    """decidable pattern of one oracle failure, computed from the case alone (pre-state, op, outcome, problem)"""
    op, pre, post = step["op"], step["pre"], step["post"]
    o = op["op"]
    cls = OP_CLASS.get(o, "other")
    at = list(op.get("path") or []) if False else problem["at"]
    what = problem["what"]
    handle_path = list(op.get("path") or [])
    target = sub_snapshot(pre, handle_path) or {}
    victim_post = sub_snapshot(post, at)
    victim_pre = sub_snapshot(pre, at)
    in_lazy = any(isinstance(p, str) and p.startswith("<member ") for p in at) or target.get("k") == "lazy" or \
        any((sub_snapshot(pre, at[:i]) or {}).get("k") == "lazy" for i in range(len(at) + 1))
    sig = {"call": o, "what": what, "outcome": step["out"], "pattern": "none"}
    if what == "names-count" and victim_post is not None and victim_post.get("names") and str(victim_post["names"][0]).startswith("<names raised"):
        what = sig["what"] = "names-undefined"
    hollow = victim_post is not None and victim_post["k"] in ("td", "nt", "nts", "tc", "lazy") and not holds_tensor(victim_post)
    nested_key = len(op.get("new") or op.get("key") or []) > 1 or o == "unflatten_keys"
    was_nt_zero = victim_pre is not None and victim_pre["k"] in ("nt", "nts") and 0 in victim_pre["bs"]
    nt_above = any((sub_snapshot(pre, at[:i]) or {}).get("k") in ("nt", "nts") and 0 in (sub_snapshot(pre, at[:i]) or {}).get("bs", [])
                   for i in range(len(at) + 1))
    # the entry (or one of its ancestors below the handle) did not exist before the call: auto-created by an index write
    created_by_call = any(sub_snapshot(pre, at[:i]) is None for i in range(1, len(at) + 1))
    target_lazy = target if target.get("k") == "lazy" else None
    if target_lazy is None:
        for i in range(len(at) + 1):
            anc = sub_snapshot(pre, at[:i])
            if anc is not None and anc.get("k") == "lazy":
                target_lazy = anc
                break
    hetero = target_lazy is not None and len({m.get("dev") for m in target_lazy.get("members", [])} | {target_lazy.get("dev")}) > 1
    if cls == "index" and (was_nt_zero or nt_above):
        sig["pattern"] = "nontensor-zero-batch-restack"
    elif what == "names-undefined" and victim_post is not None and victim_post["k"] == "lazy":
        sig["pattern"] = "lazy-names-undefined"
    elif in_lazy and cls == "write" and nested_key and what in ("entry-shape", "entry-device", "nested-batch", "nested-device"):
        sig["pattern"] = "lazy-nested-key-validated-at-root"
    elif in_lazy and cls == "write" and hetero and what in ("entry-device", "nested-device"):
        sig["pattern"] = "lazy-heterogeneous-devices-validated-at-root"
    elif o == "setitem_idx" and target.get("k") == "lazy" and idx_has_int_array(op.get("idx")) and \
            what in ("nested-device", "entry-device", "nested-batch", "names-count"):
        sig["pattern"] = "lazy-tensor-index-replaces-members"
    elif cls == "rename" and o != "flatten_keys" and nested_key and \
            what in ("entry-shape", "entry-device", "nested-batch", "nested-device"):
        sig["pattern"] = "rename-into-nested-unvalidated"
    elif o == "update" and op.get("ubs") and what == "nested-batch":
        sig["pattern"] = "update-batch-size-nested-reset"
    elif o == "auto_batch_size_" and step["out"] == "raise" and what == "nested-batch":
        sig["pattern"] = "auto-batch-size-partial-on-raise"
    elif what == "nested-batch" and hollow and cls in ("bs", "write"):
        sig["pattern"] = "hollow-nested-exempt-from-batch-check" if step["out"] == "ok" else "hollow-nested-grown-before-failed-check"
    elif cls == "index" and created_by_call and what in ("names-count", "entry-device", "nested-device"):
        sig["pattern"] = "index-autocreated-nested-keeps-indexed-names"
    return sig


# ====================================================================================================== model encoding
INDEX_OPS = ("setitem_idx", "set_at_", "update_at_")


def modelable(s):
    """plain TensorDict trees: tensors, nested TensorDicts, NonTensorData entries"""
    k = s["k"]
    if k == "leaf":
        return s["dev"] in ("cpu", "meta")
    if k not in ("td", "nt"):
        return False
    if k == "nt" and s.get("ents"):
        return False
    if s["dev"] not in (None, "cpu", "meta"):
        return False
    n = s["names"]
    if n is not None and any(isinstance(x, str) and x.startswith("<names raised") for x in n):
        return False
    return all(modelable(v) for _, v in (s.get("ents") or []))


def tree_sx(s):
    if s["k"] == "leaf":
        return [Sym("leaf"), list(s["shape"]), Sym(s["dev"])]
    n = canon_names(s["names"])
    return [Sym("node"), Sym(s["k"]), list(s["bs"]), Sym(s["dev"]) if s["dev"] else None,
            None if n is None else [x if x is not None else None for x in n],
            [[key, tree_sx(v)] for key, v in (s.get("ents") or [])]]


def value_sx(d, built=None):
    """value descriptor -> model value.  tensordict / NonTensorData values are described by the snapshot of the object
    that was really built (so that the model sees what the constructor produced)"""
    k = d[0]
    if k == "t":
        return [Sym("vt"), [Sym("leaf"), list(d[1]), Sym(d[2])]]
    if k == "sc":
        return [Sym("vt"), [Sym("leaf"), [], Sym("cpu")]]
    if k == "str":
        return Sym("vs")
    if k in ("td", "ntd"):
        s = snap(built if built is not None else build(d))
        if not modelable(s):
            return None
        return [Sym("vt"), tree_sx(s)]
    if k == "dict":
        items = []
        for key, v in d[1]:
            if not isinstance(key, str):
                return None
            e = value_sx(v)
            if e is None:
                return None
            items.append([key, e])
        return [Sym("vd"), items]
    return None


def idx_items(d, bs):
    """index descriptor -> list of model items (Model/C03_Index.item), or None when the index lies outside the model's
    grammar (more than one advanced index, integer arrays with out-of-range values, tuples inside tuples)"""
    items = d[1] if d[0] == "tup" else [d]
    if any(x[0] == "tup" for x in items):
        return None
    if sum(1 for x in items if x[0] in ("list", "ten", "mask")) > 1:
        return None
    consumed = sum(1 for x in items if x[0] in ("int", "sl", "list", "ten", "mask"))
    pos = 0
    out = []
    for x in items:
        k = x[0]
        if k == "int":
            out.append([Sym("int"), int(x[1])])
            pos += 1
        elif k == "sl":
            out.append([Sym("sl"), some(x[1]), some(x[2]), some(x[3])])
            pos += 1
        elif k in ("list", "ten"):
            n = bs[pos] if pos < len(bs) else None
            if n is not None and any(not (-n <= v < n) for v in x[1]):
                return None          # bounds of integer arrays are torch's business (and not checked on meta tensors)
            out.append([Sym("adv"), [len(x[1])]])
            pos += 1
        elif k == "mask":
            out.append([Sym("mask"), [len(x[1])], sum(1 for v in x[1] if v)])
            pos += 1
        elif k == "ell":
            out.append(Sym("ell"))
            pos += max(0, len(bs) - consumed)
        elif k == "non":
            out.append(Sym("non"))
        else:
            return None
    return out


def node_bs(S, path):
    n = S
    for p in path:
        n = dict((k, v) for k, v in (n.get("ents") or [])).get(p)
        if n is None:
            return None
    return list(n.get("bs") or [])


def op_sx(op, pre=None):
    """op descriptor -> model op, or None when the model does not cover the call"""
    o = op["op"]
    path = list(op.get("path") or [])
    if o in ("setitem_idx", "set_at_", "update_at_"):
        if pre is None:
            return None
        bs = node_bs(pre, path)
        if bs is None:
            return None
        if o == "set_at_":
            # the index meets the batch size of the node that holds the entry
            n = sub_snapshot(pre, path + list(op["key"])[:-1])
            bs = list(n["bs"]) if n is not None and n.get("k") == "td" else bs
        ix = idx_items(op["idx"], bs)
        if ix is None:
            return None
        if o != "setitem_idx":
            # set_at_ / update_at_ hand the raw index to torch: an Ellipsis expands against the FULL rank of each tensor, so
            # an integer array after it meets a feature dim (bounds of integer arrays are torch's business: not modelled)
            its = op["idx"][1] if op["idx"][0] == "tup" else [op["idx"]]
            kinds = [x[0] for x in its]
            if "ell" in kinds and any(k in ("list", "ten") for k in kinds[kinds.index("ell"):]):
                return None
        try:
            v = value_sx(op["value"])
        except Exception:  # noqa: BLE001
            return None
        if v is None:
            return None
        if o == "setitem_idx":
            return [Sym("at"), path, [Sym("setitem"), ix, v]]
        if o == "set_at_":
            return [Sym("at"), path, [Sym("setat"), op["key"], ix, v]]
        return [Sym("at"), path, [Sym("updateat"), v, ix]]
    v = None
    if "value" in op:
        try:
            v = value_sx(op["value"])
        except Exception:  # noqa: BLE001
            return None
        if v is None:
            return None
    b = lambda x: bool(x)  # noqa: E731
    if o == "set":
        o0 = [Sym("set"), op["key"], v, b(op.get("inplace"))]
    elif o == "setitem":
        o0 = [Sym("set"), op["key"], v, False]
    elif o == "set_":
        o0 = [Sym("set_"), op["key"], v]
    elif o == "setdefault":
        o0 = [Sym("setdefault"), op["key"], v]
    elif o == "set_non_tensor":
        o0 = [Sym("setnt"), op["key"]]
    elif o == "update":
        if op.get("ubs") or op.get("ktu") is not None:
            return None
        o0 = [Sym("update"), v, b(op.get("inplace"))]
    elif o in ("del", "delitem"):
        o0 = [Sym("del"), op["key"]]
    elif o == "pop":
        o0 = [Sym("pop"), op["key"], b(op.get("default"))]
    elif o == "popitem":
        o0 = [Sym("popitem")]
    elif o == "rename_key_":
        o0 = [Sym("rename"), op["key"], op["new"], b(op.get("safe"))]
    elif o == "batch_size":
        o0 = [Sym("bs"), b(op.get("as_size")), list(op["bs"])]
    elif o == "names":
        o0 = [Sym("names"), None if op["names"] is None else [x for x in op["names"]]]
    elif o == "refine_names":
        o0 = [Sym("refine"), [Sym("ell") if x == ELL else x for x in op["names"]]]
    elif o == "auto_batch_size_":
        o0 = [Sym("autobs"), some(op.get("k"))]
    elif o == "flatten_keys":
        o0 = [Sym("flatten"), op.get("sep", ".")]
    elif o == "unflatten_keys":
        o0 = [Sym("unflatten"), op.get("sep", ".")]
    elif o == "select":
        o0 = [Sym("select"), op["keys"], b(op.get("strict", True))]
    elif o == "exclude":
        o0 = [Sym("exclude"), op["keys"]]
    elif o == "create_nested":
        o0 = [Sym("create"), op["key"]]
    elif o == "clear":
        o0 = [Sym("clear")]
    else:
        return None
    return [Sym("at"), path, o0]


def lazy_modelable(s):
    """a lazy stack at the root whose members are plain TensorDict trees"""
    if s.get("k") != "lazy" or not s.get("members"):
        return False
    n = s.get("names")
    return all(m.get("k") == "td" and modelable(m) for m in s["members"])


def lstack_sx(s):
    return [Sym("lstack"), int(s["dim"]), [tree_sx(m) for m in s["members"]]]


def lop_sx(op):
    """op on a lazy root -> model op (Model/C01_Lazy.lop) or None"""
    if op.get("path"):
        return None
    o = op["op"]
    v = None
    if "value" in op:
        try:
            v = value_sx(op["value"])
        except Exception:  # noqa: BLE001
            return None
        if v is None:
            return None
    if o == "set":
        return [Sym("set"), op["key"], v, bool(op.get("inplace"))]
    if o == "setitem":
        return [Sym("set"), op["key"], v, False]
    if o == "set_":
        return [Sym("set_"), op["key"], v]
    if o in ("del", "delitem"):
        return [Sym("del"), op["key"]]
    if o == "lazy_insert":
        return [Sym("insert"), int(op["i"]), v]
    if o == "lazy_append":
        return [Sym("append"), v]
    if o == "batch_size":
        return [Sym("bs"), bool(op.get("as_size")), list(op["bs"])]
    return None


def canon_lstack(s):
    return ["lstack", int(s["dim"]), [canon_tree(m) for m in s["members"]], list(s["bs"]), s["dev"] or "none"]


def _sx(o):
    """core.sx with None inside lists printed as the atom none"""
    return sx(o)


def canon_tree(s):
    """python-side canonical form comparable with the parsed model output"""
    if s["k"] == "leaf":
        return ["leaf", list(s["shape"]), s["dev"]]
    n = canon_names(s["names"])
    return ["node", s["k"], list(s["bs"]), s["dev"] or "none", "none" if n is None else [x if x is not None else "none" for x in n],
            [[key, canon_tree(v)] for key, v in (s.get("ents") or [])]]


def result_signature(step, problem):
    """pattern of a problem found in the RESULT of an indexed read"""
    sig = {"call": "__getitem__", "what": problem["what"], "outcome": "ok", "pattern": "indexed-result"}
    if problem["what"] == "names-duplicate":
        idx = step["op"].get("idx") or []
        items = idx[1] if idx and idx[0] == "tup" else [idx]
        if any(x and x[0] == "ten2" for x in items):
            sig["pattern"] = "index-array-rank2-on-named-dim"
        return sig
    victim = sub_snapshot(step.get("result") or {"k": "none"}, problem["at"]) if step.get("result") else None
    if victim is not None and victim.get("k") in ("nts", "lazy") and victim.get("names") and str(victim["names"][0]).startswith("<names raised") \
            and not victim.get("members"):
        sig["what"] = "names-undefined"
        sig["pattern"] = "empty-stack-names-raise"
    return sig


# ====================================================================================================== a run
CORPUS = os.path.join(os.path.dirname(os.path.dirname(os.path.abspath(__file__))), "corpus", PID)


def replay_case(case):
    """re-execute a recorded case (fixture + ops) on the real objects; returns the list of step records"""
    root = build(case["fixture"])
    S = snap(root)
    steps = []
    for op in case["ops"]:
        res = run_op(root, op)
        step = {"op": op, "out": res[0], "exc": res[1] if res[0] != "ok" else None, "pre": S}
        if res[0] == "skip":
            steps.append(step)
            continue
        seen = {}
        S2 = snap(root, seen)
        step["aliased"] = any(c > 1 for c in seen.values())
        step["post"] = S2
        step["problems"] = coherent(S2)
        if op["op"] == "getitem" and res[0] == "ok":
            rs = snap(res[1])
            step["result"] = rs
            step["result_problems"] = coherent(rs) + duplicate_names(rs)
        steps.append(step)
        S = S2
    return steps


def case_of(rec, upto):
    """the replayable case of a history up to (and including) step index `upto`: only the calls that were executed"""
    ops = [st["op"] for st in rec["steps"][:upto + 1] if st["out"] in ("ok", "raise")]
    return {"fixture": rec["fixture"], "kind": rec["kind"], "ops": ops}


def shrink(case, pattern, what, budget=40):
    """greedy removal of calls while the last call still fails the oracle with the same pattern"""
    def fails(c):
        try:
            steps = replay_case(c)
        except Exception:  # noqa: BLE001
            return False
        if not steps or steps[-1]["out"] == "skip":
            return False
        last = steps[-1]
        for p in last.get("problems") or []:
            sg = signature(last, p)
            if sg["pattern"] == pattern and sg["what"] == what:
                return True
        return False
    ops = list(case["ops"])
    i = 0
    while i < len(ops) - 1 and budget > 0:
        cand = dict(case, ops=ops[:i] + ops[i + 1:])
        budget -= 1
        if fails(cand):
            ops = cand["ops"]
        else:
            i += 1
    return dict(case, ops=ops)


def work(args):
    """one history in a worker process: oracle results and the lines for the model"""
    seed, length, wide = args
    import warnings
    warnings.filterwarnings("ignore")
    torch.set_num_threads(1)
    rec = run_history(seed, length, wide)
    out = {"seed": seed, "kind": rec["kind"], "built": rec["built"], "fails": [], "lines": [], "hist": {}, "keys": [], "sample": None,
           "init_problems": rec.get("init_problems") or []}
    if not rec["built"]:
        out["hist"]["fixture-not-built"] = 1
        return out
    h = out["hist"]

    def cnt(k):
        h[k] = h.get(k, 0) + 1
    cnt("root:" + rec["kind"])
    import hashlib
    for i, st in enumerate(rec["steps"]):
        o = st["op"]["op"]
        cnt("op:" + o + ":" + st["out"])
        if st["out"] not in ("ok", "raise"):
            continue
        if st["op"].get("path"):
            cnt("handle:nested")
        else:
            cnt("handle:root")
        key = hashlib.sha1(json.dumps([st["pre"], st["op"]], sort_keys=True).encode()).hexdigest()[:16]
        out["keys"].append(key)
        if out["sample"] is None and i == 3:
            out["sample"] = {"fixture": rec["fixture"], "op": st["op"], "outcome": st["out"]}
        probs = list(st.get("problems") or [])
        for p in probs:
            sg = signature(st, p)
            out["fails"].append({"label": "coherence:" + sg["what"], "case": case_of(rec, i), "detail": {"problem": p, "exception": st.get("exc")},
                                 "sig": sg})
        for p in st.get("result_problems") or []:
            # results of reads are C03's (shapes, names of plain results) and C16's (non-tensor entries): here only the
            # plain-TensorDict part of a result is judged, plus the names of stacks without members
            on_path = [sub_snapshot(st["result"], p["at"][:j]) for j in range(len(p["at"]) + 1)]
            exotic = [x for x in on_path if x is not None and x.get("k") in ("nt", "nts", "lazy", "tc")]
            rs_sig = result_signature(st, p)
            if exotic and rs_sig["pattern"] != "empty-stack-names-raise":
                cnt("read:non-plain-result-problem-left-to-C03-C16")
                continue
            out["fails"].append({"label": "indexed-result:" + p["what"], "case": case_of(rec, i), "detail": {"problem": p},
                                 "sig": result_signature(st, p)})
        # correspondence line
        if st.get("aliased"):
            cnt("model:skipped-aliased")
            continue
        if lazy_modelable(st["pre"]) and lazy_modelable(st["post"]):
            lo = lop_sx(st["op"])
            if lo is None:
                cnt("model:lazy-op-not-modelled")
                continue
            # lcohb does not speak about the NAMES of a stack (finding D107 stays with the oracle): the twin check leaves them out
            out["lines"].append({"line": sx([Sym("lstep"), lstack_sx(st["pre"]), lo]), "out": st["out"], "post": canon_lstack(st["post"]),
                                 "coherent": not [p for p in probs if not p["what"].startswith("names")], "in_scope": True, "case": case_of(rec, i), "op": "lazy:" + o, "lazy": True,
                                 "changed": canon_lstack(st["pre"]) != canon_lstack(st["post"])})
            continue
        if not modelable(st["pre"]) or not modelable(st["post"]):
            cnt("model:outside-plain-trees")
            continue
        mo = op_sx(st["op"], st["pre"])
        if mo is None:
            cnt("model:op-not-modelled")
            continue
        out["lines"].append({"line": sx([Sym("xstep"), tree_sx(st["pre"]), mo]), "out": st["out"], "post": canon_tree(st["post"]),
                             "coherent": not probs, "in_scope": True, "case": case_of(rec, i), "op": o,
                             "changed": canon_tree(st["pre"]) != canon_tree(st["post"])})
    return out


def run_pool(jobs, procs):
    if procs <= 1:
        return [work(j) for j in jobs]
    import multiprocessing as mp
    ctx = mp.get_context("fork")
    with ctx.Pool(procs) as pool:
        return pool.map(work, jobs, chunksize=max(1, len(jobs) // (procs * 8)))


def main(R):
    import warnings
    warnings.filterwarnings("ignore")
    torch.set_num_threads(1)
    R.rule = ("histories of public mutating calls (set / set_ / set_at_ / key and index assignment / update / update_ / update_at_ / del / pop / "
              "popitem / rename_key_ / batch_size and names assignment / refine_names / rename_ / auto_batch_size_ / in-place flatten_keys, "
              "unflatten_keys, select, exclude / create_nested / setdefault / clear / set_non_tensor / lazy append, insert / indexed reads) "
              "issued on the root or through a handle to a nested node, on generated fixtures (rank 0..3, dims in {0,1,2,3}, nested to depth 3, "
              "named / unnamed, device None / cpu / meta, NonTensorData entries, lazy stacks and tensorclasses as roots and as entries); ~28% "
              "ill-shaped / ill-placed / ill-named arguments; after EVERY call (also raising ones) the real object is walked recursively and "
              "coherent(snapshot) is evaluated.  distinct = sha1(pre-state snapshot, call); non-trivial = the call was executed (ok or raised)")
    R.assumptions = ["tensor element values are not part of the property (all leaves are zeros)",
                     "arguments handed to the calls are built through the public constructors only",
                     "the model covers plain TensorDict trees (tensor leaves, nested TensorDicts, NonTensorData entries) including index "
                     "writes (td[idx] = v, set_at_, update_at_; ints / slices / None / Ellipsis / one in-range advanced index), and lazy "
                     "stacks AT THE ROOT whose members are plain trees (set / set_ / key assignment with tensor or unnamed tensordict values, "
                     "del_, insert, append, batch_size assignment); lazy stacks nested in a tree, the names of a stack, update / index "
                     "writes on a stack, tensorclasses, update_batch_size, NonTensorData entries under an index write and dim names met by "
                     "an auto-created nested entry are covered by the oracle only",
                     "results of indexed reads are also required to carry pairwise different non-None dim names (what the names setter "
                     "accepts): finding D113"]
    R.trusted = ["harness/c01.py: snapshot walk and the 4-clause oracle `coherent` (cross-checked against Coq's coherentb on every modelled state)"]
    R.step_prove()
    ok = R.step_driver()
    procs = min(16, os.cpu_count() or 1) if not R.quick else min(8, os.cpu_count() or 1)
    n_plain, n_wide, length = (1500, 1200, 30) if R.quick else (14000, 10000, 60)
    jobs = [(R.rng.getrandbits(48), length, False) for _ in range(n_plain)] + [(R.rng.getrandbits(48), length, True) for _ in range(n_wide)]
    # ---- corpus first
    corpus_fail = []
    if os.path.isdir(CORPUS):
        for fn in sorted(os.listdir(CORPUS)):
            if not fn.endswith(".json"):
                continue
            case = json.load(open(os.path.join(CORPUS, fn)))
            try:
                steps = replay_case(case)
            except Exception as e:  # noqa: BLE001
                R.broken.append(f"corpus case {fn} cannot be rebuilt: {type(e).__name__}")
                continue
            R.count("corpus:cases")
            for i, st in enumerate(steps):
                if st["out"] not in ("ok", "raise"):
                    continue
                R.case("corpus:" + fn + ":" + str(i), nontrivial=True)
                for p in st.get("problems") or []:
                    sg = signature(st, p)
                    R.oracle_fail("coherence:" + sg["what"], dict(case, ops=case["ops"][:i + 1]), {"problem": p, "exception": st.get("exc"), "corpus": fn}, sg)
                for p in st.get("result_problems") or []:
                    R.oracle_fail("indexed-result:" + p["what"], dict(case, ops=case["ops"][:i + 1]), {"problem": p, "corpus": fn}, result_signature(st, p))
    inside = 0
    new_patterns = {}
    chunk = 3000
    for c0 in range(0, len(jobs), chunk):
        results = run_pool(jobs[c0:c0 + chunk], procs)
        lines, metas = [], []
        for res in results:
            for k, v in res["hist"].items():
                R.count(k, v)
            if res["init_problems"]:
                R.oracle_fail("coherence:constructor", {"fixture": None, "seed": res["seed"], "ops": []}, {"problems": res["init_problems"][:3]},
                              {"call": "constructor", "pattern": "none"})
            for key in res["keys"]:
                R.case(key, nontrivial=True, sample=None)
            if res["sample"] is not None and len(R.samples) < 6:
                R.samples.append(res["sample"])
            for f in res["fails"]:
                sg = f["sig"]
                case = f["case"]
                if sg["pattern"] in ("none", "indexed-result") and len(new_patterns) < 6:
                    k = (sg["call"], sg["what"], sg["outcome"])
                    if k not in new_patterns:
                        new_patterns[k] = 1
                        case = shrink(case, sg["pattern"], sg["what"])
                R.oracle_fail(f["label"], case, f["detail"], sg)
            for ln in res["lines"]:
                lines.append(ln["line"])
                metas.append(ln)
        del results
        if ok and lines:
            mres = R.model(lines, shards=procs)
            for ln, r in zip(metas, mres):
                R.traces += 1
                if not isinstance(r, list) or (r and r[0] == "decode-error"):
                    R.mismatch("decode", ln["case"], "line accepted by the code", r)
                    continue
                if ln.get("lazy"):
                    mt, mo, coh_pre, coh_post, vok = r
                    if mo == "unmodelled":
                        R.count("model:unmodelled-branch:" + ln["op"])
                        continue
                    R.count("model:compared:" + ln["op"] + ":" + ln["out"] + (":state-changed" if ln.get("changed") else ""))
                    if coh_pre == "t" and vok == "t":
                        inside += 1
                    if mo != ln["out"] or mt != ln["post"]:
                        R.mismatch("lstep:" + ln["op"], ln["case"], {"outcome": ln["out"], "post": ln["post"]}, {"outcome": mo, "post": mt})
                    elif coh_pre == "t" and vok == "t" and coh_post != "t":
                        R.mismatch("theorem-instance-lazy", ln["case"], "model lazy state incoherent inside the theorem's domain", mt)
                    elif coh_post == "t" and not ln["coherent"]:
                        R.mismatch("lcohb-twin", ln["case"], {"oracle_coherent": False}, {"lcohb": coh_post})
                    continue
                mt, mo, coh_pre, coh_post, insc, clean = r
                if mo == "unmodelled":
                    R.count("model:unmodelled-branch")
                    if ln["op"] in INDEX_OPS:
                        R.count("model:unmodelled-branch:" + ln["op"])
                    continue
                R.count("model:compared")
                if ln["op"] in INDEX_OPS:
                    R.count("model:compared:" + ln["op"] + ":" + ln["out"] + (":state-changed" if ln.get("changed") else ""))
                if insc == "t" and clean == "t" and coh_pre == "t":
                    inside += 1
                if mo != ln["out"] or mt != ln["post"]:
                    R.mismatch("step:" + ln["op"], ln["case"], {"outcome": ln["out"], "post": ln["post"]}, {"outcome": mo, "post": mt})
                elif (coh_post == "t") != ln["coherent"]:
                    R.mismatch("coherentb-twin", ln["case"], {"oracle_coherent": ln["coherent"]}, {"coherentb": coh_post})
                elif insc != "t":
                    R.mismatch("in_scope-twin", ln["case"], {"harness_in_scope": True}, {"in_scopeb": insc})
                elif coh_pre == "t" and clean == "t" and coh_post != "t":
                    # the theorem C01_step_partial evaluated on a concrete case: cannot happen while the proof compiles
                    R.mismatch("theorem-instance", ln["case"], "model state incoherent inside the theorem's domain", mt)
    R.extra["modelled_steps_inside_theorem_domain"] = inside
    R.extra["histories"] = len(jobs)
    R.extra["steps_per_history"] = length


def replay(body):
    import warnings
    warnings.filterwarnings("ignore")
    case = body["case"]
    print("fixture:", json.dumps(case.get("fixture")))
    if case.get("fixture") is None:
        print("(no fixture recorded)")
        return 0
    steps = replay_case(case)
    from .core import build_driver, run_model
    okd, _ = build_driver(PID)
    for i, st in enumerate(steps):
        print(f"--- call {i}: {json.dumps(st['op'])}")
        print("    implementation:", st["out"], st.get("exc") or "")
        if st["out"] == "skip":
            continue
        for p in st.get("problems") or []:
            print("    ORACLE: incoherent ->", json.dumps(p), " signature:", json.dumps(signature(st, p)))
        if not st.get("problems"):
            print("    oracle: coherent")
        if okd and modelable(st["pre"]) and modelable(st["post"]):
            mo = op_sx(st["op"], st["pre"])
            if mo is not None:
                r = run_model(PID, [sx([Sym("xstep"), tree_sx(st["pre"]), mo])])[0]
                if isinstance(r, list) and len(r) == 6:
                    agree = r[1] == "unmodelled" or (r[1] == st["out"] and r[0] == canon_tree(st["post"]))
                    print(f"    model: outcome {r[1]}, coherentb(post) {r[3]}, in_scope {r[4]}, clean {r[5]}, agrees with implementation: {agree}")
                    if not agree:
                        print("      model post:", json.dumps(r[0]))
                        print("      real  post:", json.dumps(canon_tree(st["post"])))
    print("final state:", json.dumps(canon_tree(steps[-1]["post"])) if steps and steps[-1].get("post") and modelable(steps[-1]["post"]) else "(see snapshot)")
    print(json.dumps(body.get("detail"), default=str))
    return 0
