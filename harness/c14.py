"""C14 — TensorDict modules read in_keys, write out_keys, sequences compose soundly (DESIGN.md §4 C14).

Values are terms of a free algebra.  Every leaf module of a generated graph computes, element by element,
the *interned identifier* of the term `App module_id out_index (terms of its inputs)`: the interner is a bijection
between integers and terms, so two tensors hold the same number iff they hold the same term ("computes the same value
for every module function").  The input entry of key k (member i of a lazy stack) holds the identifier of `In k@i`.

Three independent things are compared on every case:
  * the SPEC ORACLE (a dozen lines of Python: functional fold over a dict, last writer wins) against what the real
    code returns -- `R.oracle_fail` (a concrete failing input);
  * the extracted Gallina model (coq/Model/C14_Flow.v, C14_Interact.v) against the real code -- `R.mismatch`;
  * the theorems of coq/Props/C14.v are re-checked by `R.step_prove()`.
Real distributions' numerics are out of scope: probabilistic modules are driven with a recording stub distribution.
"""
import itertools
import json
import os
import sys
from collections import OrderedDict

import torch

from .core import Sym, sx

SINK = "_"
KEYS = ["a", "b", "c", "n.x", "n.y", "m.z"]     # JSON spelling of the key universe; "." separates nested components


def K(s):
    """JSON spelling -> tensordict key"""
    return tuple(s.split(".")) if "." in s else s


def KS(k):
    return ".".join(k) if isinstance(k, tuple) else k


def first(s):
    return s.split(".")[0]


# ------------------------------------------------------------------ terms
class Terms:
    """hash-consing interner: identifier <-> term, terms are ("in", key, member) | ("app", mid, out_index, (arg ids))"""

    def __init__(self):
        self.ids = {}
        self.terms = []

    def intern(self, t):
        i = self.ids.get(t)
        if i is None:
            i = len(self.terms) + 1000          # identifiers never collide with small integers used elsewhere
            self.ids[t] = i
            self.terms.append(t)
        return i

    def tree(self, i):
        """identifier -> full term tree (nested tuples)"""
        t = self.terms[i - 1000]
        if t[0] == "in":
            return t
        return ("app", t[1], t[2], tuple(self.tree(a) for a in t[3]))


def term_sx(t):
    """term tree -> the model's printed form"""
    if t[0] == "in":
        return ["in", t[1]]
    return ["app", t[1], t[2], [term_sx(a) for a in t[3]]]


def term_json(t):
    if t[0] == "in":
        return "In(%s%s)" % (t[1], "" if not t[2] else "@%d" % t[2])
    return "App(%d,%d,[%s])" % (t[1], t[2], ",".join(term_json(a) for a in t[3]))


def strip_member(t):
    """term tree with the member index dropped from its leaves (the model runs each member on its own)"""
    if t[0] == "in":
        return ("in", t[1], 0)
    return ("app", t[1], t[2], tuple(strip_member(a) for a in t[3]))


# ------------------------------------------------------------------ graphs
def leaves(node):
    if node["t"] == "mod":
        return [node]
    return [l for s in node["ms"] for l in leaves(s)]


def is_regular_inner(node):
    """inner nodes of the oracle's domain: leaves write in place without an out-key hook, nested sequences have the
    default configuration (DESIGN: the property's sequences are chains of in-place modules)"""
    if node["t"] == "mod":
        return node["inpl"] is True          # select_out_keys on a leaf is fine since the repair of D9 / D141
    return node["inpl"] in (None, True) and node["sel"] is None and not node["pt"] and all(is_regular_inner(s) for s in node["ms"])


def is_regular(node):
    """the top node may have any configuration; everything below it is regular"""
    if node["t"] == "mod":
        return True
    return all(is_regular_inner(s) for s in node["ms"])


class Missing(Exception):
    pass


def spec_run(node, env, member=0):
    """THE SPEC: apply the leaf modules one after another on a functional environment; last writer wins."""
    env = dict(env)
    for l in leaves(node):
        args = []
        for k in l["ins"]:
            if k not in env:
                raise Missing(k)
            args.append(env[k])
        for j, k in enumerate(l["outs"]):
            if k != SINK and (l["sel"] is None or k in l["sel"]):      # select_out_keys: the other outputs are discarded
                env[k] = ("app", l["id"], j, tuple(args))
    return env


def spec_written(node):
    return [k for l in leaves(node) for k in l["outs"] if l["sel"] is None or k in l["sel"]]


def spec_free_reads(node):
    seen, free = set(), []
    for l in leaves(node):
        for k in l["ins"]:
            if k not in seen and k not in free:
                free.append(k)
        seen.update(k for k in l["outs"] if l["sel"] is None or k in l["sel"])
    return free


# ------------------------------------------------------------------ the real code
def _imports():
    import tensordict  # noqa: F401
    from tensordict import TensorDict, lazy_stack, LazyStackedTensorDict
    from tensordict.nn import TensorDictModule, TensorDictSequential
    return TensorDict, lazy_stack, LazyStackedTensorDict, TensorDictModule, TensorDictSequential


def make_fn(T, mid, nout, kwnames=None):
    def fn(*args, **kw):
        vals = list(args) + ([kw[n] for n in kwnames] if kwnames else [])
        for v in vals:
            if v is None:
                # what any arithmetic on a missing input does
                raise TypeError("unsupported operand type(s) for +: 'NoneType' and 'int'")
        shape = tuple(vals[0].shape) if vals else ()
        cols = [v.reshape(-1).tolist() for v in vals]
        n = len(cols[0]) if cols else 1
        res = []
        for j in range(nout):
            ids = [T.intern(("app", mid, j, tuple(c[e] for c in cols))) for e in range(n)]
            res.append(torch.tensor(ids, dtype=torch.int64).reshape(shape))
        if nout == 0:
            return None
        return tuple(res) if nout != 1 else res[0]
    fn.mid = mid
    return fn


def build(node, T):
    TensorDict, lazy_stack, Lazy, Mod, Seq = _imports()
    if node["t"] == "mod":
        ins = [K(k) for k in node["ins"]]
        outs = [K(k) for k in node["outs"]]
        if node.get("kw"):
            names = ["arg%d" % i for i in range(len(ins))]
            m = Mod(make_fn(T, node["id"], len(outs), names), in_keys=dict(zip(names, ins)), out_keys=outs, out_to_in_map=True,
                    inplace=node["inpl"])
        else:
            m = Mod(make_fn(T, node["id"], len(outs)), in_keys=ins, out_keys=outs, inplace=node["inpl"])
        if node["sel"] is not None:
            m.select_out_keys(*[K(k) for k in node["sel"]])
        return m
    subs = [build(s, T) for s in node["ms"]]
    if node.get("dict"):
        m = Seq(OrderedDict(("m%d" % i, s) for i, s in enumerate(subs)), partial_tolerant=node["pt"], inplace=node["inpl"])
    else:
        m = Seq(*subs, partial_tolerant=node["pt"], inplace=node["inpl"])
    if node["sel"] is not None:
        if node.get("selctor"):
            # the constructor spelling (an empty list there means "no selection")
            m = (Seq(OrderedDict(("m%d" % i, s) for i, s in enumerate(subs)), partial_tolerant=node["pt"], inplace=node["inpl"],
                     selected_out_keys=[K(k) for k in node["sel"]]) if node.get("dict") else
                 Seq(*subs, partial_tolerant=node["pt"], inplace=node["inpl"], selected_out_keys=[K(k) for k in node["sel"]]))
        else:
            m.select_out_keys(*[K(k) for k in node["sel"]])
    return m


def make_td(T, keys, member=0, space=""):
    TensorDict = _imports()[0]
    td = TensorDict({}, [])
    for k in keys:
        td.set(K(k), torch.tensor(T.intern(("in", space + k, member)), dtype=torch.int64))
    return td


def leaf_items(td):
    return {KS(k): v for k, v in td.items(True, True)}


def structure(mod):
    """tree of kept leaf ids of a (sub)sequence built by the code: leaf -> its function's id, sequence -> list"""
    Seq = _imports()[4]
    if isinstance(mod, Seq):
        return [structure(m) for m in mod._module_iter()]
    return getattr(mod.module, "mid", -1)


def klist(ks):
    return [KS(k) for k in ks]


# ------------------------------------------------------------------ running one case against the real code
def resolve_present(call, adv_in):
    """keys of the input tensordict: the ADVERTISED in_keys of the code under test, plus / minus what the case says"""
    ks = list(dict.fromkeys(adv_in))
    if call.get("drop") is not None and ks:
        del ks[call["drop"] % len(ks)]
    for k in call.get("extra", []):
        if k not in ks:
            ks.append(k)
    return ks


class Ids:
    """identity as equivalence classes: objects are numbered in order of first appearance"""

    def __init__(self):
        self.cls = {}
        self.keep = []

    def of(self, o):
        i = id(o)
        if i not in self.cls:
            self.cls[i] = len(self.cls)
            self.keep.append(o)       # keep it alive: no address reuse
        return self.cls[i]


def snapshot(T, td, ids):
    return {k: [T.tree(int(v)), ids.of(v)] for k, v in sorted(leaf_items(td).items())}


def exc_class(e):
    return "raise"


def run_td_call(case):
    """-> observation dict (JSON-serialisable apart from term tuples)"""
    TensorDict, lazy_stack, Lazy, Mod, Seq = _imports()
    T = Terms()
    g, c = case["graph"], case["call"]
    try:
        mod = build(g, T)
    except Exception as e:  # noqa: BLE001
        return {"phase": "build", "exc": type(e).__name__}
    obs = {"phase": "run", "in_keys": klist(mod.in_keys), "out_keys": klist(mod.out_keys)}
    present = resolve_present(c, obs["in_keys"])
    obs["present"] = present
    ids = Ids()
    td = make_td(T, present)
    tout = make_td(T, c["tout"], space="@out.") if c.get("tout") is not None else None
    obs["input_before"] = snapshot(T, td, ids)
    obs["tout_before"] = snapshot(T, tout, ids) if tout is not None else None
    try:
        if tout is not None:
            res = mod(td, tensordict_out=tout)
        else:
            res = mod(td)
    except Exception as e:  # noqa: BLE001
        obs["exc"] = type(e).__name__
        obs["exc_chain"] = type(e.__cause__).__name__ if e.__cause__ is not None else None
        res = None
    else:
        obs["exc"] = None
    obs["input_after"] = snapshot(T, td, ids)
    obs["tout_after"] = snapshot(T, tout, ids) if tout is not None else None
    if res is not None:
        obs["ret"] = "in" if res is td else ("out" if res is tout else "fresh")
        obs["result"] = snapshot(T, res, ids)
    obs["_T"] = T
    return obs


def run_dispatch_call(case):
    """kwargs / positional-tensor call of the top module (the `dispatch` decorator)"""
    T = Terms()
    g, c = case["graph"], case["call"]
    try:
        mod = build(g, T)
    except Exception as e:  # noqa: BLE001
        return {"phase": "build", "exc": type(e).__name__}
    obs = {"phase": "run", "in_keys": klist(mod.in_keys), "out_keys": klist(mod.out_keys)}
    present = resolve_present(c, obs["in_keys"])
    obs["present"] = present
    vals = {k: torch.tensor(T.intern(("in", k, 0)), dtype=torch.int64) for k in present}
    try:
        if c["style"] == "kwargs":
            res = mod(**{k.replace(".", "_"): v for k, v in vals.items()})
        else:
            npos = c.get("npos", len(present))
            pos = [vals[k] for k in present[:npos]]
            res = mod(*pos, **{k.replace(".", "_"): vals[k] for k in present[npos:]})
    except Exception as e:  # noqa: BLE001
        obs["exc"] = type(e).__name__
        return obs
    obs["exc"] = None
    if isinstance(res, tuple):
        obs["tuple"] = True
        obs["values"] = [T.tree(int(v)) if isinstance(v, torch.Tensor) else repr(type(v).__name__) for v in res]
    elif isinstance(res, torch.Tensor):
        obs["tuple"] = False
        obs["values"] = [T.tree(int(res))]
    else:
        obs["tuple"] = None
        obs["values"] = repr(type(res).__name__)
    return obs


def run_lazy_call(case):
    """partial_tolerant: the input is a lazy stack of members holding different key sets"""
    TensorDict, lazy_stack, Lazy, Mod, Seq = _imports()
    T = Terms()
    g, c = case["graph"], case["call"]
    try:
        mod = build(g, T)
    except Exception as e:  # noqa: BLE001
        return {"phase": "build", "exc": type(e).__name__}
    obs = {"phase": "run", "in_keys": klist(mod.in_keys), "out_keys": klist(mod.out_keys)}
    members = [make_td(T, ks, member=i) for i, ks in enumerate(c["members"])]
    before = [dict(leaf_items(m)) for m in members]
    lz = lazy_stack(members, 0)
    try:
        res = mod(lz)
    except Exception as e:  # noqa: BLE001
        obs["exc"] = type(e).__name__
        res = None
    else:
        obs["exc"] = None
    obs["members_after"] = [{k: T.tree(int(v)) for k, v in sorted(leaf_items(m).items())} for m in lz.tensordicts]
    obs["members_same"] = [{k: (leaf_items(m).get(k) is v) for k, v in sorted(b.items())} for m, b in zip(lz.tensordicts, before)]
    if res is not None:
        obs["ret"] = "in" if res is lz else "fresh"
        if isinstance(res, Lazy):
            obs["result_members"] = [{k: T.tree(int(v)) for k, v in sorted(leaf_items(m).items())} for m in res.tensordicts]
        else:
            obs["result_members"] = None
            obs["result_keys"] = sorted(leaf_items(res))
    return obs


# ------------------------------------------------------------------ generators
def adv_out_gen(node):
    """out_keys a node advertises (used by the generator to pick selections; the checks use the code's own attribute)"""
    if node["sel"] is not None:
        return list(node["sel"])
    if node["t"] == "mod":
        return list(node["outs"])
    allk = [k for s in node["ms"] for k in adv_out_gen(s)]
    return [k for i, k in enumerate(allk) if k not in allk[i + 1:]]


def gen_leaf(rng, mid, written, quirky):
    nin = rng.choice([0, 1, 1, 1, 1, 2, 2, 2, 3])
    ins = []
    for _ in range(nin):
        pool = written if (written and rng.random() < 0.55) else KEYS
        k = rng.choice(pool)
        if k == SINK:
            k = rng.choice(KEYS)
        if k not in ins or rng.random() < 0.05:
            ins.append(k)
    nout = rng.choice([0, 1, 1, 1, 1, 1, 2, 2, 2, 3]) if rng.random() < 0.3 else rng.choice([1, 1, 2])
    outs = []
    for _ in range(nout):
        k = SINK if rng.random() < 0.12 else rng.choice(KEYS)
        if k not in outs or k == SINK or rng.random() < 0.05:
            outs.append(k)
    node = {"t": "mod", "id": mid, "ins": ins, "outs": outs, "inpl": True, "sel": None, "kw": rng.random() < 0.15}
    if quirky:
        r = rng.random()
        if r < 0.4:
            node["inpl"] = rng.choice([False, "empty"])
        elif r < 0.9 and outs:
            node["sel"] = [k for k in dict.fromkeys(outs) if rng.random() < 0.5] or [outs[0]]
    return node


def gen_seq(rng, counter, depth, quirk_rate, top=False):
    n = rng.choice([1, 2, 2, 3, 3, 3, 4, 4, 5, 6]) if top else rng.choice([1, 2, 2, 3])
    ms, written = [], []
    for _ in range(n):
        if depth < 2 and rng.random() < (0.22 if top else 0.15):
            s = gen_seq(rng, counter, depth + 1, quirk_rate)
        else:
            counter[0] += 1
            s = gen_leaf(rng, counter[0], written, rng.random() < quirk_rate)
        ms.append(s)
        written.extend(k for k in adv_out_gen(s) if k != SINK)
    node = {"t": "seq", "ms": ms, "inpl": None, "sel": None, "pt": False, "dict": rng.random() < 0.2}
    if not top and rng.random() < quirk_rate:
        r = rng.random()
        if r < 0.35:
            node["inpl"] = rng.choice([True, False, "empty"])
        elif r < 0.8:
            outs = adv_out_gen(node)
            node["sel"] = [k for k in outs if rng.random() < 0.5]
        else:
            node["pt"] = True
    return node


def gen_case(rng):
    """one graph + one call"""
    counter = [0]
    quirk_rate = 0.0 if rng.random() < 0.7 else 0.25
    if rng.random() < 0.22:
        counter[0] += 1
        g = gen_leaf(rng, counter[0], [], False)
        if not g["outs"]:
            g["outs"] = [rng.choice(KEYS)]
        g["inpl"] = rng.choice([True, True, False, "empty"])
        if rng.random() < 0.3:
            g["sel"] = [k for k in dict.fromkeys(g["outs"]) if rng.random() < 0.6] or [g["outs"][0]]
    else:
        g = gen_seq(rng, counter, 0, quirk_rate, top=True)
        g["inpl"] = rng.choice([None, None, None, True, False, "empty"])
        if rng.random() < 0.3:
            outs = adv_out_gen(g)
            g["sel"] = [k for k in outs if rng.random() < 0.5]
            if rng.random() < 0.04:
                g["sel"].append(rng.choice(KEYS))        # possibly not an out key: the constructor must reject it
            g["selctor"] = rng.random() < 0.3
        g["pt"] = rng.random() < 0.1
    call = {"style": "td", "extra": [], "drop": None, "tout": None}
    r = rng.random()
    if r < 0.45:
        pass
    elif r < 0.85:
        call["extra"] = [k for k in KEYS if rng.random() < 0.4]
    else:
        call["drop"] = rng.randrange(6)
        call["extra"] = [k for k in KEYS if rng.random() < 0.2]
    r = rng.random()
    if r < 0.2:
        call["tout"] = [k for k in KEYS if rng.random() < 0.3]
    elif r < 0.36:
        call["style"] = rng.choice(["kwargs", "args"])
        call["extra"] = []
        if call["style"] == "args":
            call["npos"] = rng.choice([0, 1, 2, 2, 3, 3])
            call["drop"] = None
    elif r < 0.49 and g["t"] == "seq":
        call["style"] = "lazy"
        g["pt"] = rng.random() < 0.8
        free = spec_free_reads(g)
        base = [k for k in KEYS if k in free or rng.random() < 0.3]
        call["members"] = [[k for k in base if rng.random() < 0.75] for _ in range(rng.choice([2, 2, 3]))]
        # in a lazy stack every module needs an input to know the batch shape
        for l in leaves(g):
            if not l["ins"]:
                l["ins"] = [rng.choice(KEYS)]
    return {"graph": g, "call": call}


# ------------------------------------------------------------------ the spec oracle on the real code
def has_leaf_hook_inplace(node):
    """D9 pattern: a TensorDictModule with select_out_keys that writes into its input (inplace=True, no tensordict_out)"""
    return any(l["sel"] is not None and l["inpl"] is True for l in leaves(node))


def oracle_td(case, obs):
    """what the property demands of one tensordict call; -> list of (label, detail, signature)"""
    g, c = case["graph"], case["call"]
    fails = []
    if obs["phase"] != "run":
        return fails
    out_adv = set(obs["out_keys"])
    regular = is_regular(g)
    complete = c.get("drop") is None
    top_leaf = g["t"] == "mod"
    feats = {
        "top": g["t"],
        "top_sel": g["sel"] is not None,
        "top_inpl": str(g["inpl"]),
        "tout": c.get("tout") is not None,
        "regular": regular,
        "leaf_hook_inplace": has_leaf_hook_inplace(g),
    }
    env0 = {k: ("in", k, 0) for k in obs["present"]}
    spec = None
    if regular:
        try:
            spec = spec_run(g, env0)
        except Missing:
            spec = None
    # ---- sufficiency of the advertised in_keys
    if regular and complete and obs["exc"] is not None:
        fails.append(("in_keys_sufficient", {"exception": obs["exc"], "in_keys": obs["in_keys"], "present": obs["present"]},
                      dict(feats, check="in_keys_sufficient")))
    # ---- values: sequential fold, last writer wins
    if regular and spec is not None and obs["exc"] is None:
        res = obs["result"]
        for k in obs["out_keys"]:
            if k == SINK:
                continue
            if k not in spec:
                continue
            if k not in res:
                fails.append(("values:out-key-missing", {"key": k, "result_keys": sorted(res)}, dict(feats, check="values-missing")))
            elif res[k][0] != spec[k]:
                fails.append(("values:seq-is-fold", {"key": k, "have": term_json(res[k][0]), "want": term_json(spec[k])},
                              dict(feats, check="values")))
    # ---- footprint: entries other than the advertised out_keys are the identical objects afterwards
    for where in ("input", "tout"):
        before, after = obs[where + "_before"], obs[where + "_after"]
        if before is None:
            continue
        for k, (t, o) in before.items():
            if k in out_adv:
                continue
            if k not in after:
                fails.append(("footprint:entry-dropped", {"where": where, "key": k},
                              dict(feats, check="footprint-dropped", where=where, sibling=sibling_of_out(k, out_adv))))
            elif after[k][1] != o:
                fails.append(("footprint:entry-replaced", {"where": where, "key": k, "now": term_json(after[k][0])},
                              dict(feats, check="footprint-replaced", where=where, written_inside=k in spec_written(g))))
        for k in after:
            if k not in before and k not in out_adv:
                fails.append(("footprint:wrote-non-out-key", {"where": where, "key": k, "_present": sorted(before)},
                              dict(feats, check="footprint-extra", where=where, sibling=sibling_of_out(k, out_adv),
                                   written_inside=k in spec_written(g))))
    if obs["exc"] is None and obs.get("ret") == "fresh":
        for k in obs["result"]:
            if k not in out_adv:
                fails.append(("footprint:fresh-output-has-non-out-key", {"key": k},
                              dict(feats, check="fresh-extra", sibling=sibling_of_out(k, out_adv), written_inside=k in spec_written(g))))
    return fails


def sibling_of_out(k, out_adv):
    """k is a nested key whose first component is also the first component of an advertised nested out key"""
    return "." in k and any("." in o and first(o) == first(k) for o in out_adv)


def spec_run_tolerant(node, env):
    """partial_tolerant: a direct child whose (free) inputs are not all present is skipped for that member"""
    env = dict(env)
    for child in node["ms"]:
        if all(k in env for k in spec_free_reads(child)):
            env = spec_run(child, env)
    return env


def oracle_dispatch(case, obs):
    g, c = case["graph"], case["call"]
    fails = []
    if obs["phase"] != "run" or not is_regular(g) or c.get("drop") is not None:
        return fails
    if c["style"] == "args" and c.get("npos", 0) > len(obs["present"]):
        return fails
    feats = {"top": g["t"], "top_sel": g["sel"] is not None, "style": c["style"], "sink_in_out_keys": SINK in obs["out_keys"],
             "n_out_keys": len(obs["out_keys"])}
    env0 = {k: ("in", k, 0) for k in obs["present"]}
    try:
        spec = spec_run(g, env0)
    except Missing:
        return fails
    if obs["exc"] is not None:
        fails.append(("dispatch:raises", {"exception": obs["exc"], "out_keys": obs["out_keys"]}, dict(feats, check="dispatch-raises")))
        return fails
    want = [spec[k] for k in obs["out_keys"] if k != SINK and k in spec]
    have = obs["values"]
    if not isinstance(have, list) or [h for h in have] != want:
        fails.append(("dispatch:values", {"have": [term_json(h) if isinstance(h, tuple) else h for h in have] if isinstance(have, list) else have,
                                          "want": [term_json(w) for w in want]}, dict(feats, check="dispatch-values")))
    return fails


def oracle_lazy(case, obs):
    g, c = case["graph"], case["call"]
    fails = []
    if obs["phase"] != "run" or not is_regular(g) or g["t"] != "seq":
        return fails
    feats = {"pt": g["pt"], "top_sel": g["sel"] is not None, "top_inpl": str(g["inpl"])}
    members = c["members"]
    free_top = [spec_free_reads(ch) for ch in g["ms"]]
    if not g["pt"]:
        return fails     # without partial_tolerant a heterogeneous stack is simply not a valid input of every module
    if g["sel"] is not None or g["inpl"] not in (None, True):
        return fails     # values of partial members reach the output through the members themselves only in place
    if obs["exc"] is not None:
        fails.append(("lazy:raises", {"exception": obs["exc"]}, dict(feats, check="lazy-raises")))
        return fails
    out_adv = set(obs["out_keys"])
    for i, ks in enumerate(members):
        env0 = {k: ("in", k, i) for k in ks}
        spec = spec_run_tolerant(g, env0)
        after = obs["members_after"][i]
        for k, t in spec.items():
            if k in out_adv and k not in env0 or (k in env0 and spec[k] != env0[k]):
                if after.get(k) != t:
                    fails.append(("lazy:member-values", {"member": i, "key": k, "have": term_json(after[k]) if k in after else None,
                                                         "want": term_json(t)}, dict(feats, check="lazy-values")))
        for k in ks:
            if k not in out_adv and not obs["members_same"][i].get(k):
                fails.append(("lazy:member-entry-touched", {"member": i, "key": k}, dict(feats, check="lazy-footprint")))
        for k in after:
            if k not in ks and k not in out_adv:
                fails.append(("lazy:member-wrote-non-out-key", {"member": i, "key": k}, dict(feats, check="lazy-extra")))
    return fails


def run_subseq(case):
    """select_subsequence(in_keys=I, out_keys=S) of the top sequence, then both sequences on the same input"""
    TensorDict, lazy_stack, Lazy, Mod, Seq = _imports()
    T = Terms()
    g, c = case["graph"], case["call"]
    try:
        mod = build(g, T)
    except Exception as e:  # noqa: BLE001
        return {"phase": "build", "exc": type(e).__name__}
    obs = {"phase": "run", "in_keys": klist(mod.in_keys), "out_keys": klist(mod.out_keys), "structure": structure(mod)}
    kw = {}
    if c["in"] is not None:
        kw["in_keys"] = [K(k) for k in c["in"]]
    if c["out"] is not None:
        kw["out_keys"] = [K(k) for k in c["out"]]
    try:
        sub = mod.select_subsequence(**kw)
    except Exception as e:  # noqa: BLE001
        obs["sub_exc"] = type(e).__name__
        return obs
    obs["sub_exc"] = None
    obs["sub_structure"] = structure(sub)
    obs["sub_in_keys"] = klist(sub.in_keys)
    obs["sub_out_keys"] = klist(sub.out_keys)
    obs["orig_structure_after"] = structure(mod)
    present = resolve_present(c, obs["in_keys"]) if c["in"] is None else list(c["in"])
    obs["present"] = present

    def run(m, keys):
        td = make_td(T, keys)
        try:
            r = m(td)
        except Exception as e:  # noqa: BLE001
            return {"exc": type(e).__name__}
        return {"exc": None, "result": {k: T.tree(int(v)) for k, v in sorted(leaf_items(r).items())}}
    obs["full_run"] = run(mod, present) if c["in"] is None else None
    obs["sub_run"] = run(sub, present)
    obs["sub_run_exact"] = run(sub, obs["sub_in_keys"])
    return obs


def oracle_subseq(case, obs):
    g, c = case["graph"], case["call"]
    fails = []
    if obs["phase"] != "run" or not is_regular(g) or g["t"] != "seq" or g["sel"] is not None:
        return fails
    feats = {"in_given": c["in"] is not None, "out_given": c["out"] is not None}
    written = set(spec_written(g))
    if c["in"] is None:
        S = c["out"]
        if obs["sub_exc"] is not None:
            if any(k in written for k in S):
                fails.append(("subsequence:rejected", {"out_keys": S, "exception": obs["sub_exc"]}, dict(feats, check="sub-rejected")))
            return fails
        full, sub = obs["full_run"], obs["sub_run"]
        if full["exc"] is not None:
            return fails
        if sub["exc"] is not None:
            fails.append(("subsequence:not-executable", {"out_keys": S, "exception": sub["exc"], "kept": obs["sub_structure"]},
                          dict(feats, check="sub-raises")))
            return fails
        for k in S:
            if k == SINK or k not in full["result"]:
                continue
            if sub["result"].get(k) != full["result"][k]:
                fails.append(("subsequence:values", {"key": k, "kept": obs["sub_structure"],
                                                     "have": term_json(sub["result"][k]) if k in sub["result"] else None,
                                                     "want": term_json(full["result"][k])}, dict(feats, check="sub-values")))
        if obs["sub_run_exact"]["exc"] is not None:
            fails.append(("subsequence:in_keys-insufficient", {"sub_in_keys": obs["sub_in_keys"], "kept": obs["sub_structure"]},
                          dict(feats, check="sub-insufficient")))
    else:
        if obs["sub_exc"] is not None:
            return fails     # "no modules left" is a legitimate answer for an in_keys selection
        if obs["sub_run"]["exc"] is not None:
            fails.append(("subsequence:kept-modules-not-executable", {"in_keys": c["in"], "kept": obs["sub_structure"],
                                                                      "exception": obs["sub_run"]["exc"]}, dict(feats, check="sub-in-raises")))
    return fails


def gen_subseq_case(rng):
    counter = [0]
    g = gen_seq(rng, counter, 0, 0.0 if rng.random() < 0.85 else 0.2, top=True)
    outs = adv_out_gen(g)
    call = {"style": "subseq", "in": None, "out": None, "extra": [k for k in KEYS if rng.random() < 0.3], "drop": None}
    r = rng.random()
    if r < 0.55:
        call["out"] = [k for k in outs if rng.random() < 0.4] or ([rng.choice(outs)] if outs else [])
    elif r < 0.85:
        call["in"] = [k for k in KEYS if rng.random() < 0.5]
    else:
        call["in"] = [k for k in KEYS if rng.random() < 0.6]
        call["out"] = [k for k in outs if rng.random() < 0.5]
    if rng.random() < 0.05 and call["out"] is not None:
        call["out"].append(rng.choice(KEYS))
    return {"graph": g, "call": call}


# ------------------------------------------------------------------ protocol with the extracted model
def key_sx(k):
    return k.split(".")


def inpl_sx(v):
    return Sym("t") if v is True else Sym("f") if v is False else Sym("empty")


def opt(x):
    return Sym("none") if x is None else [Sym("some"), x]


def node_sx(n):
    if n["t"] == "mod":
        return [Sym("mod"), n["id"], [key_sx(k) for k in n["ins"]], [key_sx(k) for k in n["outs"]],
                opt(None if n["sel"] is None else [key_sx(k) for k in n["sel"]]), inpl_sx(n["inpl"])]
    sel = n["sel"]
    if sel is not None and n.get("selctor") and not sel:
        sel = None        # TensorDictSequential(selected_out_keys=[]) means "no selection" (sequence.py:255)
    return [Sym("seq"), [node_sx(s) for s in n["ms"]], opt(None if n["inpl"] is None else inpl_sx(n["inpl"])),
            opt(None if sel is None else [key_sx(k) for k in sel]), bool(n["pt"]), bool(n.get("dict"))]


def p_key(s):
    return ".".join(s)


def p_term(s):
    if s[0] == "in":
        return ("in", p_key(s[1]), 0)
    return ("app", s[1], s[2], tuple(p_term(a) for a in s[3]))


def p_td(s):
    return {p_key(kv[0]): p_term(kv[1]) for kv in s}


def p_opt(s, f):
    return None if s == "none" else f(s[1])


def p_outcome(s):
    if s[0] == "done":
        ret = s[3] if isinstance(s[3], str) else "fresh"
        return {"exc": False, "input": p_td(s[1]), "tout": p_opt(s[2], p_td), "ret": ret,
                "result": p_td(s[3][1]) if ret == "fresh" else None}
    return {"exc": True, "input": p_td(s[1]), "tout": p_opt(s[2], p_td)}


def only_terms(snap):
    return None if snap is None else {k: v[0] for k, v in snap.items()}


def impl_outcome(obs):
    if obs["exc"] is not None:
        return {"exc": True, "input": only_terms(obs["input_after"]), "tout": only_terms(obs["tout_after"])}
    return {"exc": False, "input": only_terms(obs["input_after"]), "tout": only_terms(obs["tout_after"]), "ret": obs["ret"],
            "result": only_terms(obs["result"]) if obs["ret"] == "fresh" else None}


def identity_consistent(obs):
    """the model identifies objects with their bindings: same term <=> same object, over everything observed in a call"""
    t2c, c2t = {}, {}
    for name in ("input_before", "tout_before", "input_after", "tout_after", "result"):
        snap = obs.get(name)
        if not snap:
            continue
        for k, (t, c) in snap.items():
            if t2c.setdefault(t, c) != c or c2t.setdefault(c, t) != t:
                return {"where": name, "key": k, "term": term_json(t)}
    return None


def jsonable(o):
    if isinstance(o, tuple) and o and o[0] in ("in", "app"):
        return term_json(o)
    if isinstance(o, dict):
        return {k: jsonable(v) for k, v in o.items() if k != "_T"}
    if isinstance(o, (list, tuple)):
        return [jsonable(v) for v in o]
    return o


# ------------------------------------------------------------------ one case, end to end (runs in a worker)
def process(case):
    """-> dict(lines=[protocol lines], impl=[what the model must answer, parsed form], fails=[oracle failures], hist=[...])"""
    import warnings
    warnings.filterwarnings("ignore")
    g, c = case["graph"], case["call"]
    style = c["style"]
    out = {"lines": [], "impl": [], "fails": [], "hist": ["style:" + style, "top:" + g["t"]], "nontrivial": True, "labels": []}
    nl = len(leaves(g))
    out["hist"].append("leaves:%d" % min(nl, 8))
    if any(SINK in l["outs"] for l in leaves(g)):
        out["hist"].append("has:sink")
    if any(s["t"] == "seq" for s in g.get("ms", [])):
        out["hist"].append("has:nested-seq")
    if any("." in k for l in leaves(g) for k in l["ins"] + l["outs"]):
        out["hist"].append("has:nested-key")
    w = spec_written(g)
    if len(set(w)) < len([k for k in w if k != SINK]):
        out["hist"].append("has:overwritten-key")
    if any(set(l["ins"]) & set(l["outs"]) for l in leaves(g)):
        out["hist"].append("has:read-and-written-key")
    if any(len(l["outs"]) > 1 for l in leaves(g)):
        out["hist"].append("has:multi-output")
    if not is_regular(g):
        out["hist"].append("irregular-inner")
    ns = node_sx(g)
    if style == "td":
        obs = run_td_call(case)
        out["hist"].append("outcome:" + (obs["phase"] if obs["phase"] == "build" else ("raise" if obs["exc"] else "ok")))
        out["lines"].append(sx([Sym("io"), ns]))
        if obs["phase"] == "build":
            out["impl"].append(("io-build", None))
            out["labels"].append("io")
            return out
        out["impl"].append(("io", [obs["in_keys"], obs["out_keys"]]))
        out["labels"].append("io")
        out["fails"] = oracle_td(case, obs)
        if not in_model_scope(g):
            out["hist"].append("outside-model:container-aliasing")
            out["fails"] = [(a, jsonable(b), cc) for (a, b, cc) in out["fails"]]
            return out
        out["lines"].append(sx([Sym("fwd"), ns, [key_sx(k) for k in obs["present"]],
                                opt(None if c.get("tout") is None else [key_sx(k) for k in c["tout"]])]))
        out["impl"].append(("fwd", impl_outcome(obs)))
        out["labels"].append("forward")
        bad = identity_consistent(obs)
        if bad is not None:
            out["impl"].append(("identity", bad))
        out["nontrivial"] = nl >= 1 and obs["exc"] is None
    elif style in ("kwargs", "args"):
        obs = run_dispatch_call(case)
        out["hist"].append("outcome:" + (obs["phase"] if obs["phase"] == "build" else ("raise" if obs["exc"] else "ok")))
        if obs["phase"] == "build":
            return out
        out["fails"] = oracle_dispatch(case, obs)
        if style == "kwargs" or (c.get("drop") is None and c.get("npos", 0) <= len(obs["present"])):
            out["lines"].append(sx([Sym("dispatch"), ns, [key_sx(k) for k in obs["present"]]]))
            out["impl"].append(("dispatch", None if obs["exc"] is not None else obs["values"]))
            out["labels"].append("dispatch")
    elif style == "lazy":
        obs = run_lazy_call(case)
        out["hist"].append("outcome:" + (obs["phase"] if obs["phase"] == "build" else ("raise" if obs["exc"] else "ok")))
        if obs["phase"] == "build":
            return out
        out["fails"] = oracle_lazy(case, obs)
        if is_regular(g) and g["sel"] is None and g["inpl"] in (None, True):
            for i, ks in enumerate(c["members"]):
                out["lines"].append(sx([Sym("fwd"), ns, [key_sx(k) for k in ks], Sym("none")]))
            out["impl"].append(("lazy", {"exc": obs["exc"] is not None,
                                         "members": [{k: strip_member(t) for k, t in m.items()} for m in obs["members_after"]]}))
            out["labels"].append("lazy")
    elif style == "skip":
        out["fails"] = run_skip_case(case)
        out["hist"].append("skip_existing")
    elif style == "subseq":
        obs = run_subseq(case)
        out["hist"].append("outcome:" + (obs["phase"] if obs["phase"] == "build" else ("reject" if obs["sub_exc"] else "ok")))
        if obs["phase"] == "build":
            return out
        out["fails"] = oracle_subseq(case, obs)
        out["lines"].append(sx([Sym("subseq"), ns, opt(None if c["in"] is None else [key_sx(k) for k in c["in"]]),
                                opt(None if c["out"] is None else [key_sx(k) for k in c["out"]])]))
        out["impl"].append(("subseq", "reject" if obs["sub_exc"] is not None else
                            ["ok", obs["sub_structure"], obs["sub_in_keys"], obs["sub_out_keys"]]))
        out["labels"].append("select_subsequence")
        if obs["sub_exc"] is None and obs["orig_structure_after"] != obs["structure"]:
            out["fails"].append(("subsequence:original-modified", {"before": obs["structure"], "after": obs["orig_structure_after"]},
                                 {"check": "sub-original-modified"}))
    out["fails"] = [(a, jsonable(b), cc) for (a, b, cc) in out["fails"]]
    return out


def inner_seqs(node, top=True):
    if node["t"] == "mod":
        return []
    return ([] if top else [node]) + [x for s in node["ms"] for x in inner_seqs(s, False)]


def in_model_scope(g):
    """every generated graph is inside the model.  (Before the repair of D143 a non-in-place inner sequence handed the nested
    NODE of its executing tensordict to its fresh output -- base.py:update sets the node itself -- after which both aliased;
    the flat leaf-map model has no container objects, so those cases were checked by the oracle only.  forward now copies
    through select(), which builds fresh containers.)"""
    return True


def compare(kind, impl, model_results):
    """-> None if the model's answers match the implementation's observation, else (impl, model) to report"""
    if kind == "io-build":
        m = model_results[0]
        return None if m[2] == "f" else ("constructor raised", {"model": "buildable"})
    if kind == "io":
        m = model_results[0]
        got = [[p_key(k) for k in m[0]], [p_key(k) for k in m[1]]]
        if m[2] != "t":
            return ("constructed", {"model": "constructor rejects"})
        return None if got == impl else (impl, got)
    if kind == "fwd":
        m = p_outcome(model_results[0])
        return None if m == impl else (jsonable(impl), jsonable(m))
    if kind == "identity":
        return (impl, "objects are identical iff bindings are identical")
    if kind == "dispatch":
        m = model_results[0]
        got = None if m == "none" else [p_term(t) for t in m[1]]
        return None if got == impl else (jsonable(impl), jsonable(got))
    if kind == "lazy":
        ms = [p_outcome(r) for r in model_results]
        m_exc = any(x["exc"] for x in ms)
        if m_exc or impl["exc"]:
            return None if m_exc == impl["exc"] else (jsonable(impl), {"exc": m_exc})
        got = [x["input"] for x in ms]
        return None if got == impl["members"] else (jsonable(impl["members"]), jsonable(got))
    if kind == "subseq":
        m = model_results[0]
        if m == "reject":
            got = "reject"
        elif m == "out-of-fuel":
            got = "out-of-fuel"
        else:
            got = ["ok", m[1], [p_key(k) for k in m[2]], [p_key(k) for k in m[3]]]
        return None if got == impl else (impl, got)
    return ("?", kind)


N_LINES = {"io-build": 1, "io": 1, "fwd": 1, "identity": 0, "dispatch": 1, "subseq": 1}


# ------------------------------------------------------------------ set_skip_existing (context state, nn/utils.py:155-390)
def spec_run_skip(node, env):
    """documented contract of set_skip_existing(True): a module (leaf or sequence) all of whose out_keys are already
    present is not executed, unless one of its in_keys is also an out_key"""
    outs = [k for k in dict.fromkeys(spec_written(node))]
    ins = spec_free_reads(node)
    if all(k in env for k in outs) and not any(k in outs for k in ins):
        return dict(env)
    if node["t"] == "mod":
        return spec_run(node, env)
    env = dict(env)
    for ch in node["ms"]:
        env = spec_run_skip(ch, env)
    return env


def run_skip_case(case):
    from tensordict.nn import set_skip_existing
    T = Terms()
    g, c = case["graph"], case["call"]
    try:
        mod = build(g, T)
    except Exception as e:  # noqa: BLE001
        return []
    present = resolve_present(c, klist(mod.in_keys))
    td = make_td(T, present)
    env0 = {k: ("in", k, 0) for k in present}
    try:
        want = spec_run_skip(g, env0)
    except Missing:
        return []
    try:
        with set_skip_existing(True):
            res = mod(td)
    except Exception as e:  # noqa: BLE001
        return [("skip_existing:raises", {"exception": type(e).__name__}, {"check": "skip-raises", "pattern": "none"})]
    have = {k: T.tree(int(v)) for k, v in leaf_items(res).items()}
    fails = []
    for k, t in want.items():
        if have.get(k) != t:
            fails.append(("skip_existing:values", {"key": k, "have": term_json(have[k]) if k in have else None, "want": term_json(t)},
                          {"check": "skip-values", "pattern": "none"}))
    # the context state is restored
    from tensordict.nn import skip_existing
    if skip_existing():
        fails.append(("skip_existing:state-leaked", {}, {"check": "skip-state", "pattern": "none"}))
    return fails


def gen_skip_case(rng):
    counter = [0]
    g = gen_seq(rng, counter, 0, 0.0, top=True)
    outs = [k for k in dict.fromkeys(spec_written(g)) if k != SINK]
    call = {"style": "skip", "extra": [k for k in outs if rng.random() < 0.6] + [k for k in KEYS if rng.random() < 0.2], "drop": None, "tout": None}
    return {"graph": g, "call": call}


# ------------------------------------------------------------------ known-defect patterns (decidable from the case)
def all_seqs(node):
    if node["t"] == "mod":
        return []
    return [node] + [x for s in node["ms"] for x in all_seqs(s)]


def classify(case, label, detail, sig):
    """name of the recorded defect pattern a failure falls under, or "none".  Each predicate is computed from the case
    and the failing key only; it is the exclusion hypothesis of the corresponding `_partial` theorem."""
    g, c = case["graph"], case["call"]
    key = detail.get("key") if isinstance(detail, dict) else None
    where = detail.get("where") if isinstance(detail, dict) else None
    top_leaf = g["t"] == "mod"
    if label == "footprint:entry-replaced":
        for s in all_seqs(g):
            if s["sel"] is not None and key in spec_written(s) and key not in s["sel"]:
                return "sequence-select-writes-back-overwritten-inputs"         # D142
    # (sibling leaves of a nested out key copied by update(keys_to_update) were finding D143: repaired, PENDING-D143)
    return "none"


# ------------------------------------------------------------------ main
def gen_all(R):
    rng = R.rng
    q = R.quick
    cases = []
    n_flow = 3000 if q else 40000
    n_sub = 1200 if q else 15000
    for _ in range(n_flow):
        cases.append(gen_case(rng))
    for _ in range(n_sub):
        cases.append(gen_subseq_case(rng))
    for _ in range(250 if q else 4000):
        cases.append(gen_skip_case(rng))
    # every subset of the out_keys / of the key universe to the selectors, on a few graphs
    n_graphs = 12 if q else 150
    for _ in range(n_graphs):
        counter = [0]
        g = gen_seq(rng, counter, 0, 0.0, top=True)
        outs = adv_out_gen(g)[:6]
        for r in range(0, len(outs) + 1):
            for S in itertools.combinations(outs, r):
                cases.append({"graph": g, "call": {"style": "subseq", "in": None, "out": list(S), "extra": [], "drop": None}, "grid": True})
        for r in range(0, len(KEYS) + 1):
            for I in itertools.combinations(KEYS, r):
                cases.append({"graph": g, "call": {"style": "subseq", "in": list(I), "out": None, "extra": [], "drop": None}, "grid": True})
    return cases


def _work(case):
    torch.set_num_threads(1)
    try:
        return process(case)
    except Exception as e:  # noqa: BLE001  -- a crash of the machinery on one case is reported, not swallowed
        import traceback
        return {"crash": traceback.format_exc()[-1500:], "lines": [], "impl": [], "fails": [], "hist": ["harness-crash"], "nontrivial": False, "labels": []}


def run_cases(R, cases, ok):
    import multiprocessing as mp
    nproc = min(12, os.cpu_count() or 1)
    if len(cases) > 200 and nproc > 1:
        with mp.get_context("fork").Pool(nproc) as pool:
            outs = pool.map(_work, cases, chunksize=16)
    else:
        outs = [_work(c) for c in cases]
    lines = [l for o in outs for l in o["lines"]]
    res = R.model(lines) if (ok and lines) else None
    pos = 0
    for ci, (case, o) in enumerate(zip(cases, outs)):
        if "crash" in o:
            R.broken.append("harness crashed on a case: " + o["crash"])
            continue
        R.case(json.dumps(case, sort_keys=True), nontrivial=o["nontrivial"],
               sample={"case": case} if ci % 211 == 0 else None)
        for h in o["hist"]:
            R.count(h)
        for (label, detail, sig) in o["fails"]:
            sig = dict(sig)
            if sig.get("where") == "tout":
                sig["_dest_before"] = case["call"].get("tout") or []
            elif sig.get("where") == "input":
                sig["_dest_before"] = detail.get("_present", [])
            sig["pattern"] = classify(case, label, detail, sig)
            sig.pop("_dest_before", None)
            R.oracle_fail(label, case, detail, sig)
        for kind, impl in o["impl"]:
            n = len(case["call"]["members"]) if kind == "lazy" else N_LINES[kind]
            if res is None:
                continue
            r = res[pos:pos + n]
            pos += n
            d = compare(kind, impl, r)
            R.traces += 1
            if d is not None:
                R.mismatch("model-vs-code:" + kind, case, d[0], d[1])


def main(R):
    torch.set_num_threads(1)
    R.rule = ("a case = (module graph over the keys a b c (n,x) (n,y) (m,z) and the sink '_', call); graphs: 1-6 modules per level, "
              "nesting depth <= 3, ModuleDict or ModuleList, leaf modules with 0-3 in_keys / 0-3 out_keys (duplicates, read-and-written "
              "keys, overwritten keys), inplace in {True, False, 'empty'}, select_out_keys on leaves and sequences, partial_tolerant; "
              "calls: tensordict (exactly the advertised in_keys / extra entries / one in_key missing), tensordict_out, keyword and "
              "positional dispatch, lazy stacks of heterogeneous members, select_subsequence(in_keys, out_keys) incl. every subset "
              "on grid graphs; distinct by the JSON of the case; non-trivial = the call returned (tensordict calls) / any (others)")
    R.assumptions = [
        "values are terms: every leaf module computes the interned identifier of App(id, out_index, input terms); the interner is a bijection, so equal numbers <=> equal terms",
        "keys have depth <= 2 and no key is a prefix of another; '_' is never an in_key (the constructor warns against it)",
        "model scope: nested container objects are not modelled (cases where a non-in-place inner sequence aliases a nested node are checked by the oracle only)",
        "probabilistic modules are driven with a recording stub distribution: which attribute / method is consulted with which parameters and sample counts; real distributions' numerics are out of scope",
    ]
    R.trusted = ["harness/c14.py: generators, the 12-line Python fold used as spec oracle, canonicalisation (terms, identity classes)",
                 "torch.nn.Module call/hook machinery, CPython"]
    R.extra["stated_not_proved"] = [
        "C14_module_footprint_full_statement (refuted: D142, a sequence with select_out_keys, and D143, sibling leaves through update(keys_to_update); proved on the complement)",
        "C14_subsequence_sound_full_statement (proved when every module has at least one out key)",
        "C14_forward_slice_executable_full_statement (proved only for in_keys selections covering the sequence's own in_keys; every subset is checked against the code by the harness)"]
    R.step_prove()
    ok = R.step_driver()
    cases = gen_all(R)
    run_cases(R, cases, ok)
    from . import c14_prob
    c14_prob.check(R, ok)
    from . import c14_plumb
    c14_plumb.check(R, ok)
    from . import c14_wrap
    c14_wrap.check(R, ok)


def replay(body):
    import warnings
    warnings.filterwarnings("ignore")
    case = body["case"]
    print("case:", json.dumps(case))
    print("recorded detail:", json.dumps(body.get("detail"), default=str))
    if case.get("kind") == "prob":
        from . import c14_prob
        return c14_prob.replay(case)
    if case.get("kind") == "plumb":
        from . import c14_plumb
        return c14_plumb.replay(case)
    if case.get("kind") == "wrap":
        from . import c14_wrap
        return c14_wrap.replay(case)
    o = process(case)
    print("oracle on the implementation:")
    for (label, detail, sig) in o["fails"]:
        print("  FAIL", label, json.dumps(detail), "pattern=" + classify(case, label, detail, dict(sig)))
    if not o["fails"]:
        print("  (no failure)")
    print("implementation observed:", json.dumps(jsonable([list(x) for x in o["impl"]]), default=str)[:3000])
    from . import core
    okb, _ = core.build_driver("C14")
    if okb and o["lines"]:
        res = core.run_model("C14", o["lines"])
        pos = 0
        for kind, impl in o["impl"]:
            n = len(case["call"]["members"]) if kind == "lazy" else N_LINES[kind]
            r = res[pos:pos + n]
            pos += n
            d = compare(kind, impl, r)
            print("model vs implementation [%s]:" % kind, "agree" if d is None else json.dumps({"implementation": d[0], "model": d[1]}, default=str))
    return 0
