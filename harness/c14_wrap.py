"""C14 — `_dist_sample` on WRAPPED distributions (added after seeded change C14-4 was missed).

(A) recording stub bases with every capability combination, wrapped in real `torch.distributions.Independent` layers and
    in a TransformedDistribution-style class (no transforms), for every interaction type, given explicitly or through the
    module's default (interaction_type=None).  Oracle (independent of the model): the method consulted is what the
    documented table prescribes when it is evaluated with (i) what the OUTER object answers -- probed on a twin object --
    and (ii) the DETERMINISTIC_REGISTER entry of the class under ALL the Independent layers.  Model: `interact-w`
    (coq/Model/C14_Interact.v: layers, caps, lookup_reg).
(B) real torch distributions whose mean differs from their mode (LogNormal, Gamma, Beta, Poisson; Normal and Categorical as
    controls), plain and wrapped in Independent: the sample equals, at 1e-6, the attribute the table prescribes OF THE SAME
    distribution object (and, through forward, of a distribution rebuilt from the same parameters).
"""
import itertools
import json
import warnings

import torch

from .core import Sym, sx
from . import c14_prob as P

ITYPES = P.ITYPES
CAPS = P.CAPS
N_EMP = P.N_EMP
NESTED = "nested-independent-register-lookup"       # D14A


# ------------------------------------------------------------------ (A) stubs
_CLASSES = {}


def base_class(lkj, has_det, support, mode, median, mean, has_rsample):
    key = (lkj, has_det, support, mode, median, mean, has_rsample)
    if key in _CLASSES:
        return _CLASSES[key]
    D = P._imports()[0]
    base = D.LKJCholesky if lkj else D.Distribution

    def attr(name, cap):
        def get(self):
            self.calls.append(name)
            if cap == "raise-attr":
                raise AttributeError(name)
            if cap == "raise-notimpl":
                raise NotImplementedError(name)
            return torch.zeros(2, 2, 2)
        return property(get)

    def __init__(self):
        self.calls = []
        self._batch_shape = torch.Size([2, 2, 2])
        self._event_shape = torch.Size([])

    def support_get(self):
        if support is None:
            raise NotImplementedError
        return D.constraints.real if support else D.constraints.positive

    def sample(self, shape=torch.Size()):
        self.calls.append(("sample", tuple(shape)))
        return torch.zeros(tuple(shape) + (2, 2, 2))

    def rsample(self, shape=torch.Size()):
        self.calls.append(("rsample", tuple(shape)))
        return torch.zeros(tuple(shape) + (2, 2, 2))
    ns = {"arg_constraints": {}, "has_rsample": has_rsample, "__init__": __init__, "mode": attr("mode", mode),
          "median": attr("median", median), "mean": attr("mean", mean), "support": property(support_get),
          "sample": sample, "rsample": rsample}
    if has_det:
        ns["deterministic_sample"] = attr("deterministic_sample", "value")
    cls = type("StubBase", (base,), ns)
    _CLASSES[key] = cls
    return cls


_TW = {}


def trans_class(tag):
    """a TransformedDistribution-style wrapper class (no transforms); one class per register entry it is given"""
    if tag in _TW:
        return _TW[tag]
    D = P._imports()[0]

    class TW(D.TransformedDistribution):
        def __init__(self, inner):
            self.outer_calls = []
            super().__init__(inner, [], validate_args=False)

        def sample(self, shape=torch.Size()):
            self.outer_calls.append("sample")
            return super().sample(shape)

        def rsample(self, shape=torch.Size()):
            self.outer_calls.append("rsample")
            return super().rsample(shape)
    _TW[tag] = TW
    return TW


def build_obj(layers, cls):
    """-> (outer object, base object)"""
    D = P._imports()[0]
    base = cls()
    o = base
    for l in reversed(layers):
        if l == "indep":
            o = D.Independent(o, 1, validate_args=False)
        else:
            o = trans_class(l[1])(o)
    return o, base


def probe(obj, name):
    try:
        getattr(obj, name)
        return "value"
    except AttributeError:
        return "raise-attr"
    except NotImplementedError:
        return "raise-notimpl"


def spec_for(obj, it, PR, D):
    """the documented table, evaluated on what the outer object answers and on the register entry of the class under all
    the Independent layers"""
    o = obj
    while isinstance(o, D.Independent):
        o = o.base_dist
    reg = PR.DETERMINISTIC_REGISTER.get(type(o))
    reg = None if reg is None else str(reg.value if hasattr(reg, "value") else reg)
    try:
        support = isinstance(obj.support, D.constraints._Real)
    except NotImplementedError:
        support = None
    return P.spec_action(it, isinstance(obj, D.LKJCholesky), hasattr(obj, "deterministic_sample"), reg, support,
                         probe(obj, "mode"), probe(obj, "median"), probe(obj, "mean"), bool(obj.has_rsample))


LAYERS = [[], ["indep"], [["trans", None]], [["trans", "mean"]], [["trans", "mode"]], ["indep", "indep"],
          ["indep", ["trans", None]], ["indep", ["trans", "mode"]], [["trans", None], "indep"], ["indep", "indep", "indep"]]


def layer_sx(l):
    if l == "indep":
        return Sym("indep")
    return [Sym("trans"), Sym("none") if l[1] is None else [Sym("some"), Sym(l[1])]]


def run_stub_case(c):
    """-> (observed action, contract, extra failures)"""
    D, TensorDict, PTM, PTS, TDM, TDS, IT, set_it, Comp, PR, set_agg = P._imports()
    cls = base_class(c["lkj"], c["has_det"], c["support_real"], c["mode"], c["median"], c["mean"], c["has_rsample"])
    saved = {}
    touched = [cls] + [trans_class(l[1]) for l in c["layers"] if l != "indep"]

    def setreg(k, v):
        saved.setdefault(k, PR.DETERMINISTIC_REGISTER.get(k))
        if v is None:
            PR.DETERMINISTIC_REGISTER.pop(k, None)
        else:
            PR.DETERMINISTIC_REGISTER[k] = IT(v)
    try:
        setreg(cls, c["reg"])
        for l in c["layers"]:
            if l != "indep":
                setreg(trans_class(l[1]), l[1])
        default = c["it"] if c["via_default"] else "mode" if c["it"] != "mode" else "mean"
        mod = PTM(in_keys=["p"], out_keys=["s"], distribution_class=cls, n_empirical_estimate=N_EMP, default_interaction_type=default)
        twin, _ = build_obj(c["layers"], cls)
        want = spec_for(twin, c["it"], PR, D)
        obj, base = build_obj(c["layers"], cls)
        try:
            with warnings.catch_warnings():
                warnings.simplefilter("ignore")
                mod._dist_sample(obj, interaction_type=None if c["via_default"] else IT(c["it"]))
            exc = None
        except Exception as e:  # noqa: BLE001
            exc = type(e).__name__
        act = P.observed_action(base.calls, exc)
        extra = []
        if exc is None and act in ("sample", "rsample", "sample-n-mean", "rsample-n-mean") and c["layers"] and c["layers"][0] != "indep":
            if act.split("-")[0] not in obj.outer_calls:
                extra.append(("wrap:method-not-called-on-the-outer-object", {"action": act, "outer_calls": obj.outer_calls}))
        return act, want, extra
    finally:
        for k, v in saved.items():
            if v is None:
                PR.DETERMINISTIC_REGISTER.pop(k, None)
            else:
                PR.DETERMINISTIC_REGISTER[k] = v


def stub_line(c):
    return sx([Sym("interact-w"), Sym(c["it"]), [layer_sx(l) for l in c["layers"]],
               [c["lkj"], c["has_det"], Sym("none") if c["reg"] is None else [Sym("some"), Sym(c["reg"])],
                Sym("none") if c["support_real"] is None else [Sym("some"), c["support_real"]],
                Sym(c["mode"]), Sym(c["median"]), Sym(c["mean"]), c["has_rsample"]]])


def nested(layers):
    return len(layers) >= 2 and layers[0] == "indep" and layers[1] == "indep"


def check_stubs(R, ok):
    rng = R.rng
    n = 3000 if R.quick else 40000
    cases = []
    # every layer stack x every interaction type x both spellings on the bases the seeded class of change needs
    # (registered MEAN / MODE / unregistered, no deterministic_sample), then random capability combinations
    for layers in LAYERS:
        for it in ITYPES:
            for via_default in (False, True):
                for reg in (None, "mean", "mode", "median"):
                    cases.append({"kind": "wrap", "sub": "stub", "layers": layers, "it": it, "via_default": via_default, "lkj": False,
                                  "has_det": False, "reg": reg, "support_real": False, "mode": "value", "median": "raise-attr",
                                  "mean": "value", "has_rsample": True})
    for _ in range(n):
        cases.append({"kind": "wrap", "sub": "stub", "layers": rng.choice(LAYERS), "it": rng.choice(ITYPES), "via_default": rng.random() < 0.4,
                      "lkj": rng.random() < 0.1, "has_det": rng.random() < 0.3, "reg": rng.choice([None, None] + ITYPES),
                      "support_real": rng.choice([None, True, False]), "mode": rng.choice(CAPS), "median": rng.choice(CAPS),
                      "mean": rng.choice(CAPS), "has_rsample": rng.random() < 0.5})
    lines, rows = [], []
    for c in cases:
        try:
            act, want, extra = run_stub_case(c)
        except Exception as e:  # noqa: BLE001
            R.broken.append("c14_wrap stub case crashed: %s %s" % (type(e).__name__, str(e)[:200]))
            return
        R.case("wrap-stub:" + json.dumps(c, sort_keys=True), nontrivial=True,
               sample=c if (c["layers"] == ["indep"] and c["it"] == "deterministic" and rng.random() < 0.02) else None)
        R.count("wrap-stub:layers=%s" % "+".join("I" if l == "indep" else "T" for l in c["layers"]) or "wrap-stub:plain")
        R.count("wrap-stub:" + c["it"] + ("/default" if c["via_default"] else ""))
        sig = {"check": "wrap-stub", "pattern": NESTED if nested(c["layers"]) else "none"}
        if act != want:
            R.oracle_fail("wrap:method-consulted", c, {"code": act, "contract for the unwrapped base": want}, sig)
        for (label, detail) in extra:
            R.oracle_fail(label, c, detail, {"check": "wrap-outer", "pattern": "none"})
        rows.append((c, act))
        lines.append(stub_line(c))
        R.traces += 1
    if not ok:
        return
    for (c, act), m in zip(rows, R.model(lines)):
        if m != act:
            R.mismatch("model-vs-code:_dist_sample-wrapped", c, act, m)


# ------------------------------------------------------------------ (B) real distributions
def families():
    D = P._imports()[0]
    g = torch.Generator().manual_seed(5)

    def r(*shape):
        return torch.rand(*shape, generator=g)
    return {
        "LogNormal": (D.LogNormal, {"loc": r(3, 4) - 0.5, "scale": r(3, 4) + 0.5}, "mean"),
        "Gamma": (D.Gamma, {"concentration": r(3, 4) + 2.0, "rate": r(3, 4) + 0.5}, "mean"),
        "Beta": (D.Beta, {"concentration1": r(3, 4) + 2.0, "concentration0": r(3, 4) + 3.0}, "mean"),
        "Poisson": (D.Poisson, {"rate": r(3, 4) * 5 + 0.7}, "mean"),
        "Normal": (D.Normal, {"loc": r(3, 4), "scale": r(3, 4) + 0.5}, "mean"),
        "Categorical": (D.Categorical, {"logits": r(3, 4, 5)}, "mode"),      # enumerable support: the table says mode
    }


def run_real_case(c):
    """-> list of (label, detail)"""
    D, TensorDict, PTM, PTS, TDM, TDS, IT, set_it, Comp, PR, set_agg = P._imports()
    cls, params, registered = families()[c["family"]]
    depth = c["depth"]

    def factory(**kw):
        d = cls(**kw)
        for _ in range(depth):
            d = D.Independent(d, 1)
        return d
    it = c["it"]
    stat = {"mode": "mode", "mean": "mean", "deterministic": registered}.get(it)
    fails = []
    default = it if c["via"] == "default" else ("mode" if it != "mode" else "mean")
    mod = PTM(in_keys=list(params), out_keys=["x"], distribution_class=factory, default_interaction_type=default)
    td = TensorDict(dict(params), batch_size=[3])
    with warnings.catch_warnings():
        warnings.simplefilter("ignore")
        dist = mod.get_dist(td)
        try:
            s = mod._dist_sample(dist, interaction_type=None if c["via"] == "default" else IT(it))
            exc = None
        except Exception as e:  # noqa: BLE001
            s, exc = None, type(e).__name__
        if it == "median":
            if exc != "NotImplementedError":
                fails.append(("real:median", {"exception": exc}))
            return fails
        if exc is not None:
            return [("real:raises", {"exception": exc})]
        if stat is not None:
            ref = getattr(dist, stat)
            if s.shape != ref.shape or not torch.allclose(s.to(ref.dtype), ref, atol=1e-6, rtol=0, equal_nan=True):
                other = "mode" if stat == "mean" else "mean"
                fails.append(("real:sample-is-not-dist." + stat, {"equals_dist_" + other: bool(s.shape == getattr(dist, other).shape and torch.allclose(
                    s.to(ref.dtype), getattr(dist, other), atol=1e-6, rtol=0, equal_nan=True))}))
        elif s.shape != dist.mean.shape:
            fails.append(("real:random-shape", {"shape": list(s.shape)}))
        # through forward (context manager or module default), against a distribution rebuilt from the same parameters
        try:
            if c["via"] == "ctx":
                with set_it(IT(it)):
                    out = mod(td.clone())
            else:
                out = mod(td.clone())
            if stat is not None:
                ref = getattr(mod.get_dist(td), stat)
                x = out.get("x")
                if x.shape != ref.shape or not torch.allclose(x.to(ref.dtype), ref, atol=1e-6, rtol=0, equal_nan=True):
                    fails.append(("real:forward-sample-is-not-dist." + stat, {}))
        except Exception as e:  # noqa: BLE001
            fails.append(("real:forward-raises", {"exception": type(e).__name__}))
    return fails


def check_real(R):
    for family in families():
        for depth in (0, 1, 2):
            for it in ITYPES:
                for via in ("ctx", "default"):
                    c = {"kind": "wrap", "sub": "real", "family": family, "depth": depth, "it": it, "via": via}
                    R.case("wrap-real:" + json.dumps(c, sort_keys=True), nontrivial=True, sample=c if (depth == 1 and it == "deterministic" and via == "ctx") else None)
                    R.count("wrap-real:depth=%d" % depth)
                    try:
                        fails = run_real_case(c)
                    except Exception as e:  # noqa: BLE001
                        R.broken.append("c14_wrap real case crashed: %s %s" % (type(e).__name__, str(e)[:200]))
                        return
                    for (label, detail) in fails:
                        R.oracle_fail(label, c, detail, {"check": "wrap-real", "pattern": NESTED if depth >= 2 else "none"})
                    R.traces += 1


def check(R, ok):
    check_stubs(R, ok)
    check_real(R)


def replay(case):
    D, TensorDict, PTM, PTS, TDM, TDS, IT, set_it, Comp, PR, set_agg = P._imports()
    print("wrapped-distribution case:", json.dumps(case))
    if case.get("sub") == "stub":
        act, want, extra = run_stub_case(case)
        print("implementation consulted:", act)
        print("documented table for the unwrapped base:", want)
        print("register entry of torch.distributions.Independent itself:", PR.DETERMINISTIC_REGISTER.get(D.Independent))
        for e in extra:
            print("  FAIL", e)
        from . import core
        okb, _ = core.build_driver("C14")
        if okb:
            print("model:", core.run_model("C14", [stub_line(case)])[0])
    else:
        fails = run_real_case(case)
        print("oracle on the implementation:", fails or "(no failure)")
    return 0
