"""C06: executing one history (JSON program) against the real code with both oracles and the event log used to attribute
failures to recorded defects.  Everything here is independent of the Coq model."""
import gc
import json

import torch
from tensordict import NonTensorData, TensorDict
from tensordict import utils as td_utils
from tensordict.base import _default_is_leaf

from .c06_world import (FRESH_RAISED, Ctx, Subject, cache_keys, canon, children, exc_enum, fronts_for, is_lazy, is_node, is_nt, is_prefix,
                        node_at, rebuild_unlocked, run_front, snapshot, walk_leaves, walk_nodes)

# which observed change makes which memoised method stale (over-approximation used ONLY to attribute an oracle failure to a
# recorded defect; a failure that no observed event explains is always reported)
DEP = {
    "_nested_keys": set(),  # a live view
    "sorted_keys": {"structure"},
    "_key_list": {"structure"},
    "_has_exclusive_keys": {"structure"},
    "_depth": {"structure"},
    "_values_list": {"structure", "rebind"},
    "_items_list": {"structure", "rebind"},
    "_dtype": {"structure", "rebind"},
    "bytes": {"structure", "rebind"},
    "param_count": {"structure", "rebind"},
    "flatten_keys": {"structure", "rebind", "meta"},
    "unflatten_keys": {"structure", "rebind", "meta"},
    "detach": {"structure", "rebind", "meta"},
    "_add_batch_dim": {"structure", "rebind", "meta", "flags"},
    "_remove_batch_dim": {"structure", "rebind", "meta"},
    "_maybe_remove_batch_dim": {"structure", "rebind", "meta"},
    "_get_str": {"structure", "rebind", "meta"},
    "names": {"meta"},
    "_is_shared": {"flags"},
    "_is_memmap": {"flags"},
    "_valid_keys": {"structure"},
}


# op kind -> the code site that fails to invalidate (one recorded finding each)
CAUSE = {"nt_setitem": "nontensor-promotion", "nt_set_at": "nontensor-promotion", "setitem_row": "nontensor-promotion",
         "nt_same": "nontensor-promotion",
         "make_memmap": "make_memmap", "make_memmap_from_tensor": "make_memmap",
         "memmap_under_lock": "memmap_-on-locked",
         "names": "metadata-under-lock", "rename_": "metadata-under-lock", "batch_size": "metadata-under-lock",
         "member_relock_edit": "lazy-implicit-lock-cycle", "lazy_materialised": "lazy-materialised",
         "mutate_result": "result-mutation", "isleaf_reuse": "address-reuse"}

UNLOCKING_OPS = {"relock", "relock_edit", "with_unlock", "member_relock_edit", "mm_sub_unlock_edit", "sub_unlock"}
# D7, D68 and D69 are repaired: an unlock_ of a nested node / member of a memmap_-locked tree is REFUSED like in a lock_-locked tree
# and leaves every flag as it was; nested tensordicts attached under lock by make_memmap*(nested key) are locked and registered.
# A stale read after a history in which such an unlock was accepted, a read that raises because _is_memmap was left split, a
# structural write accepted on an attached node: none of them has a recorded cause (they are reported).

MATERIALISING = {"flatten_keys", "unflatten_keys", "detach", "_add_batch_dim", "_remove_batch_dim", "_maybe_remove_batch_dim",
                 "_items_list", "_values_list"}


class Hook:
    """registered once per process with tensordict.utils._verif_register_cache_checker"""

    def __init__(self):
        self.on = False
        self.busy = False
        self.log = []     # (method, id(self), ok, detail)
        self.hits = 0
        self.errors = []

    def __call__(self, name, self_, args, kwargs, cached, fresh):
        if not self.on or self.busy:
            return
        self.busy = True
        try:
            self.hits += 1
            ctx = Ctx(self_)
            c, f = canon(cached, ctx), canon(fresh, ctx)
            ok = c == f   # the canonical form carries, per returned leaf, which currently bound entry it IS / shares storage with
            self.log.append((name, id(self_), ok, None if ok else {"cached": c, "fresh": f, "args": _arg_repr(args, kwargs)}))
        except Exception as e:  # noqa: BLE001
            self.errors.append(f"{name}: {type(e).__name__}: {e}")
        finally:
            self.busy = False


def _arg_repr(args, kwargs):
    try:
        return repr(td_utils._make_cache_key(args, kwargs))[:200]
    except Exception:  # noqa: BLE001
        return "?"


HOOK = Hook()
_registered = False


def ensure_hook():
    global _registered
    if not _registered:
        td_utils._verif_register_cache_checker(HOOK)
        _registered = True
    return td_utils._VERIF_CACHE_CHECKER is HOOK


# ------------------------------------------------------------------------------------------------- op helpers
IDX = [0, -1, [0, 1, None], [None, 1, None], [1, None, None]]   # ints and slices (a list stands for slice(*l))


def mk_idx(i):
    x = IDX[i % len(IDX)]
    return slice(*x) if isinstance(x, list) else x


def api_key(p):
    p = tuple(k for k in p if not k.startswith("#"))
    return p[0] if len(p) == 1 else p


def tensor_keys(n):
    seen = []
    for p, v in walk_leaves(n):
        if isinstance(v, torch.Tensor):
            k = api_key(p)
            if k not in seen:
                seen.append(k)
    return sorted(seen, key=str)


def nt_keys(n):
    seen = []
    for p, v in walk_leaves(n):
        if is_nt(v) and not any(k.startswith("#") for k in p):
            k = api_key(p)
            if k not in seen:
                seen.append(k)
    return sorted(seen, key=str)


def pick(lst, i):
    return lst[i % len(lst)] if lst else None


CLEAN_OPS = ["set_", "set_inplace", "tensor_", "set_at_", "setitem_idx", "update_", "zero_", "add_", "neg_", "mul_", "apply_", "fill_",
             "struct_fail", "relock", "relock_edit", "with_unlock", "sub_unlock", "read_some", "gc", "setitem_row"]
REBIND_OPS = ["nt_set_at", "nt_setitem", "make_memmap", "make_memmap_from_tensor", "memmap_under_lock", "mm_sub_unlock_edit",
              "names", "rename_", "batch_size", "member_relock_edit", "mutate_result", "isleaf_reuse", "nt_same"]


class Runner:
    def __init__(self, prog, collect_model_log=False):
        self.prog = prog
        self.S = Subject(prog["spec"])
        self.td = self.S.td
        self.events = {}      # node path -> [event]
        self.fail = []        # (label, step, detail, signature)
        self.steps = []       # per step: outcome
        self.nreads = 0
        self.observed_event_kinds = set()
        self.mask = prog.get("fronts")   # None = all
        self.model_log = [] if collect_model_log else None
        self.counter = 0

    # ---------------------------------------------------------------- attribution
    def note_events(self, before, after, opkind, raised=False):
        bn, an = before["nodes"], after["nodes"]
        # 1. caches that were erased / replaced during the op forget their events
        for p, a in an.items():
            b = bn.get(p)
            if b is None or b["id"] != a["id"] or (b["cache_id"] is not None and a["cache_id"] != b["cache_id"]):
                self.events[p] = []
        evs = []
        for p in set(bn) | set(an):
            b, a = bn.get(p), an.get(p)
            if b is None or a is None or b["id"] != a["id"]:
                evs.append(("structure", p))
                continue
            if b["keys"] != a["keys"]:
                evs.append(("structure", p))
            if (b["bs"], b["names"], b["dev"]) != (a["bs"], a["names"], a["dev"]):
                evs.append(("meta", p))
            if b["flags"] != a["flags"]:
                evs.append(("flags", p))
        bl, al = before["leaves"], after["leaves"]
        for p in set(bl) | set(al):
            b, a = bl.get(p), al.get(p)
            if b is None or a is None:
                evs.append(("structure", p))
            elif b["id"] != a["id"] or b["type"] != a["type"] or b["ptr"] != a["ptr"] or b["nt"] != a["nt"]:
                evs.append(("rebind", p))
            elif b["val"] != a["val"]:
                evs.append(("content", p))
            if b is not None and a is not None and b.get("ntmeta") != a.get("ntmeta"):
                evs.append(("meta", p))
        for (eff, p) in evs:
            self.observed_event_kinds.add(eff)
            for q in an:
                # the change lies in the subtree of node q, and q's cache survived the op
                if is_prefix(q, p) and bn.get(q) is not None and bn[q]["id"] == an[q]["id"] and an[q]["locked"] \
                        and bn[q]["cache_id"] is not None and an[q]["cache_id"] == bn[q]["cache_id"]:
                    self.events.setdefault(q, []).append({"effect": eff, "at": p, "op": opkind, "target": getattr(self, "last_target", None),
                                                          "raised": raised})
        return evs

    def explain(self, nodepath, methods):
        for e in self.events.get(nodepath, []):
            for m in methods:
                if e["effect"] == "poison":
                    if e["method"] == m:
                        return e
                elif e["effect"] == "addr":
                    if e["method"] == m:
                        return e
                elif e["effect"] == "content":
                    # an in-place value write is visible through every memoised result EXCEPT those that hold a stacked copy
                    # of a lazy stack's entry: the written leaf lies below a lazy stack inside the reading node's subtree
                    rel = e["at"][len(nodepath):]
                    if m in MATERIALISING and "#" in rel:
                        return dict(e, op="lazy_materialised")
                elif e["effect"] in DEP.get(m, {"structure", "rebind", "meta", "flags"}):
                    return e
        return None

    def report(self, label, step, nodepath, methods, detail):
        methods = list(methods)
        try:
            if is_lazy(node_at(self.td, tuple(k for k in nodepath.split("/") if k))):
                # nearly every read of a lazy stack goes through its memoised key list / entry access
                methods += [m for m in ("_key_list", "_get_str", "_has_exclusive_keys") if m not in methods]
        except Exception:  # noqa: BLE001
            pass
        e = self.explain(nodepath, methods)
        if e is None:
            # the read traverses the subtree and uses the descendants' own caches
            for q, m in walk_nodes(self.td):
                qs = "/".join(q)
                if qs != nodepath and is_prefix(nodepath, qs):
                    ms = methods + (["_key_list", "_get_str", "_has_exclusive_keys", "names"] if is_lazy(m) else [])
                    e = self.explain(qs, ms)
                    if e is not None:
                        break
        if e is not None:
            cause = CAUSE.get(e["op"], e["op"])
            if e["effect"] == "meta" and e["op"] not in UNLOCKING_OPS and e["op"] not in CAUSE:
                # whichever call got there (names=, rename_, batch_size=, apply_ re-assigning nested nodes, a rename_ that failed half
                # way): it is the names / batch-size setters that run under lock without invalidating
                cause = "metadata-under-lock"
            if cause == "metadata-under-lock" and "_key_list" in methods and e.get("target") == nodepath and e["op"] in ("names", "rename_"):
                cause = "lazy-own-names-setter"     # the lazy stack's own setter carries @erase_cache: not a recorded defect
            elif cause == "metadata-under-lock" and "names" in methods and e["at"] != nodepath:
                cause = "lazy-member-names"
            sig = {"cause": cause, "effect": e["effect"], "explained": True}
        else:
            sig = {"cause": "none", "explained": False, "methods": ",".join(methods), "label": label}
        self.fail.append((label, step, dict(detail, node=nodepath, methods=methods), sig))

    # ---------------------------------------------------------------- oracles
    def compare_all(self, step):
        """twin oracle: every read front on every node of the locked subject vs the unlocked twin with identical content"""
        nodes = walk_nodes(self.td)
        for p, n in nodes:
            ps = "/".join(p)
            try:
                locked = bool(n.is_locked)
            except Exception:  # noqa: BLE001
                locked = False
            try:
                tw = rebuild_unlocked(n)
            except Exception as e:  # noqa: BLE001
                self.fail.append(("machinery:twin", step, {"err": repr(e)}, {"cause": "machinery"}))
                continue
            cs, ct = Ctx(n), Ctx(tw)
            for name, meths, f in fronts_for(n):
                if self.mask is not None and name not in self.mask:
                    continue
                if name == "flatten_keys(nt)" and type(n).__name__ == "TensorDictParams":
                    continue   # TensorDictParams.flatten_keys has no is_leaf parameter: an API difference, not a memoisation matter
                del FRESH_RAISED[:]
                a = run_front(f, n, cs)
                if FRESH_RAISED:
                    self.report("hook:fresh-recomputation-raises:" + name, step, ps, meths + ["_add_batch_dim"],
                                {"cached": "returns", "fresh": "raises " + FRESH_RAISED[0]})
                    del FRESH_RAISED[:]
                b = run_front(f, tw, ct)
                self.nreads += 1
                if a != b:
                    self.report("twin:" + name, step, ps, meths, {"locked_subject": a, "unlocked_twin": b, "subject_is_locked": locked})

    def drain_hook(self, step, idmap):
        for (name, sid, ok, detail) in HOOK.log:
            if not ok:
                ps = idmap.get(sid)
                if ps is None:
                    self.fail.append(("hook:" + name, step, dict(detail, node="(result object)"), {"cause": "none", "explained": False,
                                                                                                   "methods": name, "label": "hook-foreign"}))
                else:
                    self.report("hook:" + name, step, ps, [name], detail)
        HOOK.log.clear()
        for e in HOOK.errors:
            self.fail.append(("machinery:hook", step, {"err": e}, {"cause": "machinery"}))
        HOOK.errors.clear()

    # ---------------------------------------------------------------- ops
    def apply(self, op, step):
        k = op["op"]
        td = self.td
        nodes = walk_nodes(td)
        p, n = nodes[op.get("node", 0) % len(nodes)]
        v = op.get("v", 1)
        self.counter += 1
        self.last_target = "/".join(p)
        if k in ("set_", "set_inplace", "tensor_", "set_at_", "fill_", "update_"):
            key = pick(tensor_keys(n), op.get("leaf", 0))
            if key is None:
                return "skip"
            cur = n.get(key)
            val = torch.full_like(cur, v)
            if k == "set_":
                n.set_(key, val)
            elif k == "set_inplace":
                n.set(key, val, inplace=True)
            elif k == "tensor_":
                cur.add_(v)
            elif k == "fill_":
                n.fill_(key, v)
            elif k == "update_":
                n.update_({key: val}) if isinstance(key, str) else n.update_(TensorDict({key: val}, n.batch_size))
            else:
                if n.batch_dims == 0:
                    return "skip"
                idx = mk_idx(op.get("idx", 0))
                n.set_at_(key, torch.full_like(cur[idx], v), idx)
        elif k == "setitem_idx":
            if n.batch_dims == 0 or nt_keys(n) or any(is_nt(x) for _, x in walk_leaves(n)):
                return "skip"
            n[mk_idx(op.get("idx", 0))] = v
        elif k == "setitem_row":
            # copy one row onto another: tensors in place, non-tensor entries through _set_at_str
            if n.batch_dims == 0 or n.batch_size[0] < 2:
                return "skip"
            n[0] = n[n.batch_size[0] - 1].clone()
        elif k in ("zero_", "add_", "neg_", "mul_", "apply_"):
            before = {"/".join(q): x.clone() for q, x in walk_leaves(n) if isinstance(x, torch.Tensor)}
            if k == "zero_":
                n.zero_()
                exp = {q: torch.zeros_like(x) for q, x in before.items()}
            elif k == "add_":
                n.add_(v)
                exp = {q: x + v for q, x in before.items()}
            elif k == "neg_":
                n.neg_()
                exp = {q: -x for q, x in before.items()}
            elif k == "mul_":
                n.mul_(2)
                exp = {q: x * 2 for q, x in before.items()}
            else:
                n.apply_(lambda x: x + v)
                exp = {q: x + v for q, x in before.items()}
            # write fronts of _values_list: the write must land in the entries bound NOW
            now = {"/".join(q): x for q, x in walk_leaves(n) if isinstance(x, torch.Tensor)}
            bad = [q for q in exp if q in now and not torch.equal(now[q], exp[q])]
            if bad:
                self.report("write-front:" + k, step, "/".join(p), ["_values_list", "_items_list"],
                            {"lost_write_at": bad[:4], "have": now[bad[0]].reshape(-1).tolist()[:8], "want": exp[bad[0]].reshape(-1).tolist()[:8]})
        elif k == "struct_fail":
            which = op.get("which", 0) % 4
            keys = [kk for kk, _ in children(n)]
            if is_lazy(n):
                return "skip"
            if which == 0:
                n.set(f"zz{self.counter}", torch.zeros(n.batch_size))
            elif which == 1 and keys:
                n.del_(keys[0])
            elif which == 2 and keys:
                n.rename_key_(keys[0], f"zr{self.counter}")
            elif keys:
                n.pop(keys[0])
        elif k == "relock":
            td.unlock_()
            td.lock_()
        elif k == "relock_edit":
            td.unlock_()
            try:
                self.edit(nodes, op)
            finally:
                td.lock_()
        elif k == "with_unlock":
            with td.unlock_():
                self.edit(nodes, op)
        elif k == "sub_unlock":
            if len(nodes) < 2:
                return "skip"
            q, m = nodes[1 + op.get("node", 0) % (len(nodes) - 1)]
            m.unlock_()   # raises inside a lock_ graph
            m.lock_()
        elif k == "mm_sub_unlock_edit":
            if len(nodes) < 2:
                return "skip"
            q, m = nodes[1 + op.get("node", 0) % (len(nodes) - 1)]
            if is_lazy(m):
                return "skip"
            m.unlock_()
            try:
                m.set(f"u{self.counter}", torch.full(m.batch_size, v, dtype=torch.int64))
            finally:
                m.lock_()
        elif k == "member_relock_edit":
            # lazy stack whose members were locked one by one: cycle every member, add an entry meanwhile
            lz = [(q, m) for q, m in nodes if is_lazy(m)]
            if not lz:
                return "skip"
            q, m = lz[op.get("node", 0) % len(lz)]
            for mem in m.tensordicts:
                mem.unlock_()
            try:
                for mem in m.tensordicts:
                    mem.set(f"u{self.counter}", torch.full(mem.batch_size, v, dtype=torch.int64))
            finally:
                for mem in m.tensordicts:
                    mem.lock_()
        elif k in ("nt_set_at", "nt_setitem", "nt_same"):
            key = pick(nt_keys(n), op.get("leaf", 0))
            if key is None or n.batch_dims == 0 or is_lazy(n):
                return "skip"
            idx = mk_idx(op.get("idx", 0))
            if k == "nt_same":
                cur = n.get(key)
                data = cur.tolist()
                first = data[0] if isinstance(data, list) else data
                n.set_at_(key, NonTensorData(first), 0)
            elif k == "nt_set_at":
                n.set_at_(key, NonTensorData(f"s{v}"), idx if isinstance(idx, int) else 0)
            else:
                n[idx if isinstance(idx, int) else 0] = TensorDict({key: NonTensorData(f"s{v}")}, [])
        elif k in ("make_memmap", "make_memmap_from_tensor"):
            if is_lazy(n):
                return "skip"
            newkey = f"mm{self.counter}" if op.get("which", 0) % 2 == 0 else (f"mn{self.counter}", "x")
            if k == "make_memmap":
                t = n.make_memmap(newkey, shape=torch.Size(list(n.batch_size) + [2]), dtype=torch.int64)
                t.fill_(v)
            else:
                n.make_memmap_from_tensor(newkey, torch.full(list(n.batch_size), v, dtype=torch.int64))
        elif k == "memmap_under_lock":
            td.memmap_()
        elif k in ("names", "rename_"):
            if n.batch_dims == 0:
                return "skip"
            names = [f"d{self.counter}_{i}" for i in range(n.batch_dims)]
            if k == "names":
                n.names = names if op.get("which", 0) % 3 else None
            else:
                n.rename_(*names)
        elif k == "batch_size":
            if n.batch_dims == 0 or is_lazy(n) or any(x.startswith("#") for x in p):
                return "skip"   # members with unequal batch sizes are C08's subject
            n.batch_size = list(n.batch_size)[:-1]
        elif k == "read_some":
            ctx = Ctx(n)
            fr = fronts_for(n)
            for i in op.get("which_fronts", []):
                name, meths, f = fr[i % len(fr)]
                run_front(f, n, ctx)
        elif k == "gc":
            gc.collect()
        elif k == "mutate_result":
            which = op.get("which", 0) % 2
            if is_lazy(n):
                return "skip"
            if which == 0:
                r = n.sorted_keys
                r.append("~poison")
                meth = "sorted_keys"
            else:
                r = n.flatten_keys()
                r.set("~poison", torch.zeros(r.batch_size))
                meth = "flatten_keys"
            if n.is_locked:
                self.events.setdefault("/".join(p), []).append({"effect": "poison", "method": meth, "op": "mutate_result", "at": "/".join(p)})
        elif k == "isleaf_reuse":
            return self.isleaf_reuse(p, n, step)
        else:
            raise ValueError("unknown op " + k)
        return "ok"

    def edit(self, nodes, op):
        """a structural edit while unlocked"""
        which = op.get("edit", 0) % 4
        q, m = nodes[op.get("enode", 0) % len(nodes)]
        if is_lazy(m):
            q, m = nodes[0]
            if is_lazy(m):
                for mem in m.tensordicts:
                    mem.set(f"w{self.counter}", torch.zeros(mem.batch_size, dtype=torch.int64))
                return
        keys = [kk for kk, x in children(m)]
        if which == 0 or not keys:
            m.set(f"w{self.counter}", torch.full(m.batch_size, 3, dtype=torch.int64))
        elif which == 1:
            m.del_(keys[-1])
        elif which == 2:
            x = m.get(keys[0])
            if isinstance(x, torch.Tensor):
                m.set(keys[0], x.clone() + 1)   # rebinding while unlocked
            else:
                m.set(f"w{self.counter}", torch.zeros(m.batch_size))
        else:
            m.set((f"wn{self.counter}", "deep"), torch.ones(m.batch_size, dtype=torch.int64))

    def isleaf_reuse(self, p, n, step):
        """distinct is_leaf objects at one address: create and drop lambdas until id() repeats (CPython decides).
        (a) _values_list(collapse=True, is_leaf=f): the memoised list does not retain f;
        (b) flatten_keys(is_leaf=f) / keys(is_leaf=f): the memoised result retains f (_last_op / the view), so the address
            cannot be taken by another object while the entry lives — checked, not assumed."""
        if is_lazy(n) or not n.is_locked:
            return "skip"

        def mk(sem):
            if sem == 0:
                return lambda cls: _default_is_leaf(cls)
            return lambda cls: not issubclass(cls, TensorDict)   # non-tensor entries are leaves too
        ps = "/".join(p)
        tw = rebuild_unlocked(n)
        out = "no-reuse"
        for label, meth, call in (
                ("_values_list(T,T,collapse=True,is_leaf=<new object at a reused address>)", "_values_list",
                 lambda t, f: t._values_list(True, True, collapse=True, is_leaf=f)),
                ("flatten_keys(is_leaf=<new object>)", "flatten_keys", lambda t, f: t.flatten_keys(is_leaf=f)),
                ("keys(T,T,is_leaf=<new object>)", "_nested_keys", lambda t, f: list(t.keys(True, True, is_leaf=f)))):
            f0 = mk(0)
            addr = id(f0)
            try:
                call(n, f0)
            except Exception:  # noqa: BLE001
                continue
            del f0
            f1 = None
            for _ in range(64):
                f1 = mk(1)
                if id(f1) == addr:
                    break
                f1 = None
            if f1 is None:
                continue
            out = "reused"
            a = run_front(lambda t: call(t, f1), n, Ctx(n))
            b = run_front(lambda t: call(t, f1), tw, Ctx(tw))
            self.nreads += 1
            if a != b:
                if meth == "_values_list":
                    self.events.setdefault(ps, []).append({"effect": "addr", "method": meth, "op": "isleaf_reuse", "at": ps})
                self.report("twin:" + label, step, ps, [meth], {"locked_subject": a, "unlocked_twin": b})
        return out

    # ---------------------------------------------------------------- driver
    def run(self):
        ensure_hook()
        HOOK.log.clear()
        HOOK.errors.clear()
        HOOK.on = True
        try:
            self.step_observe(0)
            for i, op in enumerate(self.prog["ops"], 1):
                before = snapshot(self.td)
                try:
                    out = self.apply(op, i)
                except Exception as e:  # noqa: BLE001
                    out = "raise:" + exc_enum(e)
                after = snapshot(self.td)
                evs = self.note_events(before, after, op["op"], raised=out.startswith("raise"))
                # a raising call that changed something is C05's business; the events are still recorded (with the fact that it raised)
                self.steps.append({"op": op["op"], "out": out, "events": sorted({e for e, _ in evs})})
                want = (self.prog.get("expect") or {}).get(str(i))
                if want is not None and out != want:
                    # a preset history states what the lock layer must answer (the soundness theorem relies on it: Good.g_pc)
                    self.fail.append(("expect:" + op["op"], i, {"outcome": out, "expected": want, "node": "", "methods": []},
                                      {"cause": "none", "explained": False, "label": "preset-outcome", "op": op["op"], "outcome": out}))
                self.step_observe(i)
        finally:
            HOOK.on = False
            self.S.close()
        return self

    def step_observe(self, i):
        idmap = {id(n): "/".join(p) for p, n in walk_nodes(self.td)}
        def reg(v, owner, depth=0):
            # non-tensor entries are tensor collections with caches of their own: a NonTensorData wraps a TensorDict, a
            # NonTensorStack is a lazy stack of NonTensorData — their hits are attributed to the node that owns the entry
            if isinstance(v, torch.Tensor) or depth > 4:
                return
            idmap.setdefault(id(v), owner)
            inner = getattr(v, "_tensordict", None)
            if inner is not None:
                idmap.setdefault(id(inner), owner)
            for m in getattr(v, "tensordicts", None) or []:
                reg(m, owner, depth + 1)
        for p, v in walk_leaves(self.td):
            reg(v, "/".join(p[:-1]))
        self.drain_hook(i, idmap)   # hits during the op itself
        self.compare_all(i)
        self.drain_hook(i, idmap)


def run_program(prog):
    return Runner(prog).run()


def dumps(x):
    return json.dumps(x, default=str)
