"""C12 helpers shared by the check process and by the real-multiprocessing runner.

* module-level (picklable) chunk functions used with TensorDict.map / map_iter,
* construction of the subject tensordicts from a JSON case, canonical observation,
* `run_map_case(case, pool=None)`: runs the REAL map / map_iter on one case and returns the observation,
* an in-process pool (`InProcPool`) that can be handed to map(pool=...): `imap` = results in submission order
  (the behaviour of multiprocessing.Pool.imap that C12 trusts), `imap_unordered` = a chosen permutation,
* `python -m harness.c12_mp IN OUT`: runs the cases of IN with real process pools (fork / spawn) and writes the
  observations to OUT.  It is always started as a subprocess in its own session so that a hard timeout can kill the
  whole process group and no worker is ever left behind; with `spawn` the children re-import THIS module as
  __mp_main__ (never harness.main).
"""
import functools
import json
import os
import shutil
import signal
import sys
import tempfile
import time

if __name__ == "__main__" or __name__ == "__mp_main__":
    # the native helper must be the one rebuilt from the checked source, in the runner and in spawned workers
    sys.path.insert(0, os.path.dirname(os.path.dirname(os.path.abspath(__file__))))
    from harness import cext as _cext
    if "tensordict" not in sys.modules:
        _cext.install()

import torch  # noqa: E402
from tensordict import TensorDict  # noqa: E402


# scratch directories (always tempfile.mkdtemp, removed per case): on tmpfs when there is one, so that the memory-mapped
# cases do not depend on how busy the disk is
SCRATCH = "/dev/shm" if os.path.isdir("/dev/shm") and os.access("/dev/shm", os.W_OK) else None


# ------------------------------------------------------------------ subjects
def numel(bs):
    n = 1
    for b in bs:
        n *= b
    return n


def make_leaves(bs):
    n = numel(bs)
    x = torch.arange(n, dtype=torch.int64).reshape(list(bs))
    w = (torch.arange(n * 2, dtype=torch.int64) + 10000).reshape(list(bs) + [2])
    return x, w


def td_from(x, w, bs):
    return TensorDict({"x": x, "n": TensorDict({"w": w}, batch_size=list(bs))}, batch_size=list(bs))


def make_input(case, tmp=None):
    bs = case["bs"]
    x, w = make_leaves(bs)
    if case.get("lazy"):
        # the same content as a lazy stack along dim 0
        from tensordict import LazyStackedTensorDict
        td = LazyStackedTensorDict(*[td_from(x[i].clone(), w[i].clone(), bs[1:]) for i in range(bs[0])], stack_dim=0)
        return td
    td = td_from(x, w, bs)
    kind = case.get("inp", "regular")
    if kind == "shared":
        td.share_memory_()
    elif kind == "memmap":
        td.memmap_(os.path.join(tmp, "inp"))
    return td


def make_out(case, tmp=None):
    bs = case["bs"]
    n = numel(bs)
    y = -torch.ones(n, dtype=torch.int64).reshape(list(bs))
    z = -torch.ones(n * 2, dtype=torch.int64).reshape(list(bs) + [2])
    out = TensorDict({"y": y, "n": TensorDict({"z": z}, batch_size=list(bs))}, batch_size=list(bs))
    kind = case.get("out", "none")
    if kind == "none":
        return None
    if kind == "shared":
        out.share_memory_()
    elif kind == "memmap":
        out.memmap_(os.path.join(tmp, "out"))
    return out


def obs_td(td):
    if td is None:
        return None
    o = {"bs": list(td.batch_size), "leaves": {}}
    for k, v in td.items(True, True):
        ks = "/".join(k) if isinstance(k, tuple) else k
        o["leaves"][ks] = [list(v.shape), v.reshape(-1).tolist()]
    o["leaves"] = dict(sorted(o["leaves"].items()))
    return o


# ------------------------------------------------------------------ the functions mapped over chunks
def is_none_chunk(r0, salt):
    """deterministic pseudo-random predicate on the id of a chunk's first element (about 40% None)"""
    return ((((r0 + 1) * 2654435761 + salt * 40503) & 0xFFFFFFFF) >> 7) % 5 < 2


def chunk_fn(td, spec):
    """spec: kind, salt, delay, total (numel of the whole x), unbound (chunksize == 0), d (normalised dim)"""
    x = td.get("x")
    r0 = int(x.min()) if x.numel() else -1
    delay = spec.get("delay", "none")
    if delay == "reverse":
        time.sleep(0.002 * max(0, spec["total"] - r0) / max(1, spec["total"]) * 12)
    elif delay == "random":
        time.sleep(((r0 * 2654435761 + spec["salt"] * 40503) % 11) * 0.002)
    kind = spec["kind"]
    none_here = is_none_chunk(r0, spec["salt"])
    if kind == "none_inplace" or (kind == "mixed_inplace" and none_here):
        x.mul_(-1).sub_(3)
        td.get(("n", "w")).add_(7)
        return None
    if kind == "mixed" and none_here:
        return None
    w = td.get(("n", "w"))
    if kind == "chunk":
        size = 0 if spec["unbound"] else td.batch_size[spec["d"]]
        y = x * 1000 + size * 10 + (r0 % 7)
    else:
        y = x * 2 + 1
    return TensorDict({"y": y, "n": TensorDict({"z": w + 5}, batch_size=td.batch_size)}, batch_size=td.batch_size)


def make_fn(case):
    bs = case["bs"]
    d = case["dim"] % len(bs)
    spec = {"kind": case["fn"], "salt": case.get("salt", 0), "delay": case.get("delay", "none"), "total": numel(bs),
            "unbound": case.get("chunksize") == 0, "d": d}
    return functools.partial(chunk_fn, spec=spec)


# ------------------------------------------------------------------ in-process pool
class InProcPool:
    """stands for multiprocessing.Pool in map(pool=...): imap yields results in submission order (trusted behaviour of
    Pool.imap); imap_unordered yields them in the permutation `order` (list of positions, padded with the rest)."""

    def __init__(self, processes, order=None, record=None):
        self._processes = processes
        self.order = order
        self.record = record

    def _call(self, fn, item):
        if self.record is not None:
            self.record(item)
        return fn(item)

    def imap(self, fn, iterable, chunksize=1):
        return (self._call(fn, it) for it in iterable)

    def imap_unordered(self, fn, iterable, chunksize=1):
        res = [self._call(fn, it) for it in iterable]
        # without an explicit order: completion in REVERSE submission order
        order = [i for i in (self.order if self.order is not None else range(len(res) - 1, -1, -1)) if i < len(res)]
        order += [i for i in range(len(res)) if i not in order]
        return iter([res[i] for i in order])


# ------------------------------------------------------------------ running the real code on a case
def exc_enum(e):
    n = type(e).__name__
    return n


def run_map_case(case, pool=None, record=None):
    """returns a JSON-able observation of the real map / map_iter on [case]"""
    tmp = tempfile.mkdtemp(prefix="c12-", dir=SCRATCH) if "memmap" in (case.get("inp"), case.get("out")) else None
    try:
        td = make_input(case, tmp)
        out = make_out(case, tmp)
        fn = make_fn(case)
        kw = {"dim": case["dim"], "chunksize": case.get("chunksize"), "num_chunks": case.get("num_chunks"),
              "index_with_generator": case.get("gen", False)}
        if pool is None and case["start"] == "inproc":
            pool = InProcPool(case["workers"], order=case.get("order"), record=record)
        if pool is not None:
            kw["pool"] = pool
        else:
            kw["num_workers"] = case["workers"]
            kw["mp_start_method"] = case["start"]
        obs = {}
        try:
            if case.get("iter"):
                if case.get("shuffle"):
                    kw["shuffle"] = True
                items = list(td.map_iter(fn, **kw))
                obs["items"] = [obs_td(i) for i in items]
            else:
                r = td.map(fn, out=out, **kw) if out is not None else td.map(fn, **kw)
                obs["ret"] = "out" if (r is out and out is not None) else ("none" if r is None else obs_td(r))
            obs["status"] = "ok"
        except Exception as e:  # noqa: BLE001 -- the exception class is the observation
            obs["status"] = "raise"
            obs["exc"] = exc_enum(e)
        obs["out"] = obs_td(out)
        try:
            obs["inp"] = obs_td(td)
        except Exception as e:  # noqa: BLE001
            obs["inp"] = "raise " + exc_enum(e)
        return obs
    finally:
        if tmp is not None:
            shutil.rmtree(tmp, ignore_errors=True)


class _Timeout(Exception):
    pass


def _alarm(signum, frame):
    raise _Timeout()


def _kill_children():
    import multiprocessing as mp
    left = mp.active_children()
    for p in left:
        try:
            p.terminate()
        except Exception:  # noqa: BLE001
            pass
    for p in left:
        try:
            p.join(2)
            if p.is_alive():
                p.kill()
        except Exception:  # noqa: BLE001
            pass
    return len(left)


def main_runner(inp, outp):
    torch.set_num_threads(1)
    cases = json.load(open(inp))
    res = []
    signal.signal(signal.SIGALRM, _alarm)
    for case in cases:
        t0 = time.time()
        signal.alarm(int(case.get("timeout", 40)))
        try:
            o = run_map_case(case)
        except _Timeout:
            o = {"status": "timeout"}
        except Exception as e:  # noqa: BLE001
            o = {"status": "harness-error", "exc": repr(e)}
        finally:
            signal.alarm(0)
        o["left_children"] = _kill_children()
        o["wall"] = round(time.time() - t0, 3)
        res.append(o)
        json.dump(res, open(outp + ".tmp", "w"))
        os.replace(outp + ".tmp", outp)
    return 0


if __name__ == "__main__":
    sys.exit(main_runner(sys.argv[1], sys.argv[2]))
