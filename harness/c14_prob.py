"""C14 — probabilistic modules with a recording stub distribution (filled in below)."""


def check(R, ok):
    return


def replay(case):
    return 0
