"""C14 — probabilistic modules, driven with recording stub distributions.

(A) `_dist_sample` over the whole finite grid InteractionType x what the distribution object can answer: the code's
    decision is compared with the documented contract (spec oracle, written here independently) and with the extracted
    model (coq/Model/C14_Interact.v).
(B) key / parameter plumbing of ProbabilisticTensorDictModule.forward, ProbabilisticTensorDictSequential
    (forward, get_dist, log_prob) and CompositeDistribution for every InteractionType (module default and
    set_interaction_type context), return_log_prob, num_samples, log_prob_key, dict in_keys, tensordict_out:
    which method was consulted, with which parameter objects and which sample shape; where the sample and the
    log-probability are written; everything else untouched.
Real distributions' numerics are out of scope: every value here is a small integer chosen by the stub.
"""
import itertools
import json
import warnings

import torch

from .core import Sym, sx

ITYPES = ["mode", "median", "mean", "random", "deterministic"]
CAPS = ["value", "raise-attr", "raise-notimpl"]
N_EMP = 7     # n_empirical_estimate used by the stubs' modules


def _imports():
    import torch.distributions as D
    from tensordict import TensorDict
    from tensordict.nn import (ProbabilisticTensorDictModule, ProbabilisticTensorDictSequential, TensorDictModule,
                               TensorDictSequential, InteractionType, set_interaction_type, CompositeDistribution)
    import tensordict.nn.probabilistic as PR
    from tensordict.nn import set_composite_lp_aggregate
    return D, TensorDict, ProbabilisticTensorDictModule, ProbabilisticTensorDictSequential, TensorDictModule, \
        TensorDictSequential, InteractionType, set_interaction_type, CompositeDistribution, PR, set_composite_lp_aggregate


# ------------------------------------------------------------------ (A) the decision table
def stub_class(lkj, has_det, support, mode, median, mean, has_rsample):
    D = _imports()[0]
    base = D.LKJCholesky if lkj else D.Distribution

    def attr(name, cap):
        def get(self):
            self.calls.append(name)
            if cap == "raise-attr":
                raise AttributeError(name)
            if cap == "raise-notimpl":
                raise NotImplementedError(name)
            return torch.zeros(())
        return property(get)

    ns = {"arg_constraints": {}, "has_rsample": has_rsample}

    def __init__(self):
        self.calls = []
    ns["__init__"] = __init__
    ns["mode"] = attr("mode", mode)
    ns["median"] = attr("median", median)
    ns["mean"] = attr("mean", mean)
    if has_det:
        ns["deterministic_sample"] = attr("deterministic_sample", "value")

    def support_get(self):
        if support is None:
            raise NotImplementedError
        return D.constraints.real if support else D.constraints.positive
    ns["support"] = property(support_get)

    def sample(self, shape=torch.Size()):
        self.calls.append(("sample", tuple(shape)))
        return torch.zeros(tuple(shape) + (1,))

    def rsample(self, shape=torch.Size()):
        self.calls.append(("rsample", tuple(shape)))
        return torch.zeros(tuple(shape) + (1,))
    ns["sample"] = sample
    ns["rsample"] = rsample
    return type("Stub", (base,), ns)


def observed_action(calls, exc):
    if exc is not None:
        return {"NotImplementedError": "raise-notimpl", "RuntimeError": "raise-runtime"}.get(exc, "raise-other:" + exc)
    last = calls[-1] if calls else None
    if isinstance(last, tuple):
        kind, shape = last
        if shape == (N_EMP,):
            return kind + "-n-mean"
        if shape == ():
            return kind
        return kind + str(shape)
    return last


def spec_action(it, lkj, has_det, reg, support, mode, median, mean, has_rsample):
    """the documented contract of InteractionType (probabilistic.py:55-73), written independently of the code"""
    if lkj and it in ("deterministic", "mean", "mode"):
        return "raise-runtime"
    if it == "deterministic":
        if has_det:
            return "deterministic_sample"
        it = reg if reg is not None else ("mode" if support is False else "mean")
        if it == "deterministic":
            return "raise-notimpl"
    if it == "mode":
        return "mode" if mode == "value" else "raise-notimpl"
    if it == "median":
        return "median" if median == "value" else "raise-notimpl"
    if it == "mean":
        if mean == "value":
            return "mean"
        return ("rsample" if has_rsample else "sample") + "-n-mean"      # no analytic mean: estimate it
    if it == "random":
        return "rsample" if has_rsample else "sample"
    return "raise-notimpl"


def check_table(R, ok):
    D, TensorDict, PTM, PTS, TDM, TDS, IT, set_it, Comp, PR, set_agg = _imports()
    grid = list(itertools.product([False, True], [False, True], [None, True, False], CAPS, CAPS, CAPS, [False, True]))
    regs = [None] + ITYPES
    lines, rows = [], []
    for (lkj, has_det, support, mode, median, mean, has_rsample) in grid:
        cls = stub_class(lkj, has_det, support, mode, median, mean, has_rsample)
        mod = PTM(in_keys=["p"], out_keys=["s"], distribution_class=cls, n_empirical_estimate=N_EMP)
        for reg in regs:
            if reg is None:
                PR.DETERMINISTIC_REGISTER.pop(cls, None)
            else:
                PR.DETERMINISTIC_REGISTER[cls] = IT(reg)
            for it in ITYPES:
                dist = cls()
                try:
                    with warnings.catch_warnings():
                        warnings.simplefilter("ignore")
                        mod._dist_sample(dist, interaction_type=IT(it))
                    exc = None
                except Exception as e:  # noqa: BLE001
                    exc = type(e).__name__
                act = observed_action(dist.calls, exc)
                case = {"kind": "prob", "sub": "table", "it": it, "lkj": lkj, "has_det": has_det, "reg": reg, "support_real": support,
                        "mode": mode, "median": median, "mean": mean, "has_rsample": has_rsample}
                rows.append((case, act))
                lines.append(sx([Sym("interact"), Sym(it), lkj, has_det, Sym("none") if reg is None else [Sym("some"), Sym(reg)],
                                 Sym("none") if support is None else [Sym("some"), support], Sym(mode), Sym(median), Sym(mean), has_rsample]))
        PR.DETERMINISTIC_REGISTER.pop(cls, None)
    res = R.model(lines) if ok else [None] * len(lines)
    for (case, act), m in zip(rows, res):
        R.case("table:" + json.dumps(case, sort_keys=True), nontrivial=True, sample=case if len(R.samples) < 6 and case["mean"] == "raise-notimpl" and case["it"] == "mean" else None)
        R.count("table:" + case["it"])
        want = spec_action(case["it"], case["lkj"], case["has_det"], case["reg"], case["support_real"], case["mode"], case["median"],
                           case["mean"], case["has_rsample"])
        if act != want:
            R.oracle_fail("interact:table", case, {"code": act, "contract": want}, {"check": "interact-table", "pattern": "none"})
        if m is not None and m != act:
            R.mismatch("model-vs-code:_dist_sample", case, act, m)
        R.traces += 1
    R.extra["interact_grid_points"] = len(rows)


# ------------------------------------------------------------------ (B) plumbing with a recording distribution
CODE = {"mode": 1, "median": 2, "mean": 3, "deterministic_sample": 4, "rsample": 5, "sample": 6}
LOG = []     # global call log of the recording distributions: (tag, method, payload)


def rec_class(tag, has_rsample=True, has_det=True, param_names=("loc", "scale")):
    D = _imports()[0]

    class Rec(D.Distribution):
        arg_constraints = {}

        def __init__(self, **params):
            self.params = params
            LOG.append((tag, "init", dict(params)))
            self.base = sum(v for v in params.values())
            super().__init__(batch_shape=self.base.shape, validate_args=False)

        def _v(self, name, shape=()):
            LOG.append((tag, name, tuple(shape)))
            return (self.base * 10 + CODE[name]).expand(tuple(shape) + tuple(self.base.shape)).clone()

        mode = property(lambda self: self._v("mode"))
        median = property(lambda self: self._v("median"))
        mean = property(lambda self: self._v("mean"))

        def rsample(self, shape=torch.Size()):
            return self._v("rsample", shape)

        def sample(self, shape=torch.Size()):
            return self._v("sample", shape)

        def log_prob(self, value):
            LOG.append((tag, "log_prob", value))
            return value * 2 + 1
    Rec.has_rsample = has_rsample
    if has_det:
        Rec.deterministic_sample = property(lambda self: self._v("deterministic_sample"))
    return Rec


def expected_method(it, has_rsample, has_det):
    if it == "deterministic":
        return "deterministic_sample" if has_det else "mean"      # unregistered class, no support -> mean
    if it == "random":
        return "rsample" if has_rsample else "sample"
    return it


def check_plumbing(R):
    D, TensorDict, PTM, PTS, TDM, TDS, IT, set_it, Comp, PR, set_agg = _imports()
    rng = R.rng
    combos = list(itertools.product(ITYPES, [None] + ITYPES, [False, True], [None, 3], [False, True], [False, True]))
    if R.quick:
        rng.shuffle(combos)
        combos = combos[:220]
    for (default, ctx, rlp, nsamp, dict_keys, use_out) in combos:
        has_rsample, has_det = rng.random() < 0.6, rng.random() < 0.6
        custom_lp = rng.random() < 0.4
        nested_out = rng.random() < 0.3
        out_key = ("s", "v") if nested_out else "act"
        case = {"kind": "prob", "sub": "module", "default": default, "ctx": ctx, "return_log_prob": rlp, "num_samples": nsamp,
                "dict_in_keys": dict_keys, "tensordict_out": use_out, "has_rsample": has_rsample, "has_det": has_det,
                "custom_log_prob_key": custom_lp, "nested_out": nested_out}
        R.case("module:" + json.dumps(case, sort_keys=True), nontrivial=True, sample=case if rng.random() < 0.01 else None)
        R.count("prob-module:" + (ctx or default))
        fails = run_module_case(case)
        for (label, detail, sig) in fails:
            R.oracle_fail(label, case, detail, sig)
        R.traces += 1
    check_sequential(R)
    check_composite(R)


def run_module_case(case):
    set_agg = _imports()[10]
    with set_agg(False):
        return _run_module_case(case)


def _run_module_case(case):
    D, TensorDict, PTM, PTS, TDM, TDS, IT, set_it, Comp, PR, set_agg = _imports()
    fails = []
    sig = {"check": "prob-module", "pattern": "none"}
    cls = rec_class("d", case["has_rsample"], case["has_det"])
    out_key = ("s", "v") if case["nested_out"] else "act"
    lpk = "my_lp" if case["custom_log_prob_key"] else None
    in_keys = {"loc": "p_loc", "scale": ("par", "scale")} if case["dict_in_keys"] else ["loc", "scale"]
    kw = {}
    if lpk is not None:
        kw["log_prob_key"] = lpk
    try:
        with set_agg(False):
            mod = PTM(in_keys=in_keys, out_keys=[out_key], distribution_class=cls, default_interaction_type=case["default"],
                      return_log_prob=case["return_log_prob"], num_samples=case["num_samples"], n_empirical_estimate=N_EMP, **kw)
    except Exception as e:  # noqa: BLE001
        return [("prob:constructor-raises", {"exception": type(e).__name__}, sig)]
    loc = torch.tensor([1, 2], dtype=torch.int64)
    scale = torch.tensor([100, 200], dtype=torch.int64)
    other = torch.tensor([7, 7], dtype=torch.int64)
    if case["dict_in_keys"]:
        td = TensorDict({"p_loc": loc, "par": {"scale": scale}, "other": other}, [2])
    else:
        td = TensorDict({"loc": loc, "scale": scale, "other": other}, [2])
    tout = TensorDict({"keep": other.clone()}, [2]) if case["tensordict_out"] else None
    keep_obj = tout.get("keep") if tout is not None else None
    before = {k: v for k, v in td.items(True, True)}
    del LOG[:]
    eff = case["ctx"] or case["default"]
    method = expected_method(eff, case["has_rsample"], case["has_det"])
    try:
        with set_agg(False), warnings.catch_warnings():
            warnings.simplefilter("ignore")
            if case["ctx"] is not None:
                with set_it(IT(case["ctx"])):
                    res = mod(td, tensordict_out=tout) if tout is not None else mod(td)
            else:
                res = mod(td, tensordict_out=tout) if tout is not None else mod(td)
    except Exception as e:  # noqa: BLE001
        if case["num_samples"] is not None and eff != "random":
            return []       # a sample count with a non-random interaction type: no demand (the deterministic value has no sample dim)
        return [("prob:forward-raises", {"exception": type(e).__name__, "effective": eff}, sig)]
    # parameters: the distribution was built once from the entries named by in_keys, mapped to the right keywords
    inits = [x for x in LOG if x[1] == "init"]
    if len(inits) != 1 or set(inits[0][2]) != {"loc", "scale"} or inits[0][2]["loc"] is not loc or inits[0][2]["scale"] is not scale:
        fails.append(("prob:parameter-plumbing", {"inits": len(inits), "kwargs": sorted(inits[0][2]) if inits else None}, sig))
    # which method, which sample shape
    calls = [x for x in LOG if x[1] in CODE]
    want_shape = (case["num_samples"],) if (method in ("rsample", "sample") and case["num_samples"] is not None) else ()
    # (hasattr + attribute access may evaluate a property twice: only WHICH method with WHICH shape is demanded)
    if set((c[1], c[2]) for c in calls) != {(method, want_shape)}:
        fails.append(("prob:method-consulted", {"calls": [(c[1], list(c[2])) for c in calls], "want": [method, list(want_shape)],
                                                "effective": eff}, sig))
        return fails
    if case["num_samples"] is not None and eff != "random":
        return fails
    dest = res
    want = (loc + scale) * 10 + CODE[method]
    got = dest.get(out_key, None)
    if got is None or got.shape[-1:] != (2,) or not bool((got == want).all()):
        fails.append(("prob:sample-value", {"have": None if got is None else got.reshape(-1).tolist(), "want": want.tolist()}, sig))
        return fails
    lp_key = lpk if lpk is not None else (("s", "v_log_prob") if case["nested_out"] else "act_log_prob")
    if case["return_log_prob"]:
        lps = [x for x in LOG if x[1] == "log_prob"]
        lp = dest.get(lp_key, None)
        if len(lps) != 1 or lp is None or not bool((lp == got * 2 + 1).all()) or not bool((lps[0][2] == got).all()):
            fails.append(("prob:log-prob", {"log_prob_calls": len(lps), "key": str(lp_key), "present": lp is not None}, sig))
        if lp_key not in [tuple(k) if isinstance(k, tuple) else k for k in mod.out_keys]:
            fails.append(("prob:log-prob-key-not-advertised", {"out_keys": [str(k) for k in mod.out_keys]}, sig))
    elif dest.get(lp_key, None) is not None:
        fails.append(("prob:log-prob-written-unasked", {"key": str(lp_key)}, sig))
    # result object and footprint
    if case["num_samples"] is None:
        if tout is not None and res is not tout or tout is None and res is not td:
            fails.append(("prob:result-object", {"tensordict_out": tout is not None}, sig))
        adv = set(str(k) for k in mod.out_keys)
        for k, v in before.items():
            if str(k) not in adv and td.get(k, None) is not v:
                fails.append(("prob:footprint", {"key": str(k)}, sig))
        allowed = adv | {str(k) for k in before} | {"keep"}
        for t in ([td] if tout is None else [td, tout]):
            for k in t.keys(True, True):
                if str(k) not in allowed:
                    fails.append(("prob:wrote-non-out-key", {"key": str(k)}, sig))
        if tout is not None and tout.get("keep") is not keep_obj:
            fails.append(("prob:footprint", {"key": "keep", "where": "tensordict_out"}, sig))
        if tout is not None and set(map(str, td.keys(True, True))) != set(map(str, before)):
            fails.append(("prob:input-written-with-tensordict_out", {"keys": sorted(map(str, td.keys(True, True)))}, sig))
    return fails


def check_sequential(R):
    """ProbabilisticTensorDictSequential: deterministic part feeds the parameters; forward / get_dist / log_prob"""
    D, TensorDict, PTM, PTS, TDM, TDS, IT, set_it, Comp, PR, set_agg = _imports()
    for (it, rlp, via_ctx, has_rsample) in itertools.product(ITYPES, [False, True], [False, True], [False, True]):
        case = {"kind": "prob", "sub": "sequential", "it": it, "return_log_prob": rlp, "via_ctx": via_ctx, "has_rsample": has_rsample}
        R.case("pseq:" + json.dumps(case, sort_keys=True), nontrivial=True)
        R.count("prob-sequential:" + it)
        sig = {"check": "prob-sequential", "pattern": "none"}
        cls = rec_class("d", has_rsample, True)
        with set_agg(False):
            _one_sequential(R, case, sig, cls, it, rlp, via_ctx, has_rsample)


def _one_sequential(R, case, sig, cls, it, rlp, via_ctx, has_rsample):
    D, TensorDict, PTM, PTS, TDM, TDS, IT, set_it, Comp, PR, set_agg = _imports()
    if True:
        if True:
            net = TDM(lambda x: (x + 1, x * 100), in_keys=["obs"], out_keys=["loc", "scale"])
            pm = PTM(in_keys=["loc", "scale"], out_keys=["act"], distribution_class=cls, return_log_prob=rlp,
                     default_interaction_type="mode" if via_ctx else it)
            seq = PTS(net, pm)
        obs = torch.tensor([1, 2], dtype=torch.int64)
        td = TensorDict({"obs": obs, "other": obs + 5}, [2])
        other = td.get("other")
        del LOG[:]
        method = expected_method(it, has_rsample, True)
        try:
            with set_agg(False), warnings.catch_warnings():
                warnings.simplefilter("ignore")
                if via_ctx:
                    with set_it(IT(it)):
                        res = seq(td)
                else:
                    res = seq(td)
        except Exception as e:  # noqa: BLE001
            R.oracle_fail("prob-seq:forward-raises", case, {"exception": type(e).__name__}, sig)
            return
        want = ((obs + 1) + obs * 100) * 10 + CODE[method]
        calls = [(x[1], x[2]) for x in LOG if x[1] in CODE]
        ok = set(calls) == {(method, ())} and res is td and bool((td.get("act") == want).all()) and td.get("other") is other \
            and list(seq.in_keys) == ["obs"] and bool((td.get("loc") == obs + 1).all())
        if rlp:
            ok = ok and td.get("act_log_prob", None) is not None and bool((td.get("act_log_prob") == want * 2 + 1).all()) \
                and "act_log_prob" in seq.out_keys
        if not ok:
            R.oracle_fail("prob-seq:forward", case, {"calls": [(c[0], list(c[1])) for c in calls], "keys": sorted(map(str, td.keys())),
                                                     "out_keys": [str(k) for k in seq.out_keys]}, sig)
        # get_dist: built from the parameters the deterministic part computes; log_prob of the stored sample
        try:
            del LOG[:]
            td2 = TensorDict({"obs": obs}, [2])
            with set_agg(False):
                dist = seq.get_dist(td2)
            good = isinstance(dist, cls) and bool((dist.params["loc"] == obs + 1).all()) and bool((dist.params["scale"] == obs * 100).all())
            td3 = TensorDict({"obs": obs, "act": obs * 3}, [2])
            with set_agg(False):
                lp = seq.log_prob(td3)
            good = good and bool((lp == obs * 3 * 2 + 1).all())
            if not good:
                R.oracle_fail("prob-seq:get_dist/log_prob", case, {"dist": type(dist).__name__}, sig)
        except Exception as e:  # noqa: BLE001
            R.oracle_fail("prob-seq:get_dist/log_prob", case, {"exception": type(e).__name__}, sig)
        R.traces += 1


def check_composite(R):
    """CompositeDistribution: one recording distribution per sample key"""
    D, TensorDict, PTM, PTS, TDM, TDS, IT, set_it, Comp, PR, set_agg = _imports()
    for (it, rlp, agg) in itertools.product(ITYPES, [False, True], [False, True]):
        case = {"kind": "prob", "sub": "composite", "it": it, "return_log_prob": rlp, "aggregate": agg}
        R.case("composite:" + json.dumps(case, sort_keys=True), nontrivial=True)
        R.count("prob-composite:" + it)
        sig = {"check": "prob-composite", "pattern": "none", "aggregate": agg, "return_log_prob": rlp}
        ca, cb = rec_class("x", True, True), rec_class("y", False, True)
        one = torch.tensor([1, 2], dtype=torch.int64)
        params = TensorDict({"params": {"x": {"loc": one, "scale": one * 100}, "y": {"loc": one * 3, "scale": one * 1000}}, "other": one + 9}, [2])
        other = params.get("other")
        del LOG[:]
        try:
            with set_agg(agg), warnings.catch_warnings():
                warnings.simplefilter("ignore")
                mod = PTM(in_keys=["params"], distribution_class=Comp, distribution_kwargs={"distribution_map": {"x": ca, "y": cb}},
                          default_interaction_type=it, return_log_prob=rlp)
                res = mod(params)
                adv = [str(k) for k in mod.out_keys]
        except Exception as e:  # noqa: BLE001
            if it == "median":
                continue      # CompositeDistribution has no median: NotImplementedError is the table's answer
            R.oracle_fail("prob-composite:raises", case, {"exception": type(e).__name__}, sig)
            continue
        # RANDOM on a composite: CompositeDistribution.has_rsample is False, so every component is drawn with sample();
        # a draw is a draw -- the property does not ask for the reparameterised one
        mx = expected_method(it, it != "random", True)
        my = expected_method(it, False, True)
        wx = (one + one * 100) * 10 + CODE[mx]
        wy = (one * 3 + one * 1000) * 10 + CODE[my]
        calls = sorted(set((x[0], x[1]) for x in LOG if x[1] in CODE))
        ok = calls == sorted([("x", mx), ("y", my)]) and bool((res.get("x") == wx).all()) and bool((res.get("y") == wy).all()) \
            and res.get("other") is other
        if rlp:
            ok = ok and bool((res.get("x_log_prob") == wx * 2 + 1).all()) and bool((res.get("y_log_prob") == wy * 2 + 1).all())
            if agg:
                ok = ok and bool((res.get("sample_log_prob") == wx * 2 + 1 + wy * 2 + 1).all())
        if not ok:
            R.oracle_fail("prob-composite:values", case, {"calls": calls, "keys": sorted(map(str, res.keys(True, True)))}, sig)
        extra = [str(k) for k in res.keys(True, True) if str(k) not in adv and not str(k).startswith("('params'") and str(k) != "other"]
        if extra:
            R.oracle_fail("prob-composite:wrote-non-out-key", case, {"keys": extra, "out_keys": adv},
                          dict(sig, pattern="composite-aggregate-writes-per-leaf-log-probs" if (agg and rlp) else "none"))
        R.traces += 1


# ------------------------------------------------------------------ (C) probabilistic sequences whose deterministic prefix writes sample keys
def run_seqsubset_case(case):
    """ProbabilisticTensorDictSequential(prefix..., final probabilistic module with sample keys K); the prefix writes the
    parameters and a placeholder under every key of W (a subset of K).  The property's text: every sample key NOT produced
    upstream is written by the sampling call the interaction type prescribes, from the distribution built from the
    parameters the prefix computed; stored log-probs are the distribution's log-probs of the stored samples.
    -> (fails, observed _requires_sample or None)"""
    set_agg = _imports()[10]
    with set_agg(False):
        return _run_seqsubset_case(case)


def _run_seqsubset_case(case):
    D, TensorDict, PTM, PTS, TDM, TDS, IT, set_it, Comp, PR, set_agg = _imports()
    K, W, it, rlp = list(case["keys"]), list(case["upstream"]), case["it"], case["return_log_prob"]
    composite = case["composite"]
    sig = {"check": "prob-seq-subset", "pattern": "none", "composite": composite, "subset": "empty" if not W else ("full" if len(W) == len(K) else "strict"),
           "return_log_prob": rlp}
    fails = []
    x = torch.tensor([1, 2], dtype=torch.int64)
    mult = {k: (i + 1, 100 * 10 ** i) for i, k in enumerate(K)}          # loc = x * m0, scale = x * m1
    place = {k: x * 0 + 555 + i for i, k in enumerate(W)}
    classes = {k: rec_class(k, has_rsample=(i % 2 == 0), has_det=True) for i, k in enumerate(K)}
    if composite:
        pk = [("params", k, nm) for k in K for nm in ("loc", "scale")]
    else:
        pk = ["loc", "scale"]

    def params(x):
        out = []
        for k in K:
            out += [x * mult[k][0], x * mult[k][1]]
        return tuple(out)
    try:
        if case["split"]:
            mods = [TDM(params, in_keys=["x"], out_keys=pk)]
            if W:
                mods.append(TDM(lambda x: tuple(place[k] for k in W) if len(W) > 1 else place[W[0]], in_keys=["x"], out_keys=list(W)))
        else:
            mods = [TDM(lambda x: params(x) + tuple(place[k] for k in W), in_keys=["x"], out_keys=pk + list(W))]
        if composite:
            pm = PTM(in_keys=["params"], out_keys=list(K), distribution_class=Comp,
                     distribution_kwargs={"distribution_map": {k: classes[k] for k in K}}, return_log_prob=rlp,
                     default_interaction_type="mode" if case["via_ctx"] else it)
        else:
            pm = PTM(in_keys=["loc", "scale"], out_keys=list(K), distribution_class=classes[K[0]], return_log_prob=rlp,
                     default_interaction_type="mode" if case["via_ctx"] else it)
        seq = PTS(*mods, pm)
        req_attr = bool(seq._requires_sample)
        adv_out = [str(k) for k in seq.out_keys]
    except Exception as e:  # noqa: BLE001
        return [("prob-seq-subset:constructor-raises", {"exception": type(e).__name__}, sig)], None
    stale = {k: x * 0 + 1234 for k in K if k not in W and case["stale"]}
    td = TensorDict(dict({"x": x, "other": x + 5}, **stale), [2])
    other = td.get("other")
    req = any(k not in W for k in K)
    del LOG[:]
    try:
        with warnings.catch_warnings():
            warnings.simplefilter("ignore")
            if case["via_ctx"]:
                with set_it(IT(it)):
                    res = seq(td)
            else:
                res = seq(td)
    except Exception as e:  # noqa: BLE001
        if it == "median" and composite and req:
            return [], req_attr          # CompositeDistribution has no median: NotImplementedError is the table's answer
        pattern = "none"          # (TypeError from dist.log_prob(*tensors) on a composite was finding D148: repaired, PENDING-D148)
        return [("prob-seq-subset:forward-raises", {"exception": type(e).__name__}, dict(sig, pattern=pattern))], req_attr
    consulted = {}
    for (tag, name, payload) in LOG:
        if name in CODE:
            consulted.setdefault(tag, set()).add((name, payload))
    for i, k in enumerate(K):
        base = x * mult[k][0] + x * mult[k][1]
        want_m = expected_method(it, i % 2 == 0, True)
        got = res.get(k, None)
        if k not in W:
            calls = consulted.get(k, set())
            names = {c[0] for c in calls}
            ok_names = ({"rsample"}, {"sample"}) if it == "random" else ({want_m},)
            if names not in ok_names or any(c[1] != () for c in calls):
                fails.append(("prob-seq-subset:method-consulted", {"key": k, "calls": sorted((c[0], list(c[1])) for c in calls), "want": want_m}, sig))
                continue
            m = next(iter(names))
            if got is None or not bool((got == base * 10 + CODE[m]).all()):
                fails.append(("prob-seq-subset:sample-not-written", {"key": k, "have": None if got is None else got.tolist(),
                                                                     "want": (base * 10 + CODE[m]).tolist()}, sig))
        else:
            allowed = [place[k]] + [base * 10 + c for c in CODE.values()]
            if got is None or not any(bool((got == a).all()) for a in allowed):
                fails.append(("prob-seq-subset:upstream-key-value", {"key": k, "have": None if got is None else got.tolist()}, sig))
            if not req and consulted.get(k):
                fails.append(("prob-seq-subset:sampled-although-all-keys-upstream", {"key": k}, sig))
        if rlp and got is not None:
            lpk = k + "_log_prob"
            lp = res.get(lpk, None)
            if lp is None or not bool((lp == got * 2 + 1).all()):
                fails.append(("prob-seq-subset:log-prob", {"key": lpk, "present": lp is not None}, sig))
            if lpk not in adv_out:
                fails.append(("prob-seq-subset:log-prob-key-not-advertised", {"key": lpk, "out_keys": adv_out}, sig))
    if res.get("other", None) is not other:
        fails.append(("prob-seq-subset:footprint", {"key": "other"}, sig))
    return fails, req_attr


def check_seq_subsets(R, ok):
    rng = R.rng
    cases = []
    for K in (["a", "b"], ["a", "b", "c"]):
        for r in range(len(K) + 1):
            for W in itertools.combinations(K, r):
                for it in ITYPES:
                    for rlp in (False, True):
                        for via_ctx in (False, True):
                            cases.append({"kind": "prob", "sub": "seqsubset", "composite": True, "keys": K, "upstream": list(W), "it": it,
                                          "return_log_prob": rlp, "via_ctx": via_ctx, "split": rng.random() < 0.5, "stale": rng.random() < 0.6})
    for W in ([], ["act"]):
        for it in ITYPES:
            for rlp in (False, True):
                cases.append({"kind": "prob", "sub": "seqsubset", "composite": False, "keys": ["act"], "upstream": W, "it": it,
                              "return_log_prob": rlp, "via_ctx": rng.random() < 0.5, "split": rng.random() < 0.5, "stale": rng.random() < 0.6})
    lines, attrs = [], []
    for case in cases:
        R.case("seqsubset:" + json.dumps(case, sort_keys=True), nontrivial=True,
               sample=case if (case["upstream"] and len(case["upstream"]) < len(case["keys"]) and rng.random() < 0.02) else None)
        sub = "empty" if not case["upstream"] else ("full" if len(case["upstream"]) == len(case["keys"]) else "strict")
        R.count("prob-seq-subset:" + sub)
        fails, req_attr = run_seqsubset_case(case)
        for (label, detail, sig) in fails:
            R.oracle_fail(label, case, detail, sig)
        R.traces += 1
        if req_attr is not None:
            lines.append(sx([Sym("requires-sample"), [Sym("some"), [[k] for k in case["keys"]]], [[k] for k in case["upstream"]] + [["x"]]]))
            attrs.append((case, req_attr))
    if ok and lines:
        for (case, req_attr), m in zip(attrs, R.model(lines)):
            if (m == "t") != req_attr:
                R.mismatch("model-vs-code:_requires_sample", case, req_attr, m)


def check(R, ok):
    check_table(R, ok)
    check_plumbing(R)
    check_seq_subsets(R, ok)


def replay(case):
    class FakeR:
        quick = True
        samples = []
    print("probabilistic case:", json.dumps(case))
    if case.get("sub") == "module":
        print("oracle on the implementation:", run_module_case(case) or "(no failure)")
    elif case.get("sub") == "seqsubset":
        fails, req = run_seqsubset_case(case)
        print("implementation: _requires_sample =", req)
        print("property: some sample key is not produced upstream =", any(k not in case["upstream"] for k in case["keys"]))
        print("oracle on the implementation:", fails or "(no failure)")
    elif case.get("sub") == "table":
        D, TensorDict, PTM, PTS, TDM, TDS, IT, set_it, Comp, PR, set_agg = _imports()
        cls = stub_class(case["lkj"], case["has_det"], case["support_real"], case["mode"], case["median"], case["mean"], case["has_rsample"])
        if case["reg"] is not None:
            PR.DETERMINISTIC_REGISTER[cls] = IT(case["reg"])
        mod = PTM(in_keys=["p"], out_keys=["s"], distribution_class=cls, n_empirical_estimate=N_EMP)
        dist = cls()
        try:
            mod._dist_sample(dist, interaction_type=IT(case["it"]))
            exc = None
        except Exception as e:  # noqa: BLE001
            exc = type(e).__name__
        print("implementation:", observed_action(dist.calls, exc))
        print("contract:", spec_action(case["it"], case["lkj"], case["has_det"], case["reg"], case["support_real"], case["mode"],
                                        case["median"], case["mean"], case["has_rsample"]))
    else:
        print("(re-run ./check C14: sequential / composite cases are a fixed grid)")
    return 0
