"""C18 -- the dual sites modelled in the deepening round: dimension names (setter / __init__ / _new_unsafe), memoised class
predicates and @cache, the key set of TensorDictSequential.forward, _parse_to.  Every check runs the REAL code on both
branches (is_compiling forced in every tensordict module, harness/c18_forced.Forced), compares the two observations
(oracle: the property) and each of them with the extracted model (correspondence)."""
import ast
import itertools
import os

from .core import REPO, Sym, some, sx, run_model as _run_model
from .c18_forced import Forced


def run_model(lines):
    return _run_model("C18", lines)


def call(f, *a, **k):
    try:
        return ("ok", f(*a, **k))
    except Exception as e:  # noqa: BLE001 -- the exception class is the observable
        return ("raise", type(e).__name__)


# ------------------------------------------------------------------ names
NAMES = ["u", "v", "w"]


def names_sx(v):
    return None if v is None else [Sym("some"), [some(x) for x in v]]


def dec_nres(m):
    """model result -> ('ok', raw _td_dim_names) | ('raise', 'ValueError')"""
    if m == "ValueError":
        return ("raise", "ValueError")
    st = m[1]
    if st == "none":
        return ("ok", None)
    return ("ok", [None if x == "none" else x[1] for x in st[1]])


def name_values(bd):
    """every names argument over {u, v, None} of length bd-1 .. bd+1 (invalid ones included), and None"""
    out = [None]
    for n in range(max(bd - 1, 0), bd + 2):
        out.extend(list(t) for t in itertools.product(["u", "v", None], repeat=n))
    return out


def check_names(R, torch, tensordict):
    TD = tensordict.TensorDict
    cases, lines = [], []
    for bd in (0, 1, 2):
        curs = [None] + [list(t) for t in itertools.product(["u", "w", None], repeat=bd) if len(set(t) - {None}) == len([x for x in t if x is not None]) and any(x is not None for x in t)]
        for value in name_values(bd):
            for cur in curs:
                cases.append(("names-set", bd, cur, value))
            cases.append(("init-names", bd, None, value))
            for is_td in (True, False):
                cases.append(("new-unsafe-names", bd, is_td, value))
    for (cmd, bd, x, value) in cases:
        for c in (True, False):
            if cmd == "names-set":
                lines.append(sx([Sym(cmd), c, bd, names_sx(x), names_sx(value)]))
            elif cmd == "init-names":
                lines.append(sx([Sym(cmd), c, bd, names_sx(value)]))
            else:
                lines.append(sx([Sym(cmd), c, x, bd, names_sx(value)]))
    m = run_model(lines)

    class SubTD(TD):
        pass
    for i, (cmd, bd, x, value) in enumerate(cases):
        bs = [2] * bd
        obs = {}
        for c in (True, False):
            def run():
                if cmd == "names-set":
                    td = TD({"a": torch.zeros(*bs, 1)}, batch_size=bs)
                    td._td_dim_names = None if x is None else list(x)
                    with Forced(c):
                        td.names = None if value is None else list(value)
                elif cmd == "init-names":
                    with Forced(c):
                        td = TD({"a": torch.zeros(*bs, 1)}, batch_size=bs, names=None if value is None else list(value))
                else:
                    cls = TD if x else SubTD
                    with Forced(c):
                        td = cls._new_unsafe({"a": torch.zeros(*bs, 1)}, batch_size=torch.Size(bs), names=None if value is None else list(value))
                raw = td._td_dim_names
                return (None if raw is None else list(raw), list(td.names))
            obs[c] = call(run)
        helper = {"names-set": "TensorDict.names", "init-names": "TensorDict.__init__", "new-unsafe-names": "TensorDict._new_unsafe"}[cmd]
        R.case((cmd, bd, repr(x), repr(value)), nontrivial=value is not None)
        R.count("names:" + cmd)
        # correspondence (raw stored state / exception class), both branches
        for c in (True, False):
            impl = ("ok", obs[c][1][0]) if obs[c][0] == "ok" else obs[c]
            mod = dec_nres(m[2 * i + (0 if c else 1)])
            if impl != mod:
                R.mismatch(cmd + (":compile" if c else ":eager"), {"bd": bd, "state_or_cls": repr(x), "value": repr(value)}, repr(impl), repr(mod))
        # oracle: what a caller observes (the names property, or the exception class) is the same on both branches
        oc = obs[True][1][1] if obs[True][0] == "ok" else obs[True]
        oe = obs[False][1][1] if obs[False][0] == "ok" else obs[False]
        if oc != oe:
            R.oracle_fail("helpers:native-vs-python", {"helper": helper, "batch_dims": bd, "state_or_cls": repr(x), "names": repr(value)},
                          {"eager": repr(oe), "compile_branch": repr(oc)}, {"helper": helper})
    R.traces += 2 * len(cases)


# ------------------------------------------------------------------ memoised class predicates / @cache
def check_memo(R, torch, tensordict):
    import tensordict.base as B
    import tensordict.utils as U
    from tensordict import NonTensorData, TensorDict, tensorclass
    from tensordict._lazy import LazyStackedTensorDict

    @tensorclass
    class MemoTC:
        x: torch.Tensor

    class PT:
        _pass_through = True

    class NT:
        _is_non_tensor = True

    class TCNone:
        _is_tensorclass = None          # a stored None is recomputed at every call

    class Plain:
        pass
    classes = {"TensorDict": TensorDict, "Lazy": LazyStackedTensorDict, "MemoTC": MemoTC, "NonTensorData": NonTensorData,
               "PT": PT, "NT": NT, "TCNone": TCNone, "Plain": Plain, "int": int, "Tensor": torch.Tensor}
    fns = {
        "_is_non_tensor": (U._is_non_tensor, U._NON_TENSOR_MEMO, True, lambda c: bool(getattr(c, "_is_non_tensor", False))),
        "_pass_through_cls": (U._pass_through_cls, U._PASSTHROUGH_MEMO, True,
                              lambda c: bool(getattr(c, "_is_non_tensor", False)) or getattr(c, "_pass_through", False)),
        "_is_tensorclass": (U._is_tensorclass, U._TENSORCLASS_MEMO, False, lambda c: getattr(c, "_is_tensorclass", False)),
        "_is_tensor_collection": (B._is_tensor_collection, B._TENSOR_COLLECTION_MEMO, True,
                                  lambda c: issubclass(c, B.TensorDictBase) or getattr(c, "_is_tensorclass", False)),
    }
    rng = R.rng
    enc = lambda v: None if v is None else repr(v)  # noqa: E731
    lines, runs = [], []
    for it in range(80 if R.quick else 2000):
        # one interleaved sequence over ALL four predicates (their tables must stay independent), random flag per call
        qs = [(rng.choice(sorted(fns)), rng.random() < 0.5, rng.choice(sorted(classes))) for _ in range(rng.randrange(2, 14))]
        saved = {n: dict(fns[n][1]) for n in fns}
        for n in fns:
            fns[n][1].clear()
        log = []            # every call of a predicate, nested ones included: (function, flag, class name, result)
        rev = {v: k for k, v in classes.items()}
        orig_tc = B._is_tensorclass
        cur = [False]

        def spy(cls, _orig=orig_tc):
            # _is_tensor_collection calls _is_tensorclass on a miss: observed (not altered) so that the model of the
            # _is_tensorclass table sees the same query sequence as the real table
            r = call(_orig, cls)
            log.append(("_is_tensorclass", cur[0], rev.get(cls, "?"), r))
            if r[0] == "ok":
                return r[1]
            raise RuntimeError("spy: _is_tensorclass raised")
        try:
            B._is_tensorclass = spy
            outs = []
            for fname, c, k in qs:
                cur[0] = c
                with Forced(c):
                    r = call(fns[fname][0], classes[k])
                outs.append(r)
                log.append((fname, c, k, r))
            stored = {n: {k: fns[n][1][cls] for k, cls in classes.items() if cls in fns[n][1]} for n in fns}
        finally:
            B._is_tensorclass = orig_tc
            for n in fns:
                fns[n][1].clear()
                fns[n][1].update(saved[n])
        # the nested call is logged before the outer one returns: order inside one table is what matters
        for fname in sorted(fns):
            sub = [(c, k) for f, c, k, _ in log if f == fname]
            table = [[k, some(enc(fns[fname][3](classes[k])))] for k in sorted(classes)]
            lines.append(sx([Sym("memo-run"), fns[fname][2], table, [[c, k] for c, k in sub]]))
        qs_log = list(log)
        runs.append((qs, outs, stored, qs_log))
        R.case(("memo", repr(qs)), nontrivial=len(qs) > 1)
        for fname, _, _ in qs:
            R.count("memo:" + fname)
    m = run_model(lines)
    names = sorted(fns)
    for ri, (qs, outs, stored, log) in enumerate(runs):
        for fi, fname in enumerate(names):
            mo = m[ri * len(names) + fi]
            impl = [enc(o[1]) if o[0] == "ok" else "raise" for (f, c, k, o) in log if f == fname]
            mod = [None if x == "none" else x[1] for x in mo[0]]
            if impl != mod:
                R.mismatch("memo-run:" + fname, {"queries": repr(qs)}, repr(impl), repr(mod))
            mstored = {}
            for k, v in reversed(mo[1]):
                mstored[k] = None if v == "none" else v[1]
            istored = {k: enc(v) for k, v in stored[fname].items()}
            if istored != mstored:
                R.mismatch("memo-table:" + fname, {"queries": repr(qs)}, repr(istored), repr(mstored))
        # oracle: whatever the interleaving, every call returns the uncached value (hence compile == eager)
        got = [enc(o[1]) if o[0] == "ok" else "raise" for o in outs]
        want = [enc(fns[f][3](classes[k])) for f, c, k in qs]
        if got != want:
            bad = next(i for i in range(len(qs)) if got[i] != want[i])
            R.oracle_fail("helpers:native-vs-python", {"helper": qs[bad][0], "queries": repr(qs)},
                          {"returned": repr(got), "uncached value": repr(want)}, {"helper": qs[bad][0]})
    # oracle on each function: the same query sequence all-eager vs all-compile from an empty table
    for fname, (fn, memo, gated, ref) in sorted(fns.items()):
        saved = dict(memo)
        try:
            for order in (sorted(classes), sorted(classes, reverse=True)):
                res = {}
                for c in (False, True):
                    memo.clear()
                    with Forced(c):
                        res[c] = [call(fn, classes[k]) for k in order + order]
                if res[False] != res[True]:
                    R.oracle_fail("helpers:native-vs-python", {"helper": fname, "classes": order},
                                  {"eager": repr(res[False]), "compile_branch": repr(res[True])}, {"helper": fname})
        finally:
            memo.clear()
            memo.update(saved)
    R.traces += len(runs)


def check_cache(R, torch, tensordict):
    """cache.newfun: a cached method of a locked tensordict, called on both branches, before and after a permitted
    in-place value write (keys unchanged): the compile arm (always recomputes) and the eager arm (answers from the cache)
    must return the same value"""
    TD = tensordict.TensorDict
    rng = R.rng
    n = 0
    for it in range(40 if R.quick else 600):
        keys = rng.sample(["a", "b", ("n", "x"), ("n", "y"), ("m", "p", "q")], rng.randrange(1, 5))
        td = TD({}, batch_size=[2])
        for k in keys:
            td[k] = torch.zeros(2)
        td.lock_()
        meth = rng.choice(["sorted_keys", "flatten_keys", "_items_list", "_depth"])

        def run():
            if meth == "sorted_keys":
                return list(td.sorted_keys)
            if meth == "flatten_keys":
                return sorted(td.flatten_keys(".").keys())
            if meth == "_depth":
                return td._depth()
            ks, vs = td._items_list(True, True)
            return [list(map(str, ks)), [float(v.sum()) for v in vs]]
        obs = []
        for c in [rng.random() < 0.5 for _ in range(4)]:
            with Forced(c):
                obs.append((c, call(run)))
        n += 1
        R.case(("cache", meth, repr(keys), repr([c for c, _ in obs])), nontrivial=True)
        R.count("cache:" + meth)
        if len({repr(o) for _, o in obs}) != 1:
            R.oracle_fail("helpers:native-vs-python", {"helper": "cache.newfun", "method": meth, "keys": repr(keys)},
                          {"observations(compile?,result)": repr(obs)}, {"helper": "cache.newfun"})
        td.unlock_()
    R.traces += n


# ------------------------------------------------------------------ TensorDictSequential.forward: the selected key set
def seq_arms(rel, qual):
    """the two expressions assigned to `keys` under `if is_compiling(): ... else: ...` in <rel>:<qual> (pure ast)"""
    src = open(os.path.join(REPO, "tensordict", rel)).read()
    tree = ast.parse(src)
    node = tree
    for part in qual.split("."):
        node = next(n for n in ast.walk(node) if isinstance(n, (ast.ClassDef, ast.FunctionDef)) and n.name == part)
    for n in ast.walk(node):
        if (isinstance(n, ast.If) and isinstance(n.test, ast.Call) and getattr(n.test.func, "id", None) == "is_compiling"
                and len(n.body) == 1 and len(n.orelse) == 1 and all(isinstance(s, ast.Assign) for s in (n.body[0], n.orelse[0]))
                and all(isinstance(s.targets[0], ast.Name) and s.targets[0].id == "keys" for s in (n.body[0], n.orelse[0]))):
            return (compile(ast.Expression(n.body[0].value), rel + ":compile-arm", "eval"),
                    compile(ast.Expression(n.orelse[0].value), rel + ":eager-arm", "eval"))
    raise LookupError(f"{rel}:{qual}: `if is_compiling(): keys = ... else: keys = ...` not found")


class _FakeTD:
    def __init__(self, ks):
        self._ks = ks

    def keys(self, *a, **k):
        return list(self._ks)


class _FakeSelf:
    def __init__(self, out_keys):
        self.out_keys = list(out_keys)


def check_seq_keys(R):
    universe = ["a", "b", "c", ("n", "x"), ("n", "y"), ("a",)]
    rng = R.rng
    for rel, qual in (("nn/sequence.py", "TensorDictSequential.forward"),
                      ("nn/probabilistic.py", "ProbabilisticTensorDictSequential.forward")):
        try:
            arm_c, arm_e = seq_arms(rel, qual)
        except Exception as e:  # noqa: BLE001
            R.broken.append(f"C18 seq-keys: cannot extract the two arms of {rel}:{qual}: {e}")
            continue
        cases, lines = [], []
        for it in range(150 if R.quick else 3000):
            o = [rng.choice(universe) for _ in range(rng.randrange(0, 5))]
            t = [rng.choice(universe) for _ in range(rng.randrange(0, 5))]
            t = list(dict.fromkeys(t))                      # a tensordict's keys are distinct
            cases.append((o, t))
            for c in (True, False):
                lines.append(sx([Sym("seq-keys"), c, [repr(k) for k in o], [repr(k) for k in t]]))
        m = run_model(lines)
        for i, (o, t) in enumerate(cases):
            ns = {"self": _FakeSelf(o), "tensordict": _FakeTD(t)}
            rc = call(eval, arm_c, dict(ns))
            re_ = call(eval, arm_e, dict(ns))
            R.case(("seq-keys", rel, repr(o), repr(t)), nontrivial=len(o) + len(t) > 1)
            R.count("seq_keys:" + qual.split(".")[0])
            canon = lambda r: sorted(repr(k) for k in r[1]) if r[0] == "ok" else r  # noqa: E731
            if canon(rc) != canon(re_) or (rc[0] == "ok" and len(rc[1]) != len(set(rc[1]))):
                R.oracle_fail("helpers:native-vs-python", {"helper": qual, "out_keys": repr(o), "td_keys": repr(t)},
                              {"eager": repr(re_), "compile_branch": repr(rc)}, {"helper": qual})
            for r, mo, what in ((rc, m[2 * i], "seq-keys:compile"), (re_, m[2 * i + 1], "seq-keys:eager")):
                if canon(r) != sorted(mo):
                    R.mismatch(what, {"site": rel, "out_keys": repr(o), "td_keys": repr(t)}, repr(canon(r)), repr(sorted(mo)))
        R.traces += 2 * len(cases)


# ------------------------------------------------------------------ _parse_to (no model: dual differential only)
def check_parse_to(R, torch, U):
    t = torch.zeros(1, dtype=torch.float64)
    spellings = []
    for args in [(), ("cpu",), (torch.device("cpu"),), ("cpu", torch.float64), ("meta",), (torch.float64,), (t,), ("cpu", torch.float32, True)]:
        for kw in [{}, {"dtype": torch.float32}, {"device": "cpu"}, {"non_blocking": True}, {"device": "meta", "dtype": torch.int64},
                   {"batch_size": torch.Size([2])}, {"memory_format": torch.channels_last}]:
            spellings.append((args, kw))
    # since repair D1802 the compile arm is a transcription of the native parser: a wider grid over the documented argument kinds
    # (device as str / torch.device / None, dtype, tensor, bool), arities 0..5, every keyword, ill-typed and duplicate arguments.
    # Python scalars / Python types in the place of a tensor / dtype (accepted natively, refused by the transcription) are not
    # generated: recorded as the residual of D1802 in findings.d/C18.json
    pos_vals = ["cpu", torch.device("meta"), None, torch.float32, t, "cpu:0", torch.channels_last, "bogus", [1]]
    kw_vals = {"device": ["cpu", None, torch.float32, t, "meta"], "dtype": [torch.int64, None, "cpu", t], "non_blocking": [True, False, None, 1],
               "copy": [True, False], "memory_format": [torch.channels_last, None, torch.preserve_format], "tensor": [t, None, torch.float32],
               "convert_to_format": [None], "foo": [1], "batch_size": [torch.Size([2])], "inplace": [True]}
    arglists = [(a,) for a in pos_vals] + list(itertools.product(pos_vals, repeat=2)) \
        + [(a, b, c) for a in ["cpu", None, torch.float32, t] for b in [torch.float32, None, "cpu", t, True] for c in [True, False, None]] \
        + [("cpu", torch.float32, True, False), ("cpu", torch.float32, True, True), (torch.float32, True, False), (t, False, False),
           (t, False, False, False), ("cpu", None, False, False, 1), (torch.float32, True), (t, True)]
    kwlists = [{}] + [{k: v} for k in kw_vals for v in kw_vals[k]]
    keys = sorted(kw_vals)
    for k1, k2 in itertools.combinations(keys, 2):
        kwlists += [{k1: v1, k2: v2} for v1 in kw_vals[k1][:2] for v2 in kw_vals[k2][:2]]
    wide = [(a, kw) for a in [()] + arglists for kw in kwlists]
    spellings += wide if not R.quick else [wide[i] for i in sorted(R.rng.sample(range(len(wide)), 1500))]
    for args, kw in spellings:
        obs = {}
        for c in (False, True):
            with Forced(c):
                r = call(U._parse_to, *args, **dict(kw))
            obs[c] = [repr(x) for x in r[1]] if r[0] == "ok" else r
        label = repr(args) + repr(sorted(kw.items(), key=repr))
        R.case(("parse_to", label), nontrivial=True)
        R.count("parse_to:" + ("positional" if args else "keywords-only"))
        if obs[False] != obs[True]:
            R.oracle_fail("helpers:native-vs-python", {"helper": "_parse_to", "args": repr(args), "kwargs": repr(kw)},
                          {"eager": repr(obs[False]), "compile_branch": repr(obs[True])}, {"helper": "_parse_to"})
    R.traces += len(spellings)


# ------------------------------------------------------------------ replay of the cases reported by this module
def replay(case):
    """re-executes one reported case on both branches; returns True when the case belongs to this module"""
    import torch
    import tensordict
    import tensordict.utils as U
    TD = tensordict.TensorDict
    h = case.get("helper")
    if h in ("TensorDict.names", "TensorDict.__init__", "TensorDict._new_unsafe") and "batch_dims" in case:
        bd, x, value = case["batch_dims"], eval(case["state_or_cls"]), eval(case["names"])
        bs = [2] * bd
        for c in (False, True):
            def run():
                if h == "TensorDict.names":
                    td = TD({"a": torch.zeros(*bs, 1)}, batch_size=bs)
                    td._td_dim_names = None if x is None else list(x)
                    with Forced(c):
                        td.names = None if value is None else list(value)
                elif h == "TensorDict.__init__":
                    with Forced(c):
                        td = TD({"a": torch.zeros(*bs, 1)}, batch_size=bs, names=None if value is None else list(value))
                else:
                    with Forced(c):
                        td = (TD if x else type("SubTD", (TD,), {}))._new_unsafe({"a": torch.zeros(*bs, 1)}, batch_size=torch.Size(bs),
                                                                                names=None if value is None else list(value))
                return td.names
            print("is_compiling forced", c, "->", call(run))
        cmd = {"TensorDict.names": "names-set", "TensorDict.__init__": "init-names", "TensorDict._new_unsafe": "new-unsafe-names"}[h]
        for c in (False, True):
            args = [c, bd, names_sx(x), names_sx(value)] if cmd == "names-set" else ([c, bd, names_sx(value)] if cmd == "init-names" else [c, x, bd, names_sx(value)])
            print("model compile=%s:" % c, run_model([sx([Sym(cmd)] + args)]))
        return True
    if h == "_parse_to":
        args, kw = eval(case["args"], {"torch": torch, "tensor": torch.tensor, "device": torch.device}), eval(case["kwargs"], {"torch": torch})
        for c in (False, True):
            with Forced(c):
                print("is_compiling forced", c, "->", call(U._parse_to, *args, **dict(kw)))
        return True
    if "queries" in case and h in ("_is_non_tensor", "_pass_through_cls", "_is_tensorclass", "_is_tensor_collection"):
        print("memo case: re-run `./check C18` with the same VERIF_SEED; query sequence (function, compile?, class):", case["queries"])
        return True
    if h == "cache.newfun" or (h or "").endswith(".forward"):
        print("re-run `./check C18` with the same VERIF_SEED; case:", case)
        return True
    return False


# ------------------------------------------------------------------ consolidate: the clone decision of the two arms
def check_consolidate(R, torch, tensordict):
    """consolidate() on strided / offset / size-1 / empty leaves, with the flag forced both ways.  Since repair D1803 the function
    does not ask is_compiling() (one clone condition: not is_contiguous() or stride[-1] != 1): the two runs must agree
    (outcomes that raise are counted: `consolidate:raises`, expected 0)."""
    TD = tensordict.TensorDict
    views = {
        "[::2]": lambda t: t[::2], "[1:]": lambda t: t[1:], "[0:1:2]": lambda t: t[0:1:2], "[3:1]": lambda t: t[3:1],
        "[1::2]": lambda t: t[1::2], "unsqueeze(1)": lambda t: t.unsqueeze(1), "[:]": lambda t: t[:], "[::3]": lambda t: t[::3],
    }
    n_cases = 0
    for n in (1, 2, 4, 5):
        for leaves in (("a",), ("b",), ("a", "b")):
            for vname, view in sorted(views.items()):
                def mk():
                    src = {"a": torch.arange(n), "b": torch.arange(n * 3.0).reshape(n, 3)}
                    return view(TD({k: src[k] for k in leaves}, batch_size=[n]))
                try:
                    x = mk()
                except Exception:  # noqa: BLE001 -- not a valid view of this tensordict
                    continue
                lay = [(tuple(v.shape), v.stride(), v.storage_offset(), v.is_contiguous()) for v in x.values()]
                obs = {}
                for c in (False, True):
                    def run():
                        with Forced(c):
                            y = mk().consolidate()
                        return {k: v.reshape(-1).tolist() for k, v in y.items()}
                    obs[c] = call(run)
                n_cases += 1
                R.case(("consolidate", n, leaves, vname), nontrivial=True)
                R.count("consolidate:" + ("contiguous" if all(l[3] for l in lay) else "non-contiguous"))
                if obs[False][0] != "ok" or obs[True][0] != "ok":
                    R.count("consolidate:raises")
                if obs[False] != obs[True]:
                    R.oracle_fail("helpers:native-vs-python", {"helper": "consolidate", "batch": n, "leaves": list(leaves), "view": vname},
                                  {"layouts(shape,stride,offset,is_contiguous)": repr(lay), "eager": repr(obs[False]), "compile_branch": repr(obs[True])},
                                  {"helper": "consolidate"})
    R.traces += n_cases
